"""Round 3: regenerate coq/Gen/ConfigSrc.v from myst_parser/config/dc_validators.py and config/main.py.

The validator closures (`instance_of`, `optional`, `in_`, `deep_iterable`, `deep_mapping`), the `check_*`
validators and `merge_file_level` are translated statement by statement with gen/c13_pywalk.py; the tables below
are the domain mapping (meaning of each atomic expression / simple statement, in terms of
coq/Cfg/CfgSrcPrelude.v and coq/Cfg/Cfg.v).  The refinement lemmas `generated = hand-written model` are in
coq/Cfg/CfgSrcProofs.v.  Validators thread `__co`, the last value they set with setattr(inst, field.name, ..).
"""
from __future__ import annotations

import ast
import re
from pathlib import Path

from gen.c13_pywalk import Untranslatable, Walker, find_function

DCV = "myst_parser/config/dc_validators.py"
MAIN = "myst_parser/config/main.py"
RES = "res (option jv)"
CO = "let __co := @None jv in\n"


def call(term):
    """a validator call as a statement: may raise; its setattr (if any) is the latest"""
    return f"match {term} with Raise __e => @@H@@ | Ok __c => let __co := later __co __c in @@K@@ end"


def validator(where, atoms, stmts, loops):
    return Walker(where, atoms, stmts, loops, pure=False, ret_type=RES, fall="Ok __co")


# ------------------------------------------------------------------ dc_validators.py
def gen_dc_validators(tree):
    out = []
    # instance_of(type_)._validator
    w = validator(DCV + ":instance_of", {
        "isinstance(value, type_)": "(isinst value ts)",
        "type_ is int": "(is_single_int ts is_tuple)",
        "isinstance(value, bool)": "(is_bool value)",
    }, [], {})
    out.append(w.function(find_function(tree, "instance_of._validator"), "instance_of_src",
                          [("ts", "list pyty"), ("is_tuple", "bool"), ("value", "jv")], CO))
    w.check_all_used()
    # optional(validator)._validator
    w = validator(DCV + ":optional", {"value is None": "(jv_is_none value)"},
                  [("validator(inst, field, value, suffix=suffix)", call("validator value"))], {})
    out.append(w.function(find_function(tree, "optional._validator"), "optional_src",
                          [("validator", "jv -> " + RES), ("value", "jv")], CO))
    w.check_all_used()
    # in_(options)._validator
    w = validator(DCV + ":in_", {
        "any((value == option and type(value) is type(option) for option in options))": "(in_ok options value)",
        "in_options": "in_options",
    }, [], {})
    out.append(w.function(find_function(tree, "in_._validator"), "in_src", [("options", "list Z"), ("value", "jv")], CO))
    w.check_all_used()
    # deep_iterable(member_validator, iterable_validator)._validator
    w = validator(DCV + ":deep_iterable", {"iterable_validator is not None": "(is_some iterable_validator)"}, [
        ("iterable_validator(inst, field, value, suffix=suffix)", call("call_opt iterable_validator value")),
        ("member_validator(inst, field, member, suffix=f'{suffix}[{idx}]')", call("member_validator member")),
    ], {"for (idx, member) in enumerate(value)": dict(pat="member", seq="py_iter value", elem="jv", res=True,
                                                      carried=[("__co", "option jv")])})
    out.append(w.function(find_function(tree, "deep_iterable._validator"), "deep_iterable_src",
                          [("member_validator", "jv -> " + RES), ("iterable_validator", "option (jv -> " + RES + ")"),
                           ("value", "jv")], CO))
    w.check_all_used()
    # deep_mapping(key_validator, value_validator, mapping_validator)._validator
    w = validator(DCV + ":deep_mapping", {"mapping_validator is not None": "(is_some mapping_validator)"}, [
        ("mapping_validator(inst, field, value)", call("call_opt mapping_validator value")),
        ("key_validator(inst, field, key, suffix=f'{suffix}[{key!r}]')", call("key_validator key")),
        # value[key]: the value paired with the key (Python dict keys are unique)
        ("value_validator(inst, field, value[key], suffix=f'{suffix}[{key!r}]')", call("value_validator __item")),
    ], {"for key in value": dict(pat="(key, __item)", seq="py_items value", elem="jv * jv", res=True,
                                 carried=[("__co", "option jv")])})
    out.append(w.function(find_function(tree, "deep_mapping._validator"), "deep_mapping_src",
                          [("key_validator", "jv -> " + RES), ("value_validator", "jv -> " + RES),
                           ("mapping_validator", "option (jv -> " + RES + ")"), ("value", "jv")], CO))
    w.check_all_used()
    return out


# ------------------------------------------------------------------ config/main.py: check_*
def gen_checks(tree):
    out = []
    # check_extensions
    w = validator(MAIN + ":check_extensions", {
        "isinstance(value, list | tuple | set)": "(isinst value [PyList; PyTuple; PySet])",
        "diff": "(negb (is_nil diff))",
    }, [
        # the list literal of names is regenerated separately (Gen/Config.v known_extensions = e_known_ext E)
        (re.compile(r"diff = set\(value\)\.difference\(\[('[a-z_]+'(, )?)+\]\)"),
         "match ext_diff E value with Raise __e => @@H@@ | Ok diff => @@K@@ end"),
        ("setattr(inst, field.name, set(value))", "let __co := Some (set_of value) in"),
    ], {})
    out.append(w.function(find_function(tree, "check_extensions"), "check_extensions_src", [("E", "env"), ("value", "jv")], CO))
    w.check_all_used()
    # check_positive_int
    w = validator(MAIN + ":check_positive_int", {"value <= 0": "(jv_le0 value)"},
                  [("instance_of(int)(_, field, value)", call("instance_of_src [PyInt] false value"))], {})
    out.append(w.function(find_function(tree, "check_positive_int"), "check_positive_int_src", [("value", "jv")], CO))
    w.check_all_used()
    # check_sub_delimiters
    w = validator(MAIN + ":check_sub_delimiters", {
        "isinstance(value, tuple | list)": "(isinst value [PyList; PyTuple])",
        "len(value) != 2": "(negb (Nat.eqb (jv_len value) 2))",
        "isinstance(delim, str)": "(is_str delim)",
        "len(delim) != 1": "(negb (Nat.eqb (jv_len delim) 1))",
    }, [], {"for delim in value": dict(pat="delim", seq="seq_of value", elem="jv", carried=[("__co", "option jv")])})
    out.append(w.function(find_function(tree, "check_sub_delimiters"), "check_sub_delimiters_src", [("value", "jv")], CO))
    w.check_all_used()
    # check_inventories
    w = validator(MAIN + ":check_inventories", {
        "isinstance(value, dict)": "(is_dict value)",
        "isinstance(key, str)": "(is_str key)",
        "isinstance(val, tuple | list)": "(isinst val [PyList; PyTuple])",
        "len(val) != 2": "(negb (Nat.eqb (jv_len val) 2))",
        "isinstance(val[0], str)": "(is_str (seq_at val 0))",
        "val[1] is None": "(jv_is_none (seq_at val 1))",
        "isinstance(val[1], str)": "(is_str (seq_at val 1))",
    }, [], {"for (key, val) in value.items()": dict(pat="(key, val)", seq="dict_of value", elem="jv * jv",
                                                    carried=[("__co", "option jv")])})
    out.append(w.function(find_function(tree, "check_inventories"), "check_inventories_src", [("value", "jv")], CO))
    w.check_all_used()
    # check_fence_as_directive
    w = validator(MAIN + ":check_fence_as_directive", {}, [
        ("deep_iterable(instance_of(str), instance_of((list, tuple, set)))(inst, field, value)",
         call("deep_iterable_src (instance_of_src [PyStr] false) (Some (instance_of_src [PyList; PyTuple; PySet] true)) value")),
        ("setattr(inst, field.name, set(value))", "let __co := Some (set_of value) in"),
    ], {})
    out.append(w.function(find_function(tree, "check_fence_as_directive"), "check_fence_as_directive_src", [("value", "jv")], CO))
    w.check_all_used()
    # check_heading_slug_func: importlib is an oracle (e_import E <string>): ImpOk obj | ImportError |
    # AttributeError | ValueError.  ImportError is not in the model's exception enum: an uncaught one is
    # written Raise KeyError (it cannot occur: the handler catches it - @@CATCHES@@ checks that it still does).
    w = validator(MAIN + ":check_heading_slug_func", {
        "value is None": "(jv_is_none value)",
        "isinstance(value, str)": "(is_str value)",
        "callable(value)": "(is_callable value)",
    }, [
        ("module_path, function_name = value.rsplit('.', 1)",
         "match (if mem_N c_dot (jv_str value) then Ok tt else Raise ValueError) with Raise __e => @@H@@ | Ok _ => @@K@@ end"),
        ("mod = import_module(module_path)",
         "match e_import E (jv_str value) with\n| ImpImportError => (if @@CATCHES:ImportError@@ then @@HANDLER@@ else Raise KeyError)\n"
         "| ImpValueError => (let __e := ValueError in @@H@@)\n| _ => @@K@@ end"),
        ("value = getattr(mod, function_name)",
         "match e_import E (jv_str value) with\n| ImpAttributeError => (let __e := AttributeError in @@H@@)\n"
         "| ImpOk __obj => let value := __obj in @@K@@\n| _ => @@K@@ end"),
        ("setattr(inst, field.name, value)", "let __co := Some value in"),
    ], {})
    out.append(w.function(find_function(tree, "check_heading_slug_func"), "check_heading_slug_func_src", [("E", "env"), ("value", "jv")], CO))
    w.check_all_used()
    # check_url_schemes
    w = validator(MAIN + ":check_url_schemes", {
        "isinstance(value, list | tuple)": "(isinst value [PyList; PyTuple])",
        "all((isinstance(v, str) for v in value))": "(all_str (seq_of value))",
        "{v: None for v in value}": "(names_to_dict value)",
        "isinstance(value, dict)": "(is_dict value)",
        "{}": "(@nil (jv * jv))",
        "isinstance(key, str)": "(is_str key)",
        "val is None": "(jv_is_none val)",
        "isinstance(val, str)": "(is_str val)",
        "isinstance(val, dict)": "(is_dict val)",
        "all((isinstance(k, str) for k in val))": "(all_str_keys val)",
        "'url' in val": "(dict_has s_url val)",
        "isinstance(val['url'], str)": "(is_str (dict_at s_url val))",
        "'title' in val": "(dict_has s_title val)",
        "isinstance(val['title'], str)": "(is_str (dict_at s_title val))",
        "'classes' in val": "(dict_has s_classes val)",
        "isinstance(val['classes'], list)": "(isinst (dict_at s_classes val) [PyList])",
        "all((isinstance(c, str) for c in val['classes']))": "(all_str (seq_of (dict_at s_classes val)))",
    }, [
        ("new_dict[key] = val", "let new_dict := new_dict ++ [(key, val)] in"),
        ("new_dict[key] = {'url': val}", "let new_dict := new_dict ++ [(key, JDict [(JStr s_url, val)])] in"),
        ("setattr(inst, field.name, new_dict)", "let __co := Some (JDict new_dict) in"),
    ], {"for (key, val) in value.items()": dict(pat="(key, val)", seq="dict_of value", elem="jv * jv",
                                                carried=[("new_dict", "list (jv * jv)"), ("__co", "option jv")])})
    out.append(w.function(find_function(tree, "check_url_schemes"), "check_url_schemes_src", [("value", "jv")], CO))
    w.check_all_used()
    return out


# ------------------------------------------------------------------ merge_file_level
def gen_merge(tree):
    warn = lambda w: f"let __w := __w ++ [{w}] in"
    w = Walker(MAIN + ":merge_file_level", {
        "{}": "(@nil (jv * jv))",
        "topmatter.get('myst', {})": "(top_get_myst topmatter)",
        "isinstance(myst, dict)": "(is_dict myst)",
        "myst": "(dict_of myst)",
        "'html_meta' in topmatter": "(top_has s_html_meta topmatter)",
        "'substitutions' in topmatter": "(top_has s_substitutions topmatter)",
        "name not in fields": "(negb (is_some (field_lookup fs config name)))",
        "fields[name]": "(field_lookup_total fs config name)",
        "field.metadata.get('merge_topmatter')": "(f_merge field)",
        "new": "Ok (new, __w)",
    }, [
        # warning(MystWarnings.MD_TOPMATTER, <message>): recognised by the head of the message
        (re.compile(r"warning\(MystWarnings\.MD_TOPMATTER, f?[\"']'myst' key not a dict.*\)"), warn("WNotDict")),
        (re.compile(r"warning\(MystWarnings\.MD_TOPMATTER, f?[\"']top-level 'html_meta' key is deprecated.*\)"), warn("WDeprecatedHtmlMeta")),
        (re.compile(r"warning\(MystWarnings\.MD_TOPMATTER, f?[\"']top-level 'substitutions' key is deprecated.*\)"), warn("WDeprecatedSubstitutions")),
        (re.compile(r"warning\(MystWarnings\.MD_TOPMATTER, f?[\"']Unknown field: .*\)"), warn("WUnknownField name")),
        ("warning(MystWarnings.MD_TOPMATTER, str(exc))", warn("WInvalid (name_str name)")),
        ("updates['html_meta'] = topmatter['html_meta']", "let updates := dict_set s_html_meta (top_at s_html_meta topmatter) updates in"),
        ("updates['substitutions'] = topmatter['substitutions']", "let updates := dict_set s_substitutions (top_at s_substitutions topmatter) updates in"),
        ("new = config.copy()", "match copy E fs config [] with Raise __e => @@H@@ | Ok new => @@K@@ end"),
        ("fields = {name: (value, field) for name, value, field in config.as_triple()}", ""),
        ("setattr(new, name, value)", "let new := set_attr name value new in"),
        # the validator may setattr its coerced value on the instance it is given - here `new`
        ("validate_field(new, field, value)",
         "match validate E (f_val field) value with Raise __e => @@H@@ | Ok __c => let new := apply_coercion name __c new in @@K@@ end"),
        ("setattr(new, name, old_value)", "let new := set_attr name old_value new in"),
        ("setattr(new, name, {**old_value, **getattr(new, name)})",
         "match dict_merge old_value (get_attr name new) with Raise __e => @@H@@ | Ok __m => let new := set_attr name __m new in @@K@@ end"),
    ], {"for (name, value) in updates.items()": dict(pat="(name, value)", seq="updates", elem="jv * jv",
                                                     carried=[("new", "Cfg.config"), ("__w", "list warning")])},
        pure=False, ret_type="res (Cfg.config * list warning)")
    fn = find_function(tree, "merge_file_level")
    if [a.arg for a in fn.args.args] != ["config", "topmatter", "warning"]:
        raise Untranslatable("merge_file_level: signature changed")
    text = w.function(fn, "merge_file_level_src",
                      [("E", "env"), ("fs", "list field"), ("config", "Cfg.config"), ("topmatter", "list (jv * jv)")],
                      "let __w := @nil warning in\n")
    w.check_all_used()
    return [text]


def generate(repo: Path):
    t1 = ast.parse((repo / DCV).read_text())
    t2 = ast.parse((repo / MAIN).read_text())
    out = ["(* GENERATED by gen/c13_src.py from config/dc_validators.py and config/main.py - do not edit *)",
           "From Coq Require Import List NArith ZArith Bool.",
           "From MV Require Import Base.PyStr Base.Res Cfg.StrOps Cfg.Cfg Cfg.CfgSrcPrelude.",
           "Import ListNotations.", "Open Scope N_scope.", ""]
    out += gen_dc_validators(t1) + gen_checks(t2) + gen_merge(t2)
    return "\n".join(out) + "\n"


if __name__ == "__main__":
    import sys
    print(generate(Path(sys.argv[1] if len(sys.argv) > 1 else "/repo")))
