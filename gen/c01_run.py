"""Run one C01 case (see gen/c01_docgen.py) on the implementation and classify the outcome.

Used in-process by worker pools (``run_cases_parallel``) and as a fresh-interpreter runner:
``python -m gen.c01_run < case.json`` prints one JSON outcome line.
"""
from __future__ import annotations

import io
import json
import os
import signal
import sys
import traceback
import zlib


class CaseTimeout(BaseException):
    pass


def _alarm(signum, frame):
    raise CaseTimeout()


PLUGIN_CALLERS = ("run_directive", "render_myst_role")
LIBRARY_CALLERS = ("parse", "nested_render_text")
LIB_MARKERS = ["/myst_parser/", "/docutils/", "/sphinx/", "/markdown_it/", "/mdit_py_plugins/", "/jinja2/", "/yaml/", "/pygments/"]


def signature_of(exc: BaseException) -> tuple[str, list[str]]:
    """exception class + innermost frame inside myst_parser (file:function); when no myst_parser frame is on the
    stack, the innermost frame inside one of the libraries."""
    # library frames are named by their qualified name (PropagateTargets.apply, not apply); myst_parser frames by
    # their plain function name
    frames = []
    tbo = exc.__traceback__
    while tbo is not None:
        code = tbo.tb_frame.f_code
        fn = code.co_filename.replace("\\", "/")
        frames.append((fn, code.co_name if "/myst_parser/" in fn else getattr(code, "co_qualname", code.co_name), tbo.tb_lineno))
        tbo = tbo.tb_next
    short = []
    for fn, name, ln in frames[-12:]:
        for m in LIB_MARKERS:
            if m in fn:
                short.append(f"{m.strip('/')}/{fn.split(m, 1)[1]}:{name}:{ln}")
                break
    cls = type(exc).__name__
    if isinstance(exc, RecursionError):
        # the innermost frame of a RecursionError is accidental: identify the cycle by the myst_parser
        # functions that repeat on the stack
        cnt = {}
        for fn, name, ln in frames:
            if "/myst_parser/" in fn:
                k = fn.split("/myst_parser/", 1)[1] + ":" + name
                cnt[k] = cnt.get(k, 0) + 1
        cyc = sorted(k for k, v in cnt.items() if v >= 8)
        if cyc:
            return f"exception:{cls}:cycle=" + "+".join(cyc), short
    for pos in range(len(frames) - 1, -1, -1):
        fn, name, ln = frames[pos]
        if "/myst_parser/" in fn:
            sig = f"exception:{cls}:{fn.split('/myst_parser/', 1)[1]}:{name}"
            if name in PLUGIN_CALLERS + LIBRARY_CALLERS and pos < len(frames) - 1 and cls != "CaseTimeout":
                # third-party directive / role code: identify the plugin's own frame as well;
                # markdown-it / plugin code under Parser.parse: the innermost library frame
                below = [f for f in frames[pos + 1:] if not f[0].endswith("/docutils/nodes.py")] or frames[pos + 1:]
                runs = [f for f in below if f[1].split(".")[-1] in ("run", "__call__")] if name in PLUGIN_CALLERS else []
                ifn, iname, _ = runs[-1] if runs else (below[0] if name in PLUGIN_CALLERS else below[-1])
                for m in LIB_MARKERS[1:]:
                    if m in ifn:
                        sig += f"<-{m.strip('/')}/{ifn.split(m, 1)[1]}:{iname}"
                        break
            return sig, short
    for fn, name, ln in reversed(frames):
        if fn.endswith("/docutils/nodes.py"):
            continue  # generic node container code: identify the caller instead
        for m in LIB_MARKERS[1:]:
            if m in fn:
                return f"exception:{cls}:{m.strip('/')}/{fn.split(m, 1)[1]}:{name}", short
    return f"exception:{cls}:<harness>", short


def make_inv_bytes(entries, project="proj", version="1.0", truncate=0, latin1=False):
    body = "".join(f"{n} {dom}:{typ} 1 {loc} {txt}\n" for (dom, typ, n, loc, txt) in entries)
    raw = body.encode("latin-1" if latin1 else "utf8", errors="replace")
    comp = zlib.compress(raw)
    if truncate:
        comp = comp[:max(1, len(comp) - truncate)]
    return (f"# Sphinx inventory version 2\n# Project: {project}\n# Version: {version}\n"
            "# The remainder of this file is compressed using zlib.\n").encode() + comp


def write_files(root, case):
    name = case.get("name", "index.md")
    for rel, spec in case.get("files", {}).items():
        p = os.path.join(root, rel)
        if "dir" in spec:
            os.makedirs(p, exist_ok=True)
            continue
        os.makedirs(os.path.dirname(p), exist_ok=True)
        if "t" in spec:
            data = spec["t"].replace("__SELF__", name).encode("utf8", errors="surrogatepass")
        elif "b" in spec:
            data = bytes(spec["b"])
        elif "rawinv" in spec:
            data = bytes(spec["rawinv"])
        elif "inv" in spec:
            data = make_inv_bytes([tuple(e) for e in spec["inv"]], truncate=spec.get("truncate", 0), latin1=bool(spec.get("latin1")))
        else:
            raise ValueError(f"unknown file spec {spec!r}")
        with open(p, "wb") as f:
            f.write(data)


def subst(v, root):
    if isinstance(v, str):
        return v.replace("__DIR__", root)
    if isinstance(v, list):
        return [subst(x, root) for x in v]
    if isinstance(v, tuple):
        return tuple(subst(x, root) for x in v)
    if isinstance(v, dict):
        return {k: subst(x, root) for k, x in v.items()}
    return v


def run_docutils(case, root):
    from lib.impl import publish
    name = case.get("name", "index.md")
    text = case["text"].replace("__SELF__", name)
    src = os.path.join(root, name)
    with open(src, "w", encoding="utf8", errors="surrogatepass", newline="") as f:
        f.write(text)
    settings = subst(dict(case.get("settings", {})), root)
    for k in ("myst_enable_extensions", "myst_fence_as_directive"):
        if k in settings and isinstance(settings[k], list):
            settings[k] = set(settings[k])
    doc, ws = publish(text, settings, source_path=src, writer=case.get("writer"))
    if case.get("writer"):
        if not isinstance(doc, (str, bytes)):
            raise AssertionError("no output returned")
    else:
        from docutils import nodes
        if not isinstance(doc, nodes.document):
            raise AssertionError("no document returned")
    return {"ok": True, "nwarn": ws.count("\n")}


def run_sphinx(case, root):
    from sphinx.application import Sphinx
    from sphinx.util.docutils import docutils_namespace, patch_docutils
    name = case.get("name", "index.md")
    src = os.path.join(root, "src")
    os.makedirs(src, exist_ok=True)
    sub = dict(case)
    write_files(src, sub)
    text = case["text"].replace("__SELF__", name)
    with open(os.path.join(src, name), "w", encoding="utf8", errors="surrogatepass", newline="") as f:
        f.write(text)
    settings = subst(dict(case.get("settings", {})), src)
    conf = ["extensions = ['myst_parser'" + (", 'sphinx.ext.intersphinx'" if case.get("intersphinx") else "") + "]",
            "exclude_patterns = ['_build', 'inc_*', 'cyc_*', 'sub', 'undecodable.md', 'empty.md']"]
    for k, v in settings.items():
        conf.append(f"{k} = {v!r}")
    if case.get("intersphinx"):
        conf.append("intersphinx_mapping = %r" % {k: (u or "https://e.org/", p) for k, (u, p) in subst(case["intersphinx"], src).items()})
        conf.append("intersphinx_timeout = 1\nintersphinx_cache_limit = 0")
    conf += case.get("conf", [])
    with open(os.path.join(src, "conf.py"), "w") as f:
        f.write("\n".join(conf) + "\n")
    status, warning = io.StringIO(), io.StringIO()
    with docutils_namespace(), patch_docutils():
        app = Sphinx(src, src, os.path.join(root, "out"), os.path.join(root, "doctrees"), case.get("builder", "html"),
                     status=status, warning=warning, freshenv=True, parallel=case.get("parallel", 0))
        # read phase (parse + transforms of every document) and the resolve phase (post-transforms);
        # the writers are outside the statement of C01
        if case.get("full_build"):
            app.build()
        else:
            app.builder.read()
        docname = name.rsplit(".", 1)[0]
        if docname not in app.env.all_docs:
            raise AssertionError(f"document {docname!r} was not read")
        from docutils import nodes
        for dn in sorted(app.env.all_docs):
            tree = app.env.get_and_resolve_doctree(dn, app.builder)
            if not isinstance(tree, nodes.document):
                raise AssertionError("no document returned")
    return {"ok": True, "nwarn": warning.getvalue().count("\n")}


def run_case(case, timeout=None):
    """Returns {"ok": True,...} or {"ok": False, "exc":..., "sig":..., "frames": [...], "msg":...}."""
    from lib.impl import scratch_dir
    fe = case.get("fe", "docutils")
    timeout = timeout or case.get("timeout") or (60 if fe == "sphinx" else 20)
    old = signal.signal(signal.SIGALRM, _alarm)
    signal.alarm(timeout)
    try:
        with scratch_dir() as root:
            if fe == "docutils":
                write_files(root, case)
                return run_docutils(case, root)
            return run_sphinx(case, root)
    except CaseTimeout as e:
        sig, frames = signature_of(e)
        return {"ok": False, "exc": "timeout", "sig": sig.replace("exception:CaseTimeout", "timeout"), "frames": frames,
                "msg": f"no result after {timeout}s"}
    except BaseException as e:  # noqa: BLE001 - the oracle is exactly "nothing escapes"
        if isinstance(e, KeyboardInterrupt):
            raise
        sig, frames = signature_of(e)
        return {"ok": False, "exc": type(e).__name__, "sig": sig, "frames": frames, "msg": str(e)[:300]}
    finally:
        signal.alarm(0)
        signal.signal(signal.SIGALRM, old)


def _work(chunk):
    out = []
    for i, case in chunk:
        try:
            out.append((i, run_case(case)))
        except BaseException as e:  # harness failure
            out.append((i, {"ok": False, "exc": "harness", "sig": "harness:" + type(e).__name__, "frames": [], "msg": repr(e)[:300]}))
    return out


def run_cases_parallel(cases, jobs=16, chunk=8):
    """Run cases in a fork pool; returns the list of outcomes in order. A worker that dies is reported as a
    failure 'worker-crash' for the cases of its chunk."""
    import multiprocessing as mp
    from concurrent.futures import ProcessPoolExecutor
    from concurrent.futures.process import BrokenProcessPool
    idx = list(enumerate(cases))
    chunks = [idx[i:i + chunk] for i in range(0, len(idx), chunk)]
    res = [None] * len(cases)
    pending = chunks
    for attempt in range(3):
        if not pending:
            break
        failed = []
        with ProcessPoolExecutor(max_workers=jobs, mp_context=mp.get_context("fork")) as ex:
            futs = [(c, ex.submit(_work, c)) for c in pending]
            for c, f in futs:
                try:
                    for i, r in f.result(timeout=1800):
                        res[i] = r
                except (BrokenProcessPool, Exception):  # noqa: BLE001
                    failed.append(c)
        # retry failed chunks one case at a time
        pending = [[x] for c in failed for x in c] if attempt == 0 else failed
    for c in pending:
        for i, _ in c:
            res[i] = {"ok": False, "exc": "worker-crash", "sig": "worker-crash", "frames": [], "msg": "worker process died"}
    return res


def run_fresh(case, timeout=180):
    """Run the case in a fresh interpreter (no history in the process)."""
    import subprocess
    env = dict(os.environ)
    here = os.path.dirname(os.path.dirname(os.path.abspath(__file__)))
    repo = os.environ.get("VERIF_REPO", "/repo")
    env["PYTHONPATH"] = repo + os.pathsep + here
    env["PYTHONHASHSEED"] = "0"
    env["PYTHONDONTWRITEBYTECODE"] = "1"
    try:
        p = subprocess.run([sys.executable, "-m", "gen.c01_run"], input=json.dumps(case), capture_output=True, text=True,
                           timeout=timeout, cwd=here, env=env)
    except subprocess.TimeoutExpired:
        return {"ok": False, "exc": "timeout", "sig": "timeout", "frames": [], "msg": "fresh interpreter timeout"}
    for ln in reversed(p.stdout.splitlines()):
        if ln.startswith("{"):
            return json.loads(ln)
    return {"ok": False, "exc": "worker-crash", "sig": "worker-crash", "frames": [], "msg": (p.stderr or "")[-300:]}


if __name__ == "__main__":
    case = json.loads(sys.stdin.read())
    print(json.dumps(run_case(case)))
