"""Translator html_to_nodes.py -> coq/Gen/HtmlNodes.v (fail-closed).

Read with `ast` from myst_parser/mdit_to_docutils/html_to_nodes.py:
  * OPTION_KEYS_IMAGE / OPTION_KEYS_ADMONITION          -> sorted lists
  * RE_FLOW (pattern parsed with re._parser, flags)      -> tag list, look-ahead class, per-letter
                                                            case-insensitive classes (computed with `re` itself)
  * the replacement in RE_FLOW.subn(lambda s: s.group(0).replace(a, b), text)
  * RE_OPTION_PLAIN / RE_OPTION_ESCAPE                   -> excluded sets / escaped set, `\\s` table from `re`
  * option_line(): the three f-strings                   -> option_line_tpl, quote_tpl, escape prefix/width
Anything outside the accepted shapes raises GenError (=> the tie is broken)."""
import ast
import hashlib
import re
import sys
from pathlib import Path
from re import _parser as sre

from gen.c16_html import GenError, coq_str, cat


def fail(node, why):
    raise GenError(f"html_to_nodes.py line {getattr(node, 'lineno', '?')}: {why}: "
                   f"{ast.dump(node)[:300] if isinstance(node, ast.AST) else node!r}")


def const_set(tree, name):
    for n in tree.body:
        if isinstance(n, ast.Assign) and len(n.targets) == 1 and getattr(n.targets[0], "id", None) == name:
            v = n.value
            if isinstance(v, (ast.Set, ast.Tuple, ast.List)) and all(
                    isinstance(e, ast.Constant) and isinstance(e.value, str) for e in v.elts):
                return sorted({e.value for e in v.elts})
            fail(n, f"{name} is not a set of string constants")
    raise GenError(f"{name} not found")


FLAG_NAMES = {"IGNORECASE": re.IGNORECASE, "I": re.IGNORECASE}


def compiled_regex(tree, name):
    """NAME = re.compile(<str constant>[, re.FLAG]) -> (pattern, flags)"""
    for n in tree.body:
        if isinstance(n, ast.Assign) and len(n.targets) == 1 and getattr(n.targets[0], "id", None) == name:
            c = n.value
            if not (isinstance(c, ast.Call) and isinstance(c.func, ast.Attribute) and c.func.attr == "compile"
                    and isinstance(c.func.value, ast.Name) and c.func.value.id == "re" and not c.keywords
                    and 1 <= len(c.args) <= 2 and isinstance(c.args[0], ast.Constant) and isinstance(c.args[0].value, str)):
                fail(n, f"{name} is not re.compile(<literal>[, flag])")
            flags = 0
            if len(c.args) == 2:
                f = c.args[1]
                if not (isinstance(f, ast.Attribute) and isinstance(f.value, ast.Name) and f.value.id == "re" and f.attr in FLAG_NAMES):
                    fail(f, "unsupported regex flag")
                flags = FLAG_NAMES[f.attr]
            return c.args[0].value, flags
    raise GenError(f"{name} not found")


ALL_CHARS = None


def matching_chars(pattern, flags=0):
    """all code points c such that `pattern` (a one-character pattern) matches chr(c)"""
    global ALL_CHARS
    if ALL_CHARS is None:
        ALL_CHARS = "".join(chr(c) for c in range(sys.maxunicode + 1))
    return sorted({ord(m.group(0)) for m in re.finditer(pattern, ALL_CHARS, flags)})


def class_items(items):
    """(IN, [...]) items -> (negated, literal code points, has \\s)"""
    neg, lits, space = False, [], False
    for op, arg in items:
        if op is sre.NEGATE:
            neg = True
        elif op is sre.LITERAL:
            lits.append(arg)
        elif op is sre.RANGE:
            lits.extend(range(arg[0], arg[1] + 1))
        elif op is sre.CATEGORY and arg is sre.CATEGORY_SPACE:
            space = True
        else:
            raise GenError(f"unsupported character class item {op} {arg}")
    return neg, sorted(set(lits)), space


def tr_flow(pattern, flags):
    p = list(sre.parse(pattern, flags))
    ok = (len(p) == 4 and p[0][0] is sre.LITERAL and p[1][0] is sre.SUBPATTERN and p[2][0] is sre.SUBPATTERN
          and p[3][0] is sre.ASSERT)
    if not ok:
        raise GenError(f"RE_FLOW has an unexpected structure: {p}")
    lt = p[0][1]
    opt = list(p[1][1][3])
    if not (len(opt) == 1 and opt[0][0] is sre.MAX_REPEAT and opt[0][1][0] == 0 and opt[0][1][1] == 1
            and list(opt[0][1][2]) == [(sre.LITERAL, opt[0][1][2][0][1])]):
        raise GenError(f"RE_FLOW: optional slash group not understood: {opt}")
    slash = opt[0][1][2][0][1]
    alt = list(p[2][1][3])
    if len(alt) == 1 and alt[0][0] is sre.BRANCH:
        branches = [list(b) for b in alt[0][1][1]]
    else:
        branches = [alt]
    tags = []
    for b in branches:
        if not b or not all(op is sre.LITERAL for op, _ in b):
            raise GenError(f"RE_FLOW: alternative is not a literal word: {b}")
        tags.append("".join(chr(a) for _, a in b))
    direction, look = p[3][1]
    look = list(look)
    if not (direction == 1 and len(look) == 1 and look[0][0] is sre.IN):
        raise GenError(f"RE_FLOW: look-ahead not understood: {p[3]}")
    neg, lits, space = class_items(look[0][1])
    if neg or space:
        raise GenError("RE_FLOW: look-ahead class uses negation / categories")
    return lt, slash, tags, lits


def tr_plain(pattern):
    p = list(sre.parse(pattern))
    ok = (len(p) == 3 and p[0][0] is sre.IN and p[1][0] is sre.MAX_REPEAT and p[2][0] is sre.MAX_REPEAT)
    if ok:
        lo1, hi1, body1 = p[1][1]
        lo2, hi2, body2 = p[2][1]
        body1, body2 = list(body1), list(body2)
        ok = (lo1 == 0 and hi1 is sre.MAXREPEAT and len(body1) == 1 and body1[0][0] is sre.IN
              and lo2 == 0 and hi2 is sre.MAXREPEAT and len(body2) == 2 and body2[0][0] is sre.LITERAL
              and body2[1][0] is sre.MAX_REPEAT and body2[1][1][0] == 1 and body2[1][1][1] is sre.MAXREPEAT
              and len(list(body2[1][1][2])) == 1 and list(body2[1][1][2])[0][0] is sre.IN)
    if not ok:
        raise GenError(f"RE_OPTION_PLAIN has an unexpected structure: {p}")
    first = class_items(p[0][1])
    rest = class_items(body1[0][1])
    rest2 = class_items(list(body2[1][1][2])[0][1])
    if rest != rest2 or not first[0] or not rest[0]:
        raise GenError("RE_OPTION_PLAIN: classes not understood")
    return first, rest, body2[0][1]


def tr_escape(pattern):
    p = list(sre.parse(pattern))
    if not (len(p) == 1 and p[0][0] is sre.IN):
        raise GenError(f"RE_OPTION_ESCAPE is not a single character class: {p}")
    neg, lits, space = class_items(p[0][1])
    if neg or space:
        raise GenError("RE_OPTION_ESCAPE uses negation / categories")
    return lits


def tr_fstring(e, env):
    """JoinedStr over parameter names -> list of Coq terms"""
    parts = []
    if isinstance(e, ast.Constant) and isinstance(e.value, str):
        return [coq_str(e.value)]
    if not isinstance(e, ast.JoinedStr):
        fail(e, "expected an f-string")
    for v in e.values:
        if isinstance(v, ast.Constant) and isinstance(v.value, str):
            parts.append(coq_str(v.value))
        elif isinstance(v, ast.FormattedValue) and v.conversion == -1 and v.format_spec is None \
                and isinstance(v.value, ast.Name) and v.value.id in env:
            parts.append(env[v.value.id])
        else:
            fail(v, "unsupported f-string part")
    return parts


def tr_option_line(fn):
    args = [a.arg for a in fn.args.args]
    if len(args) != 2:
        fail(fn, "option_line must take (key, value)")
    key, value = args
    body = fn.body
    if body and isinstance(body[0], ast.Expr) and isinstance(body[0].value, ast.Constant):
        body = body[1:]
    if len(body) != 3:
        fail(fn, "option_line: expected three statements")
    s1, s2, s3 = body
    # value = value or ""
    ok = (isinstance(s1, ast.Assign) and getattr(s1.targets[0], "id", None) == value and isinstance(s1.value, ast.BoolOp)
          and isinstance(s1.value.op, ast.Or) and len(s1.value.values) == 2
          and getattr(s1.value.values[0], "id", None) == value
          and isinstance(s1.value.values[1], ast.Constant) and s1.value.values[1].value == "")
    if not ok:
        fail(s1, 'option_line: expected `value = value or ""`')
    # if value and not RE_OPTION_PLAIN.fullmatch(value): ...
    ok = isinstance(s2, ast.If) and not s2.orelse and len(s2.body) == 2 and isinstance(s2.test, ast.BoolOp) \
        and isinstance(s2.test.op, ast.And) and len(s2.test.values) == 2 and getattr(s2.test.values[0], "id", None) == value
    if ok:
        t = s2.test.values[1]
        ok = (isinstance(t, ast.UnaryOp) and isinstance(t.op, ast.Not) and isinstance(t.operand, ast.Call)
              and isinstance(t.operand.func, ast.Attribute) and t.operand.func.attr == "fullmatch"
              and getattr(t.operand.func.value, "id", None) == "RE_OPTION_PLAIN"
              and [getattr(a, "id", None) for a in t.operand.args] == [value])
    if not ok:
        fail(s2, "option_line: expected `if value and not RE_OPTION_PLAIN.fullmatch(value):`")
    e1, e2 = s2.body
    # value = RE_OPTION_ESCAPE.sub(lambda m: f"\\u{ord(m.group(0)):04x}", value)
    ok = (isinstance(e1, ast.Assign) and getattr(e1.targets[0], "id", None) == value and isinstance(e1.value, ast.Call)
          and isinstance(e1.value.func, ast.Attribute) and e1.value.func.attr == "sub"
          and getattr(e1.value.func.value, "id", None) == "RE_OPTION_ESCAPE" and len(e1.value.args) == 2
          and isinstance(e1.value.args[0], ast.Lambda) and getattr(e1.value.args[1], "id", None) == value)
    if not ok:
        fail(e1, "option_line: expected `value = RE_OPTION_ESCAPE.sub(lambda m: ..., value)`")
    lam = e1.value.args[0]
    m = lam.args.args[0].arg
    js = lam.body
    ok = isinstance(js, ast.JoinedStr) and len(js.values) == 2 and isinstance(js.values[0], ast.Constant) \
        and isinstance(js.values[1], ast.FormattedValue)
    if ok:
        fv = js.values[1]
        call = fv.value
        spec = fv.format_spec
        ok = (isinstance(call, ast.Call) and getattr(call.func, "id", None) == "ord" and len(call.args) == 1
              and isinstance(call.args[0], ast.Call) and isinstance(call.args[0].func, ast.Attribute)
              and call.args[0].func.attr == "group" and getattr(call.args[0].func.value, "id", None) == m
              and [getattr(a, "value", None) for a in call.args[0].args] == [0]
              and isinstance(spec, ast.JoinedStr) and len(spec.values) == 1 and isinstance(spec.values[0], ast.Constant))
    if not ok:
        fail(lam, "option_line: escape lambda not understood")
    prefix = js.values[0].value
    fmt = spec.values[0].value
    mm = re.fullmatch(r"0(\d)x", fmt)
    if not mm:
        fail(lam, f"option_line: unsupported format spec {fmt!r}")
    width = int(mm.group(1))
    # value = f'"{value}"'
    if not (isinstance(e2, ast.Assign) and getattr(e2.targets[0], "id", None) == value):
        fail(e2, "option_line: expected an assignment of the quoted value")
    quote = cat(tr_fstring(e2.value, {value: "value"}))
    if not isinstance(s3, ast.Return):
        fail(s3, "option_line: expected a return")
    line = cat(tr_fstring(s3.value, {key: "key", value: "value"}))
    return prefix, width, quote, line


def find_subn_replace(tree):
    """RE_FLOW.subn(lambda s: s.group(0).replace(A, B), text) -> (A, B)"""
    for n in ast.walk(tree):
        if isinstance(n, ast.Call) and isinstance(n.func, ast.Attribute) and n.func.attr in ("subn", "sub") \
                and getattr(n.func.value, "id", None) == "RE_FLOW":
            if not (len(n.args) == 2 and isinstance(n.args[0], ast.Lambda)):
                fail(n, "RE_FLOW.subn: first argument is not a lambda")
            lam = n.args[0]
            b = lam.body
            ok = (isinstance(b, ast.Call) and isinstance(b.func, ast.Attribute) and b.func.attr == "replace"
                  and len(b.args) == 2 and all(isinstance(a, ast.Constant) and isinstance(a.value, str) for a in b.args)
                  and isinstance(b.func.value, ast.Call) and isinstance(b.func.value.func, ast.Attribute)
                  and b.func.value.func.attr == "group" and [getattr(a, "value", None) for a in b.func.value.args] == [0])
            if not ok:
                fail(lam, "RE_FLOW.subn: replacement lambda not understood")
            return b.args[0].value, b.args[1].value
    raise GenError("RE_FLOW.subn call not found")


def nlist(l):
    return "[" + "; ".join(str(x) for x in l) + "]"


def generate(repo):
    src = (Path(repo) / "myst_parser" / "mdit_to_docutils" / "html_to_nodes.py").read_text()
    tree = ast.parse(src)
    out = ["(* GENERATED by gen/c17_nodes.py from myst_parser/mdit_to_docutils/html_to_nodes.py - do not edit *)",
           "From Coq Require Import List NArith Bool.", "From MV Require Import Base.PyStr.",
           "Import ListNotations.", "Open Scope N_scope.", ""]
    ki = const_set(tree, "OPTION_KEYS_IMAGE")
    ka = const_set(tree, "OPTION_KEYS_ADMONITION")
    out.append("Definition option_keys_image : list str :=\n  [" + "; ".join(coq_str(k) for k in ki) + "].")
    out.append("Definition option_keys_admonition : list str :=\n  [" + "; ".join(coq_str(k) for k in ka) + "].")
    out.append("")
    # RE_FLOW
    pat, flags = compiled_regex(tree, "RE_FLOW")
    lt, slash, tags, look = tr_flow(pat, flags)
    out.append("(* RE_FLOW: '<' optional-slash (tag|...) look-ahead; flags: %s *)" % ("IGNORECASE" if flags & re.I else "none"))
    out.append(f"Definition flow_open : N := {lt}.")
    out.append(f"Definition flow_slash : N := {slash}.")
    out.append("Definition flow_tags : list str :=\n  [" + ";\n   ".join(coq_str(t) for t in tags) + "].")
    out.append(f"Definition flow_look : list N := {nlist(look)}.")
    letters = sorted({ord(c) for t in tags for c in t})
    out.append("(* per pattern letter: the code points it matches under the flags of RE_FLOW (computed with re) *)")
    lines = []
    for l in letters:
        cs = matching_chars(re.escape(chr(l)), flags)
        lines.append(f"  if l =? {l} then {nlist(cs)} else")
    out.append("Definition flow_ci (l : N) : list N :=\n" + "\n".join(lines) + "\n  [l].")
    a, b = find_subn_replace(tree)
    out.append(f"Definition flow_replace_from : str := {coq_str(a)}.")
    out.append(f"Definition flow_replace_to : str := {coq_str(b)}.")
    out.append("")
    # option_line
    space = matching_chars(r"\s")
    out.append("(* code points matched by \\s in a str pattern (computed with re) *)")
    out.append(f"Definition re_space : list N := {nlist(space)}.")
    ppat, pflags = compiled_regex(tree, "RE_OPTION_PLAIN")
    if pflags:
        raise GenError("RE_OPTION_PLAIN has flags")
    first, rest, sep = tr_plain(ppat)
    out.append("(* RE_OPTION_PLAIN = [^first][^rest]*(?:sep [^rest]+)*  : excluded literals, and whether \\s is excluded *)")
    out.append(f"Definition plain_first_excl : list N := {nlist(first[1])}.")
    out.append(f"Definition plain_first_space : bool := {'true' if first[2] else 'false'}.")
    out.append(f"Definition plain_rest_excl : list N := {nlist(rest[1])}.")
    out.append(f"Definition plain_rest_space : bool := {'true' if rest[2] else 'false'}.")
    out.append(f"Definition plain_sep : N := {sep}.")
    epat, eflags = compiled_regex(tree, "RE_OPTION_ESCAPE")
    if eflags:
        raise GenError("RE_OPTION_ESCAPE has flags")
    esc = tr_escape(epat)
    out.append(f"Definition escape_set : list N := {nlist(esc)}.")
    fn = next((n for n in tree.body if isinstance(n, ast.FunctionDef) and n.name == "option_line"), None)
    if fn is None:
        raise GenError("option_line not found")
    prefix, width, quote, line = tr_option_line(fn)
    out.append(f"Definition escape_prefix : str := {coq_str(prefix)}.")
    out.append(f"Definition escape_width : nat := {width}.")
    out.append(f"Definition quote_tpl (value : str) : str := {quote}.")
    out.append(f"Definition option_line_tpl (key value : str) : str := {line}.")
    out.append("")
    text = "\n".join(out) + "\n"
    info = {"sha": hashlib.sha256(text.encode()).hexdigest()[:16], "tags": tags, "look": look,
            "ignorecase": bool(flags & re.I), "escape_set": esc}
    return text, info


if __name__ == "__main__":
    t, i = generate(sys.argv[1] if len(sys.argv) > 1 else "/repo")
    print(t)
    print(i, file=sys.stderr)
