"""C07 translator: myst_parser/parsers/options.py -> coq/Gen/OptConsts.v  (fail-closed).

Read on every run with Python's ``ast``:

* the six module-level ``_CHARS_*`` string constants,
* the dict literals ``_ESCAPE_REPLACEMENTS`` (char -> str) and ``_ESCAPE_CODES`` (char -> int),
* for every scanner function, in source order, the right-hand side of every ``in`` / ``not in``
  comparison whose right operand is a string literal, a tuple of one-character literals, a
  module constant, or a ``+`` of those (e.g. ``"'\"\\\\" + _CHARS_END_SPACE_TAB_NEWLINE``).
  Membership tests in the two dicts are recognised and not emitted (the model looks the dicts up).
* the integer literal guarding ``chr()`` in the escape branch (``code > 0x10FFFF``), if present.

Everything is emitted as ``list N`` / association lists.  The hand-written model
(coq/Opt/OptModel.v) takes all its tables from the generated file, so a mutated table changes the
subject of the theorems.  Any shape not listed above, a missing function, or a different number of
membership tests in a function than the model was written for stops the run (tie broken).
"""
from __future__ import annotations

import ast
import hashlib

SRC = "myst_parser/parsers/options.py"

CHAR_CONSTS = ["_CHARS_END", "_CHARS_NEWLINE", "_CHARS_END_NEWLINE", "_CHARS_SPACE_NEWLINE",
               "_CHARS_END_SPACE_NEWLINE", "_CHARS_END_SPACE_TAB_NEWLINE"]
DICTS = ["_ESCAPE_REPLACEMENTS", "_ESCAPE_CODES"]

# function -> number of emitted membership tables the model expects
EXPECTED = {
    "forward": 1,
    "_tokenize": 3,
    "_scan_to_next_token": 1,
    "_scan_plain_scalar": 2,
    "_scan_plain_spaces": 2,
    "_scan_line_break": 2,
    "_scan_flow_scalar": 0,
    "_scan_flow_scalar_non_spaces": 4,
    "_scan_flow_scalar_spaces": 2,
    "_scan_flow_scalar_breaks": 2,
    "_scan_block_scalar": 3,
    "_scan_block_scalar_indicators": 5,
    "_scan_block_scalar_ignored_line": 2,
    "_scan_block_scalar_indentation": 1,
    "_scan_block_scalar_breaks": 1,
}


class Untranslatable(Exception):
    pass


def _str_const(node):
    if isinstance(node, ast.Constant) and isinstance(node.value, str):
        return node.value
    raise Untranslatable(f"line {getattr(node, 'lineno', '?')}: expected a string literal, got {ast.dump(node)[:80]}")


def _module_tables(tree):
    chars, dicts = {}, {}
    for node in tree.body:
        tgt = val = None
        if isinstance(node, ast.AnnAssign) and isinstance(node.target, ast.Name):
            tgt, val = node.target.id, node.value
        elif isinstance(node, ast.Assign) and len(node.targets) == 1 and isinstance(node.targets[0], ast.Name):
            tgt, val = node.targets[0].id, node.value
        if tgt in CHAR_CONSTS:
            if tgt in chars:
                raise Untranslatable(f"{tgt} assigned twice")
            chars[tgt] = _str_const(val)
        elif tgt in DICTS:
            if tgt in dicts:
                raise Untranslatable(f"{tgt} assigned twice")
            if not isinstance(val, ast.Dict):
                raise Untranslatable(f"{tgt}: not a dict literal")
            items = []
            for k, v in zip(val.keys, val.values):
                ks = _str_const(k)
                if len(ks) != 1:
                    raise Untranslatable(f"{tgt}: key {ks!r} is not one character")
                if tgt == "_ESCAPE_CODES":
                    if not (isinstance(v, ast.Constant) and type(v.value) is int and v.value >= 0):
                        raise Untranslatable(f"{tgt}[{ks!r}]: not a non-negative int literal")
                    items.append((ks, v.value))
                else:
                    items.append((ks, _str_const(v)))
            if len({k for k, _ in items}) != len(items):
                raise Untranslatable(f"{tgt}: duplicate key")
            dicts[tgt] = items
    for n in CHAR_CONSTS:
        if n not in chars:
            raise Untranslatable(f"module constant {n} not found")
    for n in DICTS:
        if n not in dicts:
            raise Untranslatable(f"module dict {n} not found")
    return chars, dicts


def _rhs_value(node, chars):
    """str value of an accepted right operand of in/not in; None for a dict-membership test."""
    if isinstance(node, ast.Constant) and isinstance(node.value, str):
        return node.value
    if isinstance(node, ast.Name):
        if node.id in chars:
            return chars[node.id]
        if node.id in DICTS:
            return None
        raise Untranslatable(f"line {node.lineno}: membership in unknown name {node.id}")
    if isinstance(node, ast.Tuple):
        out = ""
        for e in node.elts:
            s = _str_const(e)
            if len(s) != 1:
                raise Untranslatable(f"line {node.lineno}: tuple element {s!r} is not one character")
            out += s
        return out
    if isinstance(node, ast.BinOp) and isinstance(node.op, ast.Add):
        a, b = _rhs_value(node.left, chars), _rhs_value(node.right, chars)
        if a is None or b is None:
            raise Untranslatable(f"line {node.lineno}: '+' with a dict operand")
        return a + b
    raise Untranslatable(f"line {getattr(node, 'lineno', '?')}: membership right operand not understood: {ast.dump(node)[:100]}")


def _functions(tree):
    out = {}
    for node in ast.walk(tree):
        if isinstance(node, (ast.FunctionDef,)):
            if node.name in EXPECTED:
                if node.name in out:
                    raise Untranslatable(f"function {node.name} defined twice")
                out[node.name] = node
    return out


def _memberships(fn, chars):
    comps = []
    for node in ast.walk(fn):
        if isinstance(node, ast.Compare):
            if len(node.ops) != 1:
                if any(isinstance(o, (ast.In, ast.NotIn)) for o in node.ops):
                    raise Untranslatable(f"line {node.lineno}: chained comparison with 'in'")
                continue
            if isinstance(node.ops[0], (ast.In, ast.NotIn)):
                comps.append(node)
    comps.sort(key=lambda n: (n.lineno, n.col_offset))
    tables = []
    for c in comps:
        v = _rhs_value(c.comparators[0], chars)
        if v is not None:
            tables.append((c.lineno, v))
    return tables


def _chr_guard(fn):
    """Integer literal N of a test `code > N` in _scan_flow_scalar_non_spaces (None if absent)."""
    found = []
    for node in ast.walk(fn):
        if (isinstance(node, ast.Compare) and len(node.ops) == 1 and isinstance(node.ops[0], ast.Gt)
                and isinstance(node.left, ast.Name) and node.left.id == "code"):
            r = node.comparators[0]
            if not (isinstance(r, ast.Constant) and type(r.value) is int):
                raise Untranslatable(f"line {node.lineno}: `code > ...` with a non-literal bound")
            found.append(r.value)
    if len(found) > 1:
        raise Untranslatable("more than one `code > N` test")
    return found[0] if found else None


def _n(c):
    return f"{c}"


def _nlist(s):
    return "[" + "; ".join(_n(ord(c)) for c in s) + "]"


def translate(source: str) -> str:
    tree = ast.parse(source)
    chars, dicts = _module_tables(tree)
    fns = _functions(tree)
    lines = [
        "(* GENERATED by gen/c07_consts.py from myst_parser/parsers/options.py - do not edit. *)",
        "From Coq Require Import List NArith.",
        "Import ListNotations.",
        "Open Scope N_scope.",
        "",
    ]
    for n in CHAR_CONSTS:
        lines.append(f"Definition {n[1:]} : list N := {_nlist(chars[n])}.")
    lines.append("")
    repl = dicts["_ESCAPE_REPLACEMENTS"]
    lines.append("Definition ESCAPE_REPLACEMENTS : list (N * list N) :=\n  ["
                 + ";\n   ".join(f"({ord(k)}, {_nlist(v)})" for k, v in repl) + "].")
    codes = dicts["_ESCAPE_CODES"]
    lines.append("Definition ESCAPE_CODES : list (N * N) :=\n  ["
                 + "; ".join(f"({ord(k)}, {v})" for k, v in codes) + "].")
    lines.append("")
    for name, want in EXPECTED.items():
        if name not in fns:
            raise Untranslatable(f"function {name} not found")
        tabs = _memberships(fns[name], chars)
        if len(tabs) != want:
            raise Untranslatable(f"{name}: {len(tabs)} literal membership tests, the model expects {want}")
        short = name.lstrip("_")
        for i, (ln, v) in enumerate(tabs):
            lines.append(f"Definition in_{short}_{i} : list N := {_nlist(v)}.")
    lines.append("")
    g = _chr_guard(fns["_scan_flow_scalar_non_spaces"])
    lines.append("(* bound N of the test `code > N` before chr(code); None = no such test in the source *)")
    lines.append("Definition CHR_GUARD : option N := " + ("None." if g is None else f"Some {g}."))
    lines.append("")
    return "\n".join(lines)


def run(repo, out_path, write_if_changed):
    src = (repo / SRC).read_text(encoding="utf8")
    text = translate(src)
    write_if_changed(out_path, text)
    return {"file": SRC, "sha256": hashlib.sha256(src.encode()).hexdigest()[:16],
            "out": "coq/Gen/OptConsts.v", "out_sha256": hashlib.sha256(text.encode()).hexdigest()[:16]}


if __name__ == "__main__":
    import sys
    from pathlib import Path
    print(translate((Path(sys.argv[1] if len(sys.argv) > 1 else "/repo") / SRC).read_text(encoding="utf8")))
