"""Regenerate coq/Gen/AnchorsSrc.v from myst_parser/mdit_to_docutils/transforms.py: ResolveAnchorIds.apply
translated statement by statement (gen/c09_pywalk.py) into Gallina over the C09 model types
(coq/Refs/Anchors.v, AnchorsOps.v).

Domain mapping (TRUSTED, fail-closed - anything not listed raises Untranslatable):
  registries   self.document.nametypes.items() -> nametypes rg ; self.document.nameids[k] -> py_getitem (nameids rg) k (KeyError);
               self.document.ids[k] -> py_getitem (ids rg) k ; self.document.ids.get(k) -> py_get (ids rg) k (an option);
               slugs = getattr(self.document, "myst_slugs", {}) -> the parameter slugs ; explicit[k] = v -> dset explicit k v ;
               k in d -> dmem d k ; d[k] -> py_getitem d k
  nodes        isinstance(n, nodes.target) -> is_kind n KTarget, caption|title -> KCaptionTitle, definition_list|field_list ->
               KDefFieldList, field|definition_list_item -> KFieldDLI, term|field_name -> KTermFieldName ;
               "refid" in n -> has_refid n ; n["refid"] -> get_refid n (KeyError) ; "refuri" in n -> n_has_refuri n ;
               n["names"][0] -> py_hd (n_names n) (IndexError; on a None node: TypeError) ; n.tagname -> n_tag n ;
               n.children -> n_children n ; for sub in n -> n_children n ; n[0] -> py_child0 n (IndexError) ;
               clean_astext(n) -> n_astext n
  references   findall(self.document)(nodes.reference) -> the parameter refs ; refnode.get("id_link") -> r_id_link refnode ;
               refnode["refuri"][1:] -> r_frag refnode ; del refnode["refuri"] -> nothing ; refnode.line -> r_line refnode ;
               the reference being rewritten is the local record st (AnchorsOps.rstate): refnode["refid"] = x -> set_refid st x ;
               refnode.children -> st_children st ; refnode += nodes.inline(x, x, classes=["std","std-ref"]) -> add_inline st x ;
               create_warning(self.document, f"..{target!r}", MystWarnings.XREF_MISSING, line=refnode.line, append_to=refnode)
               -> warn_append suppressed st (r_line refnode) target  (create_warning returns None and appends nothing when the
               warning is suppressed) ; hasattr(self.document.settings, "env") -> sphinx ; normalizeLink(x) -> normalizeLink x
  Sphinx block pending = addnodes.pending_xref(.., reftarget=target, refexplicit=bool(refnode.children)) -> checked, no state ;
               pending.source, pending.line = refnode.source, refnode.line -> set_pline st (r_line refnode) ;
               refnode.parent.replace(refnode, pending) -> set_pending st ; the inner_node statements (exact text) -> nothing
  end of an iteration (continue / fall through) -> outs ++ [finish refnode st]"""
from __future__ import annotations

import ast
from pathlib import Path

from gen.c09_pywalk import Env, Untranslatable, Walker, canonicalize, coq_str, find_method

DOC = "self.document"

KINDS = {frozenset(["target"]): "KTarget", frozenset(["caption", "title"]): "KCaptionTitle",
         frozenset(["definition_list", "field_list"]): "KDefFieldList",
         frozenset(["field", "definition_list_item"]): "KFieldDLI",
         frozenset(["term", "field_name"]): "KTermFieldName"}

SKIP_EXACT = {
    "from sphinx import addnodes",
    "del refnode['refuri']",
    "inner_node = nodes.inline('', '', classes=['xref', 'myst'] + refnode['classes'])",
    "for attr in ('ids', 'names', 'dupnames'):\n    inner_node[attr] = refnode[attr]",
    "inner_node += refnode.children",
    "pending += inner_node",
    "slugs: dict[str, tuple[int, str, str]] = getattr(self.document, 'myst_slugs', {})",
}

PENDING = ("pending = addnodes.pending_xref(refdoc=self.document.settings.env.docname, refdomain=None, reftype='myst', "
           "reftarget=target, refexplicit=bool(refnode.children))")


def u(e):
    return ast.unparse(e)


def class_set(e):
    """nodes.a | nodes.b -> {"a", "b"}"""
    if isinstance(e, ast.BinOp) and isinstance(e.op, ast.BitOr):
        return class_set(e.left) | class_set(e.right)
    if isinstance(e, ast.Attribute) and isinstance(e.value, ast.Name) and e.value.id == "nodes":
        return frozenset([e.attr])
    raise Untranslatable(f"class expression {u(e)}")


class AnchorMap:
    def expr(self, e, env, w):
        src = u(e)
        if isinstance(e, ast.Call) and isinstance(e.func, ast.Name) and e.func.id == "__truthy":
            return self.truthy(e.args[0], env, w), False
        if isinstance(e, ast.Constant) and e.value is None:
            w._last_kind = "optional"
            return "(@None str)", False
        if isinstance(e, ast.Dict) and not e.keys:
            return "(@nil (str * (str * option str)))", False
        if isinstance(e, ast.Name):
            if e.id in env.types or e.id in ("slugs",):
                return e.id, False
            raise Untranslatable(f"unknown name {e.id}")
        if isinstance(e, ast.Tuple):
            return "(" + ", ".join(w.pure(x, env) for x in e.elts) + ")", False
        if src == f"{DOC}.nameids[name]":
            w._last_kind = "optional"
            return "py_getitem (nameids rg) name", True
        if src == f"{DOC}.ids[labelid]":
            if "labelid" in env.optional:
                raise Untranslatable("labelid may be None here")
            w._last_type = "dnode"
            return "py_getitem (ids rg) labelid", True
        if src == f"{DOC}.ids.get(node['refid'])":
            w._last_kind = "optional"
            w._last_type = "dnode"
            return "(do __r <- get_refid node; Ok (py_get (ids rg) __r))", True
        if src == "refnode['refuri'][1:]":
            w._last_type = "str"
            return "(r_frag refnode)", False
        if src == "explicit[target]":
            w._last_tuple_types = {"ref_id": "str", "implicit_title": "ostr"}
            return "py_getitem explicit target", True
        if src == "slugs[target]":
            w._last_tuple_types = {"sect_id": "str", "implicit_title": "str", "__pat": "'(_slug_line, sect_id, implicit_title)"}
            return "py_getitem slugs target", True
        if src == "node[0]":
            w._last_type = "dnode"
            return "py_child0 node", True
        if src == "refnode.line":
            return "(r_line refnode)", False
        if isinstance(e, ast.Call) and u(e.func) == "clean_astext" and len(e.args) == 1 and isinstance(e.args[0], ast.Name):
            if env.types.get(e.args[0].id) != "dnode" or e.args[0].id in env.optional:
                raise Untranslatable(f"clean_astext of {e.args[0].id}")
            w._last_kind = "optional"          # assigned to implicit_title : option str
            return f"(Some (n_astext {e.args[0].id}))", False
        if isinstance(e, ast.Call) and u(e.func) == "normalizeLink" and len(e.args) == 1:
            return f"(normalizeLink {w.pure(e.args[0], env)})", False
        if isinstance(e, ast.BinOp) and isinstance(e.op, ast.Add) and isinstance(e.left, ast.Constant) and e.left.value == "#":
            return f"(s_hash ++ {w.pure(e.right, env)})", False
        raise Untranslatable(f"expression {src}")

    def node_ok(self, name, env):
        if env.types.get(name) != "dnode" or name in env.optional:
            raise Untranslatable(f"{name} is not known to be a node here")

    def truthy(self, t, env, w):
        src = u(t)
        if isinstance(t, ast.Name):
            ty = env.types.get(t.id)
            if t.id == "is_explicit":
                return "is_explicit"
            if t.id == "implicit_title" and ty == "ostr":
                return "(truthy_ostr implicit_title)"
            if t.id == "implicit_title" and ty == "str":
                return "(nonempty implicit_title)"
            raise Untranslatable(f"truthiness of {t.id} : {ty}")
        if isinstance(t, ast.Call) and u(t.func) == "isinstance" and len(t.args) == 2 and isinstance(t.args[0], ast.Name):
            self.node_ok(t.args[0].id, env)
            cs = class_set(t.args[1])
            if cs not in KINDS:
                raise Untranslatable(f"isinstance classes {sorted(cs)}")
            return f"(is_kind {t.args[0].id} {KINDS[cs]})"
        if isinstance(t, ast.Compare) and len(t.ops) == 1 and isinstance(t.ops[0], ast.In):
            l, r = t.left, t.comparators[0]
            if isinstance(l, ast.Constant) and isinstance(r, ast.Name) and l.value in ("refid", "refuri"):
                self.node_ok(r.id, env)
                return f"({'has_refid' if l.value == 'refid' else 'n_has_refuri'} {r.id})"
            if isinstance(l, ast.Name) and l.id == "target" and isinstance(r, ast.Name) and r.id in ("explicit", "slugs"):
                return f"(dmem {r.id} target)"
        if isinstance(t, ast.Compare) and len(t.ops) == 1 and isinstance(t.ops[0], ast.Eq):
            l, r = t.left, t.comparators[0]
            if isinstance(l, ast.Attribute) and l.attr == "tagname" and isinstance(l.value, ast.Name) and isinstance(r, ast.Constant):
                self.node_ok(l.value.id, env)
                return f"(str_eqb (n_tag {l.value.id}) {coq_str(r.value)})"
        if (isinstance(t, ast.Call) and isinstance(t.func, ast.Attribute) and t.func.attr == "startswith"
                and u(t.func.value).endswith(".tagname") and len(t.args) == 1 and isinstance(t.args[0], ast.Constant)):
            n = t.func.value.value.id
            self.node_ok(n, env)
            return f"(startswith (n_tag {n}) {coq_str(t.args[0].value)})"
        if src == "node.children":
            self.node_ok("node", env)
            return "(nonempty_c (n_children node))"
        if src == "refnode.children":
            return "(st_children st)"
        if src == "refnode.get('id_link')":
            return "(r_id_link refnode)"
        if src == f"hasattr({DOC}.settings, 'env')":
            return "sphinx"
        raise Untranslatable(f"test {src}")

    def effect(self, s, env, w):
        src = u(s)
        if src == "labelid = node['names'][0]":
            if "node" in env.optional:
                env.optional.discard("node")
                env.optional.discard("labelid")
                return [("node", "unwrap_typeerror node", True), ("labelid", "py_hd (n_names node)", True)]
            env.optional.discard("labelid")
            return [("labelid", "py_hd (n_names node)", True)]
        if src == "explicit[name] = (labelid, implicit_title)":
            if "labelid" in env.optional:
                raise Untranslatable("labelid may be None in the explicit entry")
            if "implicit_title" in env.optional:
                title = "implicit_title"
            elif "implicit_title" in env.refined:
                title = "(Some implicit_title)"      # refined by `is None` on this path: wrap again
            else:
                raise Untranslatable("type of implicit_title in the explicit entry")
            return [("explicit", f"dset explicit name (labelid, {title})", False)]
        if src == "target = refnode['refuri'][1:]":
            env.types["target"] = "str"
            env.types["st"] = "rstate"
            return [("target", "(r_frag refnode)", False), ("st", "st_init refnode", False)]
        if isinstance(s, ast.Assign) and u(s.targets[0]) == "refnode['refid']":
            return [("st", f"set_refid st {w.pure(s.value, env)}", False)]
        if isinstance(s, ast.AugAssign) and u(s.target) == "refnode" and isinstance(s.op, ast.Add):
            c = s.value
            if not (isinstance(c, ast.Call) and u(c.func) == "nodes.inline" and len(c.args) == 2 and u(c.args[0]) == u(c.args[1])
                    and len(c.keywords) == 1 and u(c.keywords[0]) == "classes=['std', 'std-ref']"):
                raise Untranslatable(f"refnode += {u(c)[:80]}")
            a = c.args[0]
            if isinstance(a, ast.Name) and env.types.get(a.id) == "ostr":
                if a.id not in env.truthy:
                    raise Untranslatable(f"{a.id} may be None where it is used as text")
                return [("st", f"add_inline st (ostr_val {a.id})", False)]
            return [("st", f"add_inline st {w.pure(a, env)}", False)]
        if src == PENDING:
            return []
        if src == "pending.source, pending.line = (refnode.source, refnode.line)":
            return [("st", "set_pline st (r_line refnode)", False)]
        if src == "refnode.parent.replace(refnode, pending)":
            return [("st", "set_pending st", False)]
        if isinstance(s, ast.Expr) and isinstance(s.value, ast.Call) and u(s.value.func) == "create_warning":
            c = s.value
            kw = {k.arg: u(k.value) for k in c.keywords}
            msg_ok = (len(c.args) == 3 and u(c.args[0]) == DOC and isinstance(c.args[1], ast.JoinedStr)
                      and any(isinstance(v, ast.FormattedValue) and u(v.value) == "target" for v in c.args[1].values)
                      and u(c.args[2]) == "MystWarnings.XREF_MISSING")
            if not msg_ok or kw != {"line": "refnode.line", "append_to": "refnode"}:
                raise Untranslatable(f"create_warning call {src[:140]}")
            return [("st", "warn_append suppressed st (r_line refnode) target", False)]
        return None

    def skip(self, s):
        return u(s) in SKIP_EXACT

    def loop(self, s, env, w):
        src = u(s.iter)
        if src == f"{DOC}.nametypes.items()" and u(s.target) == "(name, is_explicit)":
            env.types.update({"name": "str", "is_explicit": "bool"})
            return "'(name, is_explicit)", "(nametypes rg)"
        if src == "node" and isinstance(s.target, ast.Name):
            self.node_ok("node", env)
            env.types[s.target.id] = "dnode"
            return s.target.id, "(n_children node)"
        if src == f"findall({DOC})(nodes.reference)" and u(s.target) == "refnode":
            env.types["refnode"] = "ref"
            return "refnode", "refs"
        raise Untranslatable(f"loop over {src}")

    def loop_state(self, s, env):
        src = u(s.iter)
        if src == f"{DOC}.nametypes.items()":
            return ["explicit"]
        if src.startswith("findall("):
            return ["outs"]
        return []


class AnchorWalker(Walker):
    def loop_state(self, s, env):
        return self.loop_state_hook(s, env)


def canon_rule(kind, src, arity):
    """the canonical names of the locals of ResolveAnchorIds.apply, by what they are assigned from"""
    if kind == "assign":
        if src == "getattr(self.document, 'myst_slugs', {})":
            return ("slugs",)
        if src == "{}":
            return ("explicit",)
        if src.startswith("self.document.nameids["):
            return ("labelid",)
        if src.startswith("self.document.ids[") or src.startswith("self.document.ids.get(") or src == "node[0]":
            return ("node",)
        if src == "node['names'][0]":
            return ("labelid",)
        if src == "None" or src.startswith("clean_astext("):
            return ("implicit_title",)
        if src == "refnode['refuri'][1:]":
            return ("target",)
        if src == "explicit[target]" and arity == 2:
            return ("ref_id", "implicit_title")
        if src == "slugs[target]" and arity == 3:
            return ("_", "sect_id", "implicit_title")
        if src.startswith("addnodes.pending_xref("):
            return ("pending",)
        if src.startswith("nodes.inline('', '', "):
            return ("inner_node",)
    if kind == "for":
        if src == "self.document.nametypes.items()" and arity == 2:
            return ("name", "is_explicit")
        if src == "node":
            return ("subnode",)
        if src == "findall(self.document)(nodes.reference)":
            return ("refnode",)
        if src == "('ids', 'names', 'dupnames')":
            return ("attr",)
    return None


def generate(repo: Path) -> str:
    tree = ast.parse((repo / "myst_parser/mdit_to_docutils/transforms.py").read_text())
    fn = canonicalize(find_method(tree, "ResolveAnchorIds", "apply"), canon_rule)
    if [a.arg for a in fn.args.args] != ["self"] or fn.args.kwarg is None:
        raise Untranslatable("apply signature")
    m = AnchorMap()
    w = AnchorWalker(m.expr, m.effect, True, m.skip, m.loop)
    w.loop_state_hook = m.loop_state
    w.k_return = lambda e, v: (_ for _ in ()).throw(Untranslatable("return inside ResolveAnchorIds.apply"))

    # the continuation of a loop body depends on the loop: the first returns the table, the second
    # appends the finished reference (or nothing when it was skipped before `target` was read)
    orig_for = w.for_stmt

    def for_stmt(s, rest, env, k):
        if u(s.iter).startswith("findall("):
            hook = m.loop(s, env, w)
            e_body = env.copy()

            def kend(e):
                return "Ok (outs ++ [finish refnode st])" if "target" in e.types else "Ok outs"
            body = w.block(list(s.body), e_body, kend)
            return (f"do outs <- fold_res (fun outs {hook[0]} =>\n{body}) {hook[1]} outs;\n{w.block(rest, env.copy(), k)}")
        return orig_for(s, rest, env, k)
    w.for_stmt = for_stmt
    env = Env({"outs": "routs"})
    body = w.block(list(fn.body), env, lambda e: "Ok outs")
    return ("(* GENERATED by gen/c09_src.py from myst_parser/mdit_to_docutils/transforms.py - do not edit *)\n"
            "From Coq Require Import List NArith Bool.\n"
            "From MV Require Import Base.PyStr Base.Res Refs.RUtil Refs.Anchors Refs.AnchorsOps.\n"
            "Import ListNotations.\nOpen Scope N_scope.\n\n"
            "(* ResolveAnchorIds.apply *)\n"
            "Definition apply_src (normalizeLink : str -> str) (sphinx suppressed : bool) (rg : registries)\n"
            "           (slugs : slugs_t) (refs : list ref) : res (list rout) :=\n"
            "let outs := (@nil rout) in\n" + body + ".\n")


if __name__ == "__main__":
    import sys
    print(generate(Path(sys.argv[1] if len(sys.argv) > 1 else "/repo")))
