"""Source translation for C01's component totality (round 3): the two re-entrancy guards of the renderer are
regenerated as Gallina from the statements of the source on every run -> coq/Gen/GuardSrc.v

* ``DocutilsRenderer.render_substitution``: ``cyclic = references.intersection(sub_references)`` / ``if cyclic: warn;
  return`` / ``sub_references.update(references)`` / ``try: nested render finally: sub_references.difference_update``
* ``MockIncludeDirective.run``: ``if include_key in include_log: raise DirectiveError`` / ``try: include_log.append(key);
  ... nested render ... finally: include_log.pop()``

The walker follows the statements that mention the guard state (fail-closed: a statement that mentions the state and
is not one of the recognised shapes stops the translation); the nested render is the function parameter ``nested``.
The Python operations map to the hand-written primitives of coq/Exc/CoreModel.v (TRUSTED mapping):
  a.intersection(S) -> py_intersection a S      if x: -> py_truthy x        k in L -> py_in k L
  S.update(a) -> py_update S a                  S.difference_update(a) -> py_difference_update S a
  L.append(k) -> py_append L k                  L.pop() -> py_pop L
A guard hit (warning + return / raise DirectiveError, which run_directive turns into a system message) is ``Ok state``.
"""
from __future__ import annotations

import ast
from pathlib import Path


class Untranslatable(Exception):
    pass


def find_method(tree, cls, name):
    for n in tree.body:
        if isinstance(n, ast.ClassDef) and n.name == cls:
            for m in n.body:
                if isinstance(m, ast.FunctionDef) and m.name == name:
                    return m
    raise Untranslatable(f"{cls}.{name} not found")


def mentions(node, state_src):
    return any(ast.unparse(n) == state_src for n in ast.walk(node) if isinstance(n, (ast.Attribute, ast.Name)))


def reads_only(node, state_src):
    """the statement only reads the guard state through subscripts / iteration (STATE[i], reversed(STATE)): no method
    call on it, no assignment to it."""
    class V(ast.NodeVisitor):
        ok = True

        def visit_Call(self, n):
            if isinstance(n.func, ast.Attribute) and ast.unparse(n.func.value) == state_src:
                self.ok = False
            self.generic_visit(n)

        def visit_Assign(self, n):
            for t in n.targets:
                if any(ast.unparse(x) == state_src for x in ast.walk(t)):
                    self.ok = False
            self.generic_visit(n)

        def visit_AugAssign(self, n):
            if any(ast.unparse(x) == state_src for x in ast.walk(n.target)):
                self.ok = False
            self.generic_visit(n)

        def visit_Delete(self, n):
            self.ok = False
    v = V()
    v.visit(node)
    return v.ok


def is_nested_call(node):
    return isinstance(node, ast.Call) and isinstance(node.func, ast.Attribute) and node.func.attr == "nested_render_text"


def count_nested_paths(stmts, where):
    """every control path through stmts performs exactly one nested render: returns 1, else fails."""
    total = 0
    for st in stmts:
        if isinstance(st, ast.If):
            a = count_nested_paths(st.body, where)
            b = count_nested_paths(st.orelse, where) if st.orelse else 0
            if a != b:
                raise Untranslatable(f"{where}: branches of an if perform a different number of nested renders")
            total += a
        elif isinstance(st, ast.Expr) and is_nested_call(st.value):
            total += 1
        elif any(is_nested_call(n) for n in ast.walk(st)):
            raise Untranslatable(f"{where}: nested render in an unexpected statement: {ast.unparse(st)[:80]}")
    return total


class GuardWalker:
    def __init__(self, fn, state_src, state_var, where):
        self.fn, self.state_src, self.sv, self.where = fn, state_src, state_var, where
        self.lines = []

    def name(self, e):
        if isinstance(e, ast.Name):
            return e.id
        raise Untranslatable(f"{self.where}: expected a local name, got {ast.unparse(e)}")

    def is_state(self, e):
        return ast.unparse(e) == self.state_src

    def mutator(self, st):
        """STATE.update(x) / .append(x) / .difference_update(x) / .pop() -> Gallina expression for the new state."""
        if isinstance(st, ast.Expr) and isinstance(st.value, ast.Call) and isinstance(st.value.func, ast.Attribute) \
                and self.is_state(st.value.func.value) and not st.value.keywords:
            m, args = st.value.func.attr, st.value.args
            if m == "update" and len(args) == 1:
                return f"py_update {self.sv} {self.name(args[0])}"
            if m == "difference_update" and len(args) == 1:
                return f"py_difference_update {self.sv} {self.name(args[0])}"
            if m == "append" and len(args) == 1:
                return f"py_append {self.sv} {self.name(args[0])}"
            if m == "pop" and not args:
                return f"py_pop {self.sv}"
        return None

    def walk(self, stmts):
        sv = self.sv
        for st in stmts:
            if isinstance(st, ast.Expr) and isinstance(st.value, ast.Constant):
                continue
            if not mentions(st, self.state_src):
                if any(is_nested_call(n) for n in ast.walk(st)):
                    raise Untranslatable(f"{self.where}: nested render outside the guarded try block")
                continue
            # initialisation of the state (getattr default / setdefault): defines the state, not part of the guard
            if isinstance(st, (ast.Assign, ast.AnnAssign)):
                tgt = st.targets[0] if isinstance(st, ast.Assign) else st.target
                val = st.value
                if self.is_state(tgt) and isinstance(val, ast.Call) and ast.unparse(val.func) in ("getattr",) :
                    continue
                if self.is_state(tgt) and isinstance(val, ast.Call) and isinstance(val.func, ast.Attribute) and val.func.attr == "setdefault":
                    continue
                # x = a.intersection(STATE)
                if isinstance(tgt, ast.Name) and isinstance(val, ast.Call) and isinstance(val.func, ast.Attribute) \
                        and val.func.attr == "intersection" and len(val.args) == 1 and self.is_state(val.args[0]):
                    self.lines.append(f"let {tgt.id} := py_intersection {self.name(val.func.value)} {sv} in")
                    continue
                raise Untranslatable(f"{self.where}: assignment that mentions the guard state not understood: {ast.unparse(st)[:100]}")
            if isinstance(st, ast.If):
                t = st.test
                body_last = st.body[-1] if st.body else None
                exits = isinstance(body_last, (ast.Return, ast.Raise))
                if isinstance(t, ast.Compare) and len(t.ops) == 1 and isinstance(t.ops[0], ast.In) and self.is_state(t.comparators[0]) and exits \
                        and not st.orelse:
                    self.lines.append(f"if py_in {self.name(t.left)} {sv} then Ok {sv} else")
                    continue
                raise Untranslatable(f"{self.where}: if statement that mentions the guard state not understood: {ast.unparse(t)[:100]}")
            m = self.mutator(st)
            if m is not None:
                self.lines.append(f"let {sv} := {m} in")
                continue
            if isinstance(st, ast.Try):
                if st.handlers or st.orelse:
                    raise Untranslatable(f"{self.where}: the guarded block must be try/finally without handlers")
                for b in st.body:
                    mm = self.mutator(b)
                    if mm is not None:
                        self.lines.append(f"let {sv} := {mm} in")
                    elif mentions(b, self.state_src) and not reads_only(b, self.state_src):
                        raise Untranslatable(f"{self.where}: statement in the try body mentions the guard state: {ast.unparse(b)[:100]}")
                if count_nested_paths(st.body, self.where) != 1:
                    raise Untranslatable(f"{self.where}: the try body must perform exactly one nested render on every path")
                fin = [self.mutator(b) for b in st.finalbody if mentions(b, self.state_src) and not (self.mutator(b) is None and reads_only(b, self.state_src))]
                if len(fin) != 1 or fin[0] is None:
                    raise Untranslatable(f"{self.where}: the finally block must undo the guard state exactly once")
                self.lines.append(f"match nested {sv} with")
                self.lines.append(f"| Ok {sv} => Ok ({fin[0]})")
                self.lines.append("| Raise e => Raise e")
                self.lines.append("end")
                self.done = True
                continue
            raise Untranslatable(f"{self.where}: statement that mentions the guard state not understood: {ast.unparse(st)[:100]}")

    def if_name_exits(self, stmts):
        """`if cyclic: ...; return` on a local derived from the state (does not mention the state itself)."""
        out = []
        for st in stmts:
            out.append(st)
        return out


def translate_substitution(tree):
    fn = find_method(tree, "DocutilsRenderer", "render_substitution")
    w = GuardWalker(fn, "self.document.sub_references", "sub_references", "render_substitution")
    w.done = False
    # `if cyclic:` tests a local computed from the state: handle it by tracking locals bound from the state
    derived = set()
    stmts = []
    for st in fn.body:
        if isinstance(st, ast.Assign) and isinstance(st.targets[0], ast.Name) and isinstance(st.value, ast.Call) \
                and isinstance(st.value.func, ast.Attribute) and st.value.func.attr == "intersection":
            derived.add(st.targets[0].id)
        stmts.append(st)
    out = []
    for st in stmts:
        if isinstance(st, ast.If) and isinstance(st.test, ast.Name) and st.test.id in derived:
            if not (st.body and isinstance(st.body[-1], ast.Return) and not st.orelse):
                raise Untranslatable("render_substitution: the cyclic branch must end with return")
            if any(is_nested_call(n) for n in ast.walk(st)) or mentions(st, w.state_src):
                raise Untranslatable("render_substitution: the cyclic branch must not render or touch the guard state")
            w.walk(out)
            out = []
            w.lines.append(f"if py_truthy {st.test.id} then Ok sub_references else")
            continue
        out.append(st)
    w.walk(out)
    if not w.done:
        raise Untranslatable("render_substitution: no guarded try/finally found")
    body = "\n  ".join(w.lines)
    return ("Definition render_substitution_guard_src (nested : list str -> res (list str)) (sub_references references : list str)"
            " : res (list str) :=\n  " + body + ".\n")


def translate_include(tree):
    fn = find_method(tree, "MockIncludeDirective", "run")
    w = GuardWalker(fn, "include_log", "include_log", "MockIncludeDirective.run")
    w.done = False
    w.walk(fn.body)
    if not w.done:
        raise Untranslatable("MockIncludeDirective.run: no guarded try/finally found")
    # the key must be normalised (os.path.normpath) - otherwise differently spelled paths escape the guard
    key_assign = [st for st in fn.body if isinstance(st, ast.Assign) and isinstance(st.targets[0], ast.Name) and st.targets[0].id == "include_key"]
    if len(key_assign) != 1 or "os.path.normpath(path)" not in ast.unparse(key_assign[0].value):
        raise Untranslatable("MockIncludeDirective.run: include_key is not built from os.path.normpath(path)")
    body = "\n  ".join(w.lines)
    return ("Definition include_guard_src (nested : list str -> res (list str)) (include_log : list str) (include_key : str)"
            " : res (list str) :=\n  " + body + ".\n")


def generate(repo: Path) -> str:
    base = ast.parse((repo / "myst_parser/mdit_to_docutils/base.py").read_text())
    mock = ast.parse((repo / "myst_parser/mocking.py").read_text())
    return ("(* GENERATED by gen/c01_guards.py from myst_parser/mdit_to_docutils/base.py and myst_parser/mocking.py - do not edit *)\n"
            "From Coq Require Import List NArith Bool.\nFrom MV Require Import Base.PyStr Base.Res Exc.CoreModel.\nImport ListNotations.\n\n"
            "(* DocutilsRenderer.render_substitution: the statements that touch document.sub_references *)\n"
            + translate_substitution(base) +
            "\n(* MockIncludeDirective.run: the statements that touch include_log *)\n"
            + translate_include(mock))


if __name__ == "__main__":
    import sys
    print(generate(Path(sys.argv[1] if len(sys.argv) > 1 else "/repo")))
