"""Translator for C15: every write to state that can outlive one parse -> coq/Gen/GlobalWrites.v.

Scans every module of the package with ``ast`` (fail-closed) and emits

* ``writes``: one record per write to shared state inside a function body:
    kind   global-assign | attr-assign | subscript-assign | delete | mutating-call | setattr | cache-decorator |
           registry-call
    file, function, line (information), target = source text of the written place, ordinal inside the function;
  a write is "shared" when the root of the written place is a module-level name (import, class, function, module
  variable), a name declared ``global``, a local that holds a class object (``*_class``, ``*_cls``, ``cls``,
  ``klass``), or when the access path goes through one of the long-lived objects (config / env / app / settings /
  parser objects);
* ``nondet``: calls of sources of non-determinism (uuid4, random, time, datetime.now, os.getpid, id, hash);
* ``render_reads`` / ``render_init``: the ``self.<attr>`` names read by the renderer classes and the names assigned in
  ``__init__`` / ``setup_render`` (plus methods / properties / class attributes), for C15_render_state_reset.
"""
from __future__ import annotations

import ast
import hashlib
import sys
from pathlib import Path

MUTATORS = {"add", "append", "update", "pop", "setdefault", "extend", "insert", "remove", "clear", "discard", "sort",
            "difference_update", "intersection_update", "symmetric_difference_update", "popitem", "reverse", "appendleft",
            "__setitem__", "__delitem__", "__setattr__"}
# components of an access path that denote objects living longer than one parse
SHARED_COMPONENTS = {"md_config", "myst_config", "sphinx_env", "env", "app", "config", "settings", "registry", "md",
                     "options", "metadata", "temp_data", "events", "builder", "domains", "linkify"}
CLASS_LOCALS = ("_class", "_cls")
CLASS_LOCAL_NAMES = {"cls", "klass", "directive_class", "config_cls", "node_cls"}
REGISTRY_CALLS = {"add_role", "add_directive", "add_node", "add_config_value", "add_transform", "add_post_transform",
                  "add_source_parser", "add_source_suffix", "connect", "register_local_role", "register_canonical_role",
                  "register_directive", "register_generic_role", "enable", "disable", "use", "set"}
NONDET_NAMES = {"uuid4", "uuid1", "getpid", "urandom", "now", "today", "time", "monotonic", "perf_counter", "id", "hash",
                "random", "randint", "choice", "shuffle", "getrandbits", "token_hex", "mkdtemp", "mkstemp"}
CACHE_DECORATORS = {"lru_cache", "cache", "cached_property"}


class Untranslatable(Exception):
    pass


def coq_str(s: str) -> str:
    return '"' + s.replace('"', '""') + '"'


def root_and_path(node):
    """Attribute/Subscript/Call chain -> (root Name id or None, [component names])."""
    comps = []
    while True:
        if isinstance(node, ast.Attribute):
            comps.append(node.attr)
            node = node.value
        elif isinstance(node, ast.Subscript):
            node = node.value
        elif isinstance(node, ast.Call):
            node = node.func
        else:
            break
    if isinstance(node, ast.Name):
        return node.id, list(reversed(comps))
    return None, list(reversed(comps))


class Scan(ast.NodeVisitor):
    def __init__(self, rel, src):
        self.rel = rel
        self.tree = ast.parse(src)
        self.module_names = set()
        for n in self.tree.body:
            if isinstance(n, (ast.Import, ast.ImportFrom)):
                for a in n.names:
                    self.module_names.add((a.asname or a.name).split(".")[0])
            elif isinstance(n, (ast.FunctionDef, ast.ClassDef, ast.AsyncFunctionDef)):
                self.module_names.add(n.name)
            elif isinstance(n, (ast.Assign, ast.AnnAssign)):
                for t in (n.targets if isinstance(n, ast.Assign) else [n.target]):
                    if isinstance(t, ast.Name):
                        self.module_names.add(t.id)
            elif isinstance(n, ast.If):
                for m in ast.walk(n):
                    if isinstance(m, (ast.Import, ast.ImportFrom)):
                        for a in m.names:
                            self.module_names.add((a.asname or a.name).split(".")[0])
        self.stack = []          # function / class nesting: (kind, name)
        self.globals_decl = []   # per function
        self.local_imports = []  # per function: names imported inside
        self.fresh = []          # per function: locals bound to fresh objects
        self.writes = []
        self.nondet = []

    # ---------------------------------------------------------- helpers
    def in_function(self):
        return any(k == "def" for k, _ in self.stack)

    def fname(self):
        return ".".join(n for _, n in self.stack) or "<module>"

    def add(self, kind, node, target):
        fn = self.fname()
        idx = sum(1 for w in self.writes if w["func"] == fn and w["target"] == target and w["kind"] == kind)
        self.writes.append({"file": self.rel, "func": fn, "line": node.lineno, "kind": kind, "target": target, "idx": idx})

    def shared_reason(self, expr):
        """why a written place is shared state (None = a local / per-call object)."""
        root, comps = root_and_path(expr)
        if root is None:
            return None
        if self.globals_decl and root in self.globals_decl[-1]:
            return "global"
        if self.local_imports and root in self.local_imports[-1]:
            return "imported"
        is_local_fresh = bool(self.fresh and root in self.fresh[-1])
        if is_local_fresh:
            return None
        if root in self.module_names and root != "self":
            return "module-level"
        if root in CLASS_LOCAL_NAMES or root.endswith(CLASS_LOCALS):
            return "class-object"
        if any(c in SHARED_COMPONENTS for c in comps[:-1] if True) or (root in SHARED_COMPONENTS and comps):
            return "long-lived-object"
        if root in SHARED_COMPONENTS and not comps:
            return "long-lived-object"
        return None

    # ---------------------------------------------------------- structure
    def visit_ClassDef(self, node):
        for d in node.decorator_list:
            self.visit(d)
        self.stack.append(("class", node.name))
        for st in node.body:
            self.visit(st)
        self.stack.pop()

    def visit_FunctionDef(self, node):
        for d in node.decorator_list:
            name = None
            dd = d.func if isinstance(d, ast.Call) else d
            if isinstance(dd, ast.Attribute):
                name = dd.attr
            elif isinstance(dd, ast.Name):
                name = dd.id
            if name in CACHE_DECORATORS:
                self.stack.append(("def", node.name))
                self.add("cache-decorator", node, ast.unparse(dd))
                self.stack.pop()
        self.stack.append(("def", node.name))
        self.globals_decl.append(set())
        self.local_imports.append(set())
        self.fresh.append(set())
        for st in node.body:
            self.visit(st)
        self.fresh.pop()
        self.local_imports.pop()
        self.globals_decl.pop()
        self.stack.pop()

    visit_AsyncFunctionDef = visit_FunctionDef

    def visit_Lambda(self, node):
        self.generic_visit(node)

    def visit_Global(self, node):
        self.globals_decl[-1].update(node.names)
        for n in node.names:
            self.add("global-decl", node, n)

    def visit_Nonlocal(self, node):
        pass  # enclosing function's local: not shared state

    def visit_Import(self, node):
        if self.in_function():
            for a in node.names:
                self.local_imports[-1].add((a.asname or a.name).split(".")[0])

    visit_ImportFrom = visit_Import

    # ---------------------------------------------------------- writes
    def handle_target(self, t, node, deleting=False):
        if isinstance(t, (ast.Tuple, ast.List)):
            for e in t.elts:
                self.handle_target(e, node, deleting)
            return
        if isinstance(t, ast.Starred):
            return self.handle_target(t.value, node, deleting)
        if isinstance(t, ast.Name):
            if self.in_function() and self.globals_decl and t.id in self.globals_decl[-1]:
                self.add("delete" if deleting else "global-assign", node, t.id)
            return
        if isinstance(t, (ast.Attribute, ast.Subscript)):
            if not self.in_function():
                return  # class body / module body: definitions executed once at import
            why = self.shared_reason(t)
            if why:
                kind = "delete" if deleting else ("attr-assign" if isinstance(t, ast.Attribute) else "subscript-assign")
                self.add(kind, node, ast.unparse(t))
            return
        raise Untranslatable(f"{self.rel}:{node.lineno}: assignment target not understood: {ast.unparse(t)}")

    def note_fresh(self, targets, value):
        """locals bound to a freshly created object: writes through them are local."""
        if not self.fresh:
            return
        fresh = isinstance(value, (ast.Dict, ast.List, ast.Set, ast.ListComp, ast.DictComp, ast.SetComp, ast.Tuple, ast.Constant, ast.JoinedStr))
        if isinstance(value, ast.Call):
            f = value.func
            # a method chain on a constructor call (MarkdownIt(...).enable(...).use(...)) is still the new object
            inner = value
            while isinstance(inner, ast.Call) and isinstance(inner.func, ast.Attribute) and isinstance(inner.func.value, ast.Call):
                inner = inner.func.value
            if inner is not value and isinstance(inner.func, ast.Name) and inner.func.id[:1].isupper():
                fresh = True
            nm = f.attr if isinstance(f, ast.Attribute) else (f.id if isinstance(f, ast.Name) else "")
            if nm[:1].isupper() or nm in ("copy", "deepcopy", "dict", "list", "set", "tuple", "sorted", "new_document", "make_document"):
                fresh = True
        for t in targets:
            if isinstance(t, ast.Name):
                if fresh:
                    self.fresh[-1].add(t.id)
                else:
                    self.fresh[-1].discard(t.id)

    def visit_Assign(self, node):
        self.visit(node.value)
        for t in node.targets:
            self.handle_target(t, node)
        self.note_fresh(node.targets, node.value)

    def visit_AnnAssign(self, node):
        if node.value is not None:
            self.visit(node.value)
            self.handle_target(node.target, node)
            self.note_fresh([node.target], node.value)

    def visit_AugAssign(self, node):
        self.visit(node.value)
        self.handle_target(node.target, node)

    def visit_Delete(self, node):
        for t in node.targets:
            self.handle_target(t, node, deleting=True)

    def visit_Call(self, node):
        f = node.func
        if self.in_function():
            if isinstance(f, ast.Name) and f.id in ("setattr", "delattr"):
                if not node.args:
                    raise Untranslatable(f"{self.rel}:{node.lineno}: setattr without positional arguments")
                obj = node.args[0]
                root, comps = root_and_path(obj)
                # setattr on anything but a fresh local is reported: the object is handed in by the caller
                if not (root and self.fresh and root in self.fresh[-1] and not comps):
                    self.add("setattr", node, ast.unparse(obj) + "." + (ast.unparse(node.args[1]) if len(node.args) > 1 else "?"))
            elif isinstance(f, ast.Attribute) and f.attr in MUTATORS:
                why = self.shared_reason(f.value) if isinstance(f.value, (ast.Attribute, ast.Subscript, ast.Call)) else None
                r0, _ = root_and_path(f.value)
                if r0 and self.fresh and r0 in self.fresh[-1]:
                    why = None
                if why is None and isinstance(f.value, ast.Name):
                    r = f.value.id
                    if (self.globals_decl and r in self.globals_decl[-1]) or \
                       (r in self.module_names and not (self.fresh and r in self.fresh[-1]) and r != "self") or \
                       r in CLASS_LOCAL_NAMES or r.endswith(CLASS_LOCALS):
                        why = "module-level"
                if why:
                    self.add("mutating-call", node, ast.unparse(f.value) + "." + f.attr)
            elif isinstance(f, ast.Attribute) and f.attr in REGISTRY_CALLS:
                root, comps = root_and_path(f.value)
                if (root in ("app", "roles", "directives") or "registry" in comps) and not (self.fresh and root in self.fresh[-1]):
                    self.add("registry-call", node, ast.unparse(f.value) + "." + f.attr)
        # non-determinism sources
        nm = f.attr if isinstance(f, ast.Attribute) else (f.id if isinstance(f, ast.Name) else None)
        if nm in NONDET_NAMES:
            if not (nm in ("id", "hash", "time", "random", "choice") and isinstance(f, ast.Attribute)) or nm in ("now", "today", "time"):
                fn = self.fname()
                self.nondet.append({"file": self.rel, "func": fn, "line": node.lineno, "call": ast.unparse(f)})
        self.generic_visit(node)


def renderer_tables(repo: Path):
    """self.<attr> names read by DocutilsRenderer / SphinxRenderer methods vs names initialised per render."""
    reads, init, members = set(), set(), set()
    for rel, clsname in (("myst_parser/mdit_to_docutils/base.py", "DocutilsRenderer"), ("myst_parser/mdit_to_docutils/sphinx_.py", "SphinxRenderer")):
        tree = ast.parse((repo / rel).read_text())
        cls = next((n for n in tree.body if isinstance(n, ast.ClassDef) and n.name == clsname), None)
        if cls is None:
            raise Untranslatable(f"{rel}: class {clsname} not found")
        for st in cls.body:
            if isinstance(st, (ast.FunctionDef, ast.AsyncFunctionDef)):
                members.add(st.name)
                for n in ast.walk(st):
                    if isinstance(n, ast.Attribute) and isinstance(n.value, ast.Name) and n.value.id == "self":
                        if isinstance(n.ctx, ast.Load):
                            reads.add(n.attr)
                        elif isinstance(n.ctx, ast.Store) and st.name in ("__init__", "setup_render"):
                            init.add(n.attr)
            elif isinstance(st, (ast.Assign, ast.AnnAssign)):
                # a class-level data attribute counts as initialised only when it is an immutable constant;
                # a mutable class attribute (dict/list/set/call) would be shared by every renderer instance
                val = st.value
                for t in (st.targets if isinstance(st, ast.Assign) else [st.target]):
                    if isinstance(t, ast.Name) and isinstance(val, ast.Constant):
                        members.add(t.id)
    return sorted(reads), sorted(init), sorted(members)


def reads_before_write(repo: Path):
    """(method, attr) pairs of the renderer classes where self.<attr> is read in a method before (in source order) any
    assignment to it in the same method; and the ordered attributes assigned by __init__ / setup_render."""
    pairs, init_list, setup_list = [], [], []
    for rel, clsname in (("myst_parser/mdit_to_docutils/base.py", "DocutilsRenderer"), ("myst_parser/mdit_to_docutils/sphinx_.py", "SphinxRenderer")):
        tree = ast.parse((repo / rel).read_text())
        cls = next((n for n in tree.body if isinstance(n, ast.ClassDef) and n.name == clsname), None)
        if cls is None:
            raise Untranslatable(f"{rel}: class {clsname} not found")
        for m in cls.body:
            if not isinstance(m, (ast.FunctionDef, ast.AsyncFunctionDef)):
                continue
            occ = []
            for n in ast.walk(m):
                if isinstance(n, ast.Attribute) and isinstance(n.value, ast.Name) and n.value.id == "self":
                    occ.append((n.lineno, n.col_offset, n.attr, isinstance(n.ctx, ast.Store)))
            # an assignment statement evaluates its right-hand side first: order stores after loads of the same statement
            stmts_store_line = {}
            for n in ast.walk(m):
                if isinstance(n, (ast.Assign, ast.AnnAssign, ast.AugAssign)):
                    for t in ast.walk(n.targets[0] if isinstance(n, ast.Assign) else n.target):
                        if isinstance(t, ast.Attribute) and isinstance(t.value, ast.Name) and t.value.id == "self" and isinstance(t.ctx, ast.Store):
                            stmts_store_line[(t.lineno, t.col_offset)] = getattr(n, "end_lineno", n.lineno) + 0.5
            occ.sort(key=lambda o: (stmts_store_line.get((o[0], o[1]), o[0]), o[1]))
            written = set()
            for ln, col, attr, is_store in occ:
                if is_store:
                    written.add(attr)
                    if m.name == "__init__" and attr not in init_list:
                        init_list.append(attr)
                    if m.name == "setup_render" and attr not in setup_list:
                        setup_list.append(attr)
                elif attr not in written and (f"{clsname}.{m.name}", attr) not in pairs:
                    pairs.append((f"{clsname}.{m.name}", attr))
    return pairs, init_list, setup_list


def merge_steps(repo: Path):
    """merge_file_level as steps on named objects (fail-closed on shapes that involve the config parameter)."""
    tree = ast.parse((repo / "myst_parser/config/main.py").read_text())
    fn = next((n for n in tree.body if isinstance(n, ast.FunctionDef) and n.name == "merge_file_level"), None)
    if fn is None:
        raise Untranslatable("merge_file_level not found")
    params = [a.arg for a in fn.args.args]
    if params[:1] != ["config"]:
        raise Untranslatable("merge_file_level: first parameter is not 'config'")
    steps = []

    def root(e):
        while isinstance(e, (ast.Attribute, ast.Subscript, ast.Call)):
            e = e.func if isinstance(e, ast.Call) else e.value
        return e.id if isinstance(e, ast.Name) else None

    def walk(stmts):
        for st in stmts:
            if isinstance(st, (ast.Assign, ast.AnnAssign)):
                tgts = st.targets if isinstance(st, ast.Assign) else [st.target]
                val = st.value
                for t in tgts:
                    if isinstance(t, ast.Name):
                        if isinstance(val, ast.Call) and isinstance(val.func, ast.Attribute) and val.func.attr == "copy" \
                                and isinstance(val.func.value, ast.Name) and not val.args:
                            steps.append(("MBindCopy", t.id, val.func.value.id))
                        elif isinstance(val, ast.Name):
                            steps.append(("MBindAlias", t.id, val.id))
                        elif val is not None and root(val) in params[1:]:
                            steps.append(("MBindAlias", t.id, root(val)))   # a value reached through another parameter
                        elif val is not None and root(val) == "config" and not isinstance(val, (ast.Dict, ast.DictComp, ast.ListComp, ast.SetComp)) \
                                and not (isinstance(val, ast.Call) and isinstance(val.func, ast.Attribute) and val.func.attr in ("as_triple", "get_fields", "as_dict")):
                            raise Untranslatable(f"merge_file_level:{st.lineno}: binding derived from config not understood: {ast.unparse(st)[:80]}")
                        else:
                            steps.append(("MBindFresh", t.id))
                    elif isinstance(t, ast.Tuple):
                        for e in t.elts:
                            if isinstance(e, ast.Name):
                                steps.append(("MBindFresh", e.id))
                    elif isinstance(t, (ast.Attribute, ast.Subscript)):
                        r = root(t)
                        if r is None:
                            raise Untranslatable(f"merge_file_level:{st.lineno}: write target not understood")
                        steps.append(("MWrite", r))
            elif isinstance(st, ast.AugAssign):
                r = root(st.target)
                if r:
                    steps.append(("MWrite", r))
            elif isinstance(st, ast.Expr) and isinstance(st.value, ast.Call):
                c = st.value
                if isinstance(c.func, ast.Name) and c.func.id in ("setattr", "delattr"):
                    r = root(c.args[0])
                    if r is None:
                        raise Untranslatable(f"merge_file_level:{st.lineno}: setattr target not understood")
                    steps.append(("MWrite", r))
                elif isinstance(c.func, ast.Attribute) and c.func.attr in MUTATORS:
                    r = root(c.func.value)
                    if r:
                        steps.append(("MWrite", r))
            elif isinstance(st, ast.Return):
                if not isinstance(st.value, ast.Name):
                    raise Untranslatable("merge_file_level: return of a non-name")
                steps.append(("MReturn", st.value.id))
            if isinstance(st, (ast.For, ast.While)):
                if isinstance(st, ast.For):
                    for e in ast.walk(st.target):
                        if isinstance(e, ast.Name):
                            steps.append(("MBindFresh", e.id))
                walk(st.body)
                walk(st.orelse)
            elif isinstance(st, ast.If):
                walk(st.body)
                walk(st.orelse)
            elif isinstance(st, ast.Try):
                walk(st.body)
                for h in st.handlers:
                    walk(h.body)
                walk(st.orelse)
                walk(st.finalbody)
            elif isinstance(st, ast.With):
                walk(st.body)
    walk(fn.body)
    return params, steps


READ_PHASE_FILES = ["myst_parser/mdit_to_docutils/base.py", "myst_parser/mdit_to_docutils/sphinx_.py", "myst_parser/mdit_to_docutils/html_to_nodes.py",
                    "myst_parser/mdit_to_docutils/transforms.py", "myst_parser/parsers/sphinx_.py", "myst_parser/parsers/directives.py",
                    "myst_parser/mocking.py", "myst_parser/sphinx_ext/directives.py", "myst_parser/warnings_.py"]


def env_reads(repo: Path):
    """every use of the Sphinx build environment in the code that runs while documents are READ (possibly by several
    worker processes): (file, function, attribute) for `<x>.sphinx_env.<attr>`, `<x>.settings.env.<attr>`, `sphinx_env.<attr>`
    and `self.env.<attr>` (SphinxDirective / Transform); a use of the environment object itself (passed on, compared with
    None) is recorded with the attribute "<object>"."""
    out = []

    def is_env(e):
        if isinstance(e, ast.Attribute) and e.attr == "sphinx_env":
            return True
        if isinstance(e, ast.Attribute) and e.attr == "env" and isinstance(e.value, ast.Attribute) and e.value.attr == "settings":
            return True
        if isinstance(e, ast.Attribute) and e.attr == "env" and isinstance(e.value, ast.Name) and e.value.id == "self":
            return True
        if isinstance(e, ast.Name) and e.id == "sphinx_env":
            return True
        return False

    for rel in READ_PHASE_FILES:
        tree = ast.parse((repo / rel).read_text())
        stack = []

        def visit(n, parent_is_attr=False):
            if isinstance(n, (ast.FunctionDef, ast.AsyncFunctionDef, ast.ClassDef)):
                stack.append(n.name)
                for c in ast.iter_child_nodes(n):
                    visit(c)
                stack.pop()
                return
            if isinstance(n, ast.Attribute) and is_env(n.value):
                row = (rel, ".".join(stack) or "<module>", n.attr)
                if row not in out:
                    out.append(row)
                visit(n.value, True)
                return
            if is_env(n) and not parent_is_attr and isinstance(getattr(n, "ctx", None), ast.Load):
                # the definition of the sphinx_env property / local itself is not a use
                fn = ".".join(stack) or "<module>"
                if not fn.endswith(".sphinx_env"):
                    row = (rel, fn, "<object>")
                    if row not in out:
                        out.append(row)
            for c in ast.iter_child_nodes(n):
                visit(c)
        visit(tree)
    return out


def scan_repo(repo: Path):
    files = sorted(p.relative_to(repo).as_posix() for p in (repo / "myst_parser").rglob("*.py"))
    writes, nondet, hashes = [], [], {}
    for rel in files:
        src = (repo / rel).read_text()
        sc = Scan(rel, src)
        sc.visit(sc.tree)
        writes += sc.writes
        nondet += sc.nondet
        hashes[rel] = hashlib.sha256(src.encode()).hexdigest()[:16]
    return writes, nondet, hashes


def render_src(pairs, init_list, setup_list, params, steps, members):
    L = ["", "(* ---- source translation (round 3) ---- *)",
         "(* (method, attribute): self.<attribute> is read in the method before any assignment to it in that method",
         "   (methods, properties and constant class attributes - render_members - are left out) *)",
         "Definition reads_before_write : list (string * string) := ["]
    L.append(";\n".join("  (%s, %s)" % (coq_str(m), coq_str(a)) for m, a in pairs if a not in members))
    L.append("].")
    L.append("")
    L.append("(* DocutilsRenderer.__init__: the attribute assignments, in order *)")
    L.append("Definition init_src (st : rstate) : rstate :=")
    for a in init_list:
        L.append(f"  let st := assign st {coq_str(a)} in")
    L.append("  st.")
    L.append("")
    L.append("(* setup_render (DocutilsRenderer, then the SphinxRenderer override after super()): the attribute assignments, in order *)")
    L.append("Definition setup_render_src (st : rstate) : rstate :=")
    for a in setup_list:
        L.append(f"  let st := assign st {coq_str(a)} in")
    L.append("  st.")
    L.append("")
    L.append("(* merge_file_level(%s): bindings, writes and the return, in source order *)" % ", ".join(params))
    L.append("Definition merge_file_level_params : list string := [%s]." % "; ".join(coq_str(p) for p in params))
    L.append("Definition merge_file_level_src : list mstep := [")
    L.append(";\n".join("  %s %s" % (s[0], " ".join(coq_str(x) for x in s[1:])) for s in steps))
    L.append("].")
    return "\n".join(L) + "\n"


def render(writes, nondet, reads, init, members):
    L = ["(* GENERATED by gen/c15_globalwrites.py from the myst_parser sources - do not edit. *)",
         "From Coq Require Import List String.", "From MV Require Import Hist.HistDefs.", "Import ListNotations.",
         "Open Scope string_scope.", "", "Definition writes : list gwrite := ["]
    L.append(";\n".join("  mk_gwrite %s %s %d %s %s %d" % (coq_str(w["file"]), coq_str(w["func"]), w["line"], coq_str(w["kind"]),
                                                          coq_str(w["target"]), w["idx"]) for w in writes))
    L += ["].", "", "Definition nondet_calls : list (string * string * string) := ["]
    L.append(";\n".join("  (%s, %s, %s)" % (coq_str(n["file"]), coq_str(n["func"]), coq_str(n["call"])) for n in nondet))
    L += ["].", "", "Definition render_reads : list string := [%s]." % "; ".join(coq_str(x) for x in reads),
          "Definition render_init : list string := [%s]." % "; ".join(coq_str(x) for x in init),
          "Definition render_members : list string := [%s]." % "; ".join(coq_str(x) for x in members),
          f"Definition n_writes : nat := {len(writes)}."]
    return "\n".join(L) + "\n"


def generate(repo: Path):
    writes, nondet, hashes = scan_repo(repo)
    reads, init, members = renderer_tables(repo)
    pairs, init_list, setup_list = reads_before_write(repo)
    params, steps = merge_steps(repo)
    er = env_reads(repo)
    text = render(writes, nondet, reads, init, members) + render_src(pairs, init_list, setup_list, params, steps, members)
    text += ("\n(* ---- Sphinx environment uses in read-phase code (round 5): file, function, attribute ---- *)\n"
             "Definition env_reads : list (string * string * string) := [\n"
             + ";\n".join("  (%s, %s, %s)" % (coq_str(a), coq_str(b), coq_str(c)) for a, b, c in er) + "\n].\n")
    return text, writes, nondet, (reads, init, members), hashes


if __name__ == "__main__":
    repo = Path(sys.argv[1] if len(sys.argv) > 1 else "/repo")
    text, writes, nondet, (reads, init, members), _ = generate(repo)
    for w in writes:
        print(f'{w["file"]}:{w["line"]} {w["func"]} [{w["kind"]}] {w["target"]} #{w["idx"]}')
    print(len(writes), "writes")
    for n in nondet:
        print("NONDET", n)
    print("reads not initialised:", sorted(set(reads) - set(init) - set(members)))
