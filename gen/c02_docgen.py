"""Grammar-based Markdown document generator for the C02 check (faithful doctree).

`gen_doc(rng, max_depth, size, mode, exts)` first builds a block-structured AST (Doc -> blocks, each block is
a dict with key "k"; inline content is a list of inline tuples), then serialises it with real line prefixes
("> " per quote level, list item content indented to the marker width, ...) so that the nesting is real.
Covered: CommonMark + GFM (tables, strikethrough, task lists) + the static MyST extensions (dollarmath,
amsmath, deflist, fieldlist, attrs_inline, attrs_block, footnotes, targets, comments, block breaks).
Never generated on purpose: directive fences, roles, substitutions, colon fences, front matter, html_image /
html_admonition conversions, inv:/path:/project: links, lineno-start/emphasize-lines attributes.

Only syntax enabled for the given mode / extension set is emitted on purpose; with a small probability a
construct that is not enabled is emitted anyway (it then parses as text, which is a useful case as well).
About 5 % of the documents skip the line-start sanitiser, so inline text may accidentally form block syntax.

`SEED_DOCS` are hand-written tricky documents, `commonmark_spec_inputs()` loads the CommonMark spec examples.
"""
from __future__ import annotations

import json
import os
import re

# ------------------------------------------------------------------------------------------ vocabulary

WORDS = ["a", "b", "foo", "bar", "baz", "lorem", "ipsum", "x", "y1", "Word", "UPPER", "note", "alpha", "beta",
         "qux", "z", "term", "data", "two words", "I", "it", "on", "42", "3.14", "café", "straße",
         "日本", "Δx", "naïve", "end"]
SAFE_PUNCT = [".", ",", "!", "?", ";", ":", "(", ")", "'", "\"", "-", "/", "=", "+", "#", "%", "@", " - ", "...",
              "--", "(c)", "(tm)", "+-", " \"q\" ", " 'q' "]
ESCAPED = ["\\*", "\\_", "\\[", "\\]", "\\`", "\\<", "\\\\", "\\$", "\\|", "\\~", "\\{", "\\&", "\\#", "\\>", "\\!"]
ENTITIES = ["&amp;", "&lt;", "&gt;", "&copy;", "&#35;", "&#x22;", "&ouml;", "&foo;", "&#0;", "&nbsp;", "&quot;"]
UNICODE = ["é", "ß", "→", "日本語", "\U0001F600", " ", "—", "αβ", "​"]
RAW_SPECIAL = ["*", "_", "[", "]", "<", "&", "$", "{", "}", "|", "~", "`", "\\", "!", "^"]
CODE_SNIPPETS = ["x", "a b", "x = 1", "f(x)", "a|b", "*x*", "$y$", "a  b", " x ", "`", "``", "a`b", "a``b", "<b>",
                 "&amp;", "\\", "[l](u)", "", "  ", "{x}", "café", "#", "1. x", "- y"]
LANGS = ["python", "", "c", "text", "unknownlang", "Python", "py3 extra words", "console", "c++", "json", "  "]
CODE_LINES = ["x = 1", "def f(a):", "    return a", "", "# not a heading", "- not a list", "> not a quote",
              "*not em*", "[l](u)", "    indented", "\ttab", "a  ", "<b>html</b>", "$$", "| a | b |", "1. one",
              "`tick`", "~~~", "``", "print('é')", "{\"k\": [1, 2]}", "int main() { return 0; }", "&amp;",
              "\\begin{x}", "   ", "(t)=", "% c", "+++", ":f: v"]
DESTS = ["http://x.org", "https://example.com/a/b?q=1&r=2#f", "mailto:me@x.org", "ftp://ftp.x.org/f.txt", "#anchor",
         "#a-b", "a/b.md", "a.md#frag", "other.rst", "foo:bar", "<a b.md>", "<dest with spaces>", "", "<>",
         "/abs/path", "./rel", "../up.md", "a%20b.md", "a%2541", "http://x.org/é", "a(b)c", "a\\(b",
         "https://x.org/?a=1&amp;b=2", "x&y", "HTTP://UP.org", "//host/p", "?q", "a.txt", "unknown+s.x:y",
         "http://ü.example/", "#"]
IMG_SRCS = ["img.png", "a/b.jpg", "http://x.org/i.svg", "<i j.png>", "", "i%20j.png", "x&y.png", "é.png", "#frag"]
TITLES = [None, None, None, "\"title\"", "'single'", "(paren)", "\"with \\\" quote\"", "\"&amp; ent\"", "\"\"",
          "\"multi word title\"", "'*em*'"]
AUTOLINKS = ["<http://x.org>", "<https://a.b/c?d=e&f=g>", "<mailto:a@b.c>", "<a@b.c>", "<ftp://h/p>", "<foo:bar>",
             "<irc://x/y>", "<HTTP://X.ORG/%41>", "<http://x.org/é>"]
HTML_INLINE = ["<b>", "</b>", "<i class=\"c\">", "</i>", "<!-- c -->", "<br/>", "<span title='t'>", "</span>",
               "<a href=\"u\">", "</a>", "<?php x ?>", "<!X y>", "<![CDATA[z]]>", "<script >", "</script >",
               "<title>", "</TITLE >", "<x-y z=1>"]
MATHS = ["x", "a^2+b^2", "\\alpha", "x_1", "1+1=2", "\\frac{a}{b}", "a*b*c", "\\$"]
CLASSES = ["c", "cls", "big", "x-y"]
IDS = ["i", "id1", "my-id", "Up"]
HTML_BLOCKS = [
    ["<script>", "var x = '*a*';", "", "more", "</script>"],                        # type 1
    ["<pre>", "  keep", "", "</pre>"],                                                # type 1
    ["<style>p {x: y}</style>"],                                                      # type 1
    ["<textarea>", "*t*", "</textarea> tail"],                                        # type 1
    ["<!-- comment", "", "spanning -->"],                                             # type 2
    ["<!-- one line -->"],                                                            # type 2
    ["<?php", "echo 1;", "?>"],                                                       # type 3
    ["<!DOCTYPE html>"],                                                              # type 4
    ["<![CDATA[", "x < y", "]]>"],                                                    # type 5
    ["<div class=\"a\">", "*inside*", "</div>"],                                      # type 6
    ["<table><tr><td>", "x", "</td></tr></table>"],                                   # type 6
    ["</div>"],                                                                       # type 6
    ["<p>para</p>"],                                                                  # type 6
    ["<custom-tag attr=\"x\">"],                                                      # type 7
    ["</custom-tag>"],                                                                # type 7
    ["<a href=\"u\">", "text"],                                                       # type 7
    ["<iframe src=\"x\"></iframe>"],                                                  # type 6 (gfm tag filter)
    ["<title>t</title>"],                                                             # type 6 (gfm tag filter)
    ["<xmp>", "x", "</xmp>"],                                                         # type 7 (gfm tag filter)
    ["<DIV>", "up", "</DIV>"],
]

RE_BLOCKISH = re.compile(
    r"^\s{0,3}(?:#{1,6}(?:\s|$)|>|[-+*](?:\s|$)|\d{1,9}[.)](?:\s|$)|=+\s*$|-+\s*$|`{3,}|~{3,}|\||:|~\s|\$\$|%|"
    r"\(.+\)=|\+\+\+|<(?![a-zA-Z][a-zA-Z0-9+.-]*:[^ <>]*>|[^ @<>]+@)|\\begin|\{|\[\^?[^\]]*\]:|"
    r"(?:\*\s*){3,}$|(?:_\s*){3,}$|(?:-\s*){3,}$|\t)")


# ------------------------------------------------------------------------------------------ generator

class _Gen:
    def __init__(self, rng, max_depth, size, mode, exts):
        self.rng = rng
        self.max_depth = max(1, max_depth)
        self.budget = max(1, size)
        self.mode = mode
        self.exts = set(exts or ())
        self.refdefs = []          # (label, dest source, title source)
        self.fn_refs = []          # footnote labels referenced
        self.fn_defs = []          # footnote labels defined
        self.accident = rng.random() < 0.05
        self.stats = {}            # construct -> count (what was generated on purpose)
        self.max_nest = 0

    # -------------------------------------------------------------- helpers
    def p(self, x):
        return self.rng.random() < x

    def pick(self, seq):
        return seq[self.rng.randrange(len(seq))]

    def note(self, k):
        self.stats[k] = self.stats.get(k, 0) + 1

    def enabled(self, feat):
        m, e = self.mode, self.exts
        if feat in ("table",):
            return m in ("gfm", "myst")
        if feat == "strike":
            return m == "gfm" or (m == "myst" and "strikethrough" in e)
        if feat == "tasklist":
            return m == "gfm" or (m == "myst" and "tasklist" in e)
        if feat in ("footnote", "target", "comment", "blockbreak"):
            return m == "myst"
        if feat in ("dollarmath", "amsmath", "deflist", "fieldlist", "attrs_inline", "attrs_block"):
            return m == "myst" and feat in e
        return True

    def on(self, feat):
        """enabled, or (3 %) emitted although it is not enabled: parses as text."""
        return self.enabled(feat) or self.p(0.03)

    # -------------------------------------------------------------- inline AST
    def text(self, single=False, first=False):
        n = self.rng.choice((1, 1, 2, 2, 3, 4, 6))
        out = []
        for i in range(n):
            r = self.rng.random()
            if r < 0.62 or (first and i == 0):
                out.append(self.pick(WORDS))
            elif r < 0.74:
                out.append(self.pick(SAFE_PUNCT))
            elif r < 0.82:
                out.append(self.pick(ESCAPED))
            elif r < 0.89:
                out.append(self.pick(ENTITIES))
            elif r < 0.95:
                out.append(self.pick(UNICODE))
            elif r < 0.98:
                out.append(self.pick(RAW_SPECIAL))
            else:
                out.append("")
        sep = self.rng.choice((" ", " ", " ", "", "  "))
        return ("text", sep.join(out))

    def attrs_src(self, kind="span"):
        parts = []
        if self.p(0.7):
            parts.append("." + self.pick(CLASSES))
        if self.p(0.4):
            parts.append("#" + self.pick(IDS))
        if self.p(0.2):
            parts.append("." + self.pick(CLASSES))
        if kind == "code" and self.p(0.7):
            parts.append(self.pick(("l=python", "lexer=c", "language=json", "l=nolexer")))
        if kind == "olist" and self.p(0.8):
            parts.append("style=" + self.pick(("lower-alpha", "upper-alpha", "lower-roman", "upper-roman", "decimal", "bogus")))
        if kind == "image" and self.p(0.4):
            parts.append(self.pick(("w=100px", "h=50", "width=50%", "a=left", "align=center", "w=bad")))
        if self.p(0.1):
            parts.append("key=\"v w\"")
        if not parts:
            parts.append(".c")
        return "{" + " ".join(parts) + "}"

    def inline_seq(self, depth, single=False, in_link=False, in_image=False, n=None, first=True):
        """A list of inline nodes. single: no line breaks (headings, cells, terms)."""
        if n is None:
            n = self.rng.choice((1, 1, 2, 2, 3, 3, 4, 5, 7))
        out = []
        for i in range(n):
            node = self.inline(depth, single, in_link, in_image, first and i == 0)
            out.append(node)
            # separate adjacent constructs by text most of the time, keeps delimiter runs parseable
            if i + 1 < n and self.p(0.75):
                out.append(("text", self.rng.choice((" ", " ", " and ", ", ", " ", ""))))
        return out

    def inline(self, depth, single, in_link, in_image, first):
        r = self.rng.random()
        deep = depth >= self.max_depth
        if r < 0.34 or (deep and r < 0.7):
            return self.text(single, first)
        if r < 0.42:
            self.note("code_inline")
            c = self.pick(CODE_SNIPPETS)
            if self.on("attrs_inline") and self.p(0.25):
                self.note("attrs_inline")
                return ("codeattr", c, self.attrs_src("code"))
            return ("code", c)
        if r < 0.52 and not deep:
            self.note("em")
            return ("em", "*" if self.p(0.75) else "_", self.inline_seq(depth + 1, single, in_link, in_image,
                                                                    n=self.rng.choice((1, 1, 2, 3)), first=False))
        if r < 0.61 and not deep:
            self.note("strong")
            return ("strong", "**" if self.p(0.8) else "__", self.inline_seq(depth + 1, single, in_link, in_image,
                                                                        n=self.rng.choice((1, 1, 2, 3)), first=False))
        if r < 0.70 and not deep and (not in_link or self.p(0.04)):
            return self.link(depth, single, in_image)
        if r < 0.73 and (not in_link or self.p(0.05)):
            self.note("autolink")
            return ("autolink", self.pick(AUTOLINKS))
        if r < 0.79 and not deep:
            return self.image(depth, single, in_link)
        if r < 0.83:
            self.note("html_inline")
            return ("html", self.pick(HTML_INLINE))
        if r < 0.88 and not single:
            if self.p(0.7):
                self.note("softbreak")
                return ("soft",)
            self.note("hardbreak")
            return ("hard", self.rng.choice(("\\", "  ", "   ")))
        if r < 0.91 and self.on("dollarmath"):
            self.note("math_inline")
            return ("math", self.pick(MATHS))
        if r < 0.935 and self.on("footnote"):
            self.note("footnote_ref")
            lab = self.fn_label()
            self.fn_refs.append(lab)
            return ("fnref", lab)
        if r < 0.96 and self.on("strike") and not deep:
            self.note("strike")
            return ("strike", self.inline_seq(depth + 1, single, in_link, in_image, n=self.rng.choice((1, 2)), first=False))
        if r < 0.985 and self.on("attrs_inline") and not deep:
            self.note("span")
            self.note("attrs_inline")
            return ("span", self.inline_seq(depth + 1, single, in_link, in_image, n=self.rng.choice((1, 2)), first=False),
                    self.attrs_src())
        return self.text(single, first)

    def fn_label(self):
        r = self.rng.random()
        if self.fn_defs and r < 0.35:
            return self.pick(self.fn_defs)
        if self.fn_refs and r < 0.5:
            return self.pick(self.fn_refs)
        return self.pick(["a", "1", "note", "b", "2", "fn-x", "long label", "foo", "x", "42", "A"])

    def link(self, depth, single, in_image):
        self.note("link")
        kids = self.inline_seq(depth + 1, single, in_link=True, in_image=in_image,
                               n=self.rng.choice((0, 1, 1, 1, 2, 3)), first=False)
        dest = self.pick(DESTS)
        title = self.pick(TITLES)
        r = self.rng.random()
        if r < 0.68:
            return ("link", kids, dest, title)
        self.note("reflink")
        label = self.pick(["ref1", "Foo Bar", "r2", "x", "Über", "a b  c", "1"])
        if not any(l.lower() == label.lower() for l, _, _ in self.refdefs) or self.p(0.1):
            if dest in ("", ):
                dest = "<>"
            self.refdefs.append((label, dest, title))
        use = label if self.p(0.7) else label.upper()
        style = self.rng.choice(("full", "full", "collapsed", "shortcut"))
        return ("reflink", kids, use, style)

    def image(self, depth, single, in_link):
        self.note("image")
        n = self.rng.choice((0, 1, 1, 2, 3, 4))
        alt = self.inline_seq(depth + 1, single, in_link=in_link, in_image=True, n=n, first=False)
        if not single and self.p(0.25):
            alt.insert(self.rng.randrange(len(alt) + 1), ("soft",))
            alt.append(("text", "tail"))
        src = self.pick(IMG_SRCS)
        title = self.pick(TITLES)
        attrs = None
        if self.on("attrs_inline") and self.p(0.25):
            self.note("attrs_inline")
            attrs = self.attrs_src("image")
        return ("image", alt, src, title, attrs)

    # -------------------------------------------------------------- inline serialisation
    def ser_inl(self, seq):
        return "".join(self.ser_i(x) for x in seq)

    def ser_i(self, x):
        k = x[0]
        if k == "text":
            return x[1]
        if k in ("code", "codeattr"):
            c = x[1]
            runs = [len(m) for m in re.findall(r"`+", c)]
            n = 1
            while n in runs:
                n += 1
            f = "`" * n
            if c == "" or c.strip(" ") == "":
                body = c + "x" if c == "" else " " + c + "x "      # all-space code spans are kept by md-it; keep non-empty
            elif c.startswith("`") or c.endswith("`") or (c.startswith(" ") and c.endswith(" ")):
                body = " " + c + " "
            else:
                body = c
            return f + body + f + (x[2] if k == "codeattr" else "")
        if k == "em":
            return x[1] + self.ser_inl(x[2]) + x[1]
        if k == "strong":
            return x[1] + self.ser_inl(x[2]) + x[1]
        if k == "link":
            t = (" " + x[3]) if x[3] else ""
            return "[" + self.ser_inl(x[1]) + "](" + x[2] + t + ")"
        if k == "reflink":
            inner = self.ser_inl(x[1])
            if x[3] == "full":
                return "[" + inner + "][" + x[2] + "]"
            if x[3] == "collapsed":
                return "[" + x[2] + "][]"
            return "[" + x[2] + "]"
        if k == "autolink":
            return x[1]
        if k == "image":
            t = (" " + x[3]) if x[3] else ""
            return "![" + self.ser_inl(x[1]) + "](" + x[2] + t + ")" + (x[4] or "")
        if k == "html":
            return x[1]
        if k == "soft":
            return "\n"
        if k == "hard":
            return x[1] + "\n"
        if k == "math":
            return "$" + x[1] + "$"
        if k == "fnref":
            return "[^" + x[1] + "]"
        if k == "strike":
            return "~~" + self.ser_inl(x[1]) + "~~"
        if k == "span":
            return "[" + self.ser_inl(x[1]) + "]" + x[2]
        raise ValueError(k)

    def para_lines(self, seq, single=False):
        """inline sequence -> source lines of a paragraph-like block; the sanitiser keeps text from forming
        block syntax at a line start (skipped for 'accident' documents)."""
        s = self.ser_inl(seq)
        if single:
            s = s.replace("\n", " ")
        lines = s.split("\n")
        if self.accident:
            return [l for l in lines] if any(l.strip() for l in lines) else ["w"]
        out = []
        for ln in lines:
            if not ln.strip():
                continue
            ln = ln.lstrip(" ") if out else ln.lstrip(" ")
            if RE_BLOCKISH.match(ln):
                ln = self.pick(("w ", "so ", "The ")) + ln
            out.append(ln)
        if not out:
            out = [self.pick(WORDS)]
        # a trailing backslash / two spaces at the paragraph end is not a hard break; keep a few on purpose
        return out

    # -------------------------------------------------------------- block AST
    def blocks(self, depth, n=None, ctx="flow"):
        """A list of blocks. ctx: flow | item | quote | dd | field | footnote."""
        self.max_nest = max(self.max_nest, depth)
        if n is None:
            n = self.rng.choice((1, 1, 2, 2, 3))
        out = []
        prev = None
        for _ in range(n):
            if self.budget <= 0 and out:
                break
            b = self.block(depth, ctx, prev)
            if b is None:
                continue
            # a list directly followed by indented code / a same-type list would be absorbed: separate them
            if prev is not None and prev["k"] in ("bullet", "ordered", "deflist", "fieldlist", "footnote") \
                    and b["k"] in ("icode",) and not self.accident:
                out.append({"k": "html", "lines": ["<!-- sep -->"]})
            out.append(b)
            prev = b
        if not out:
            out.append(self.paragraph(depth))
        return out

    def paragraph(self, depth, single=False):
        self.note("paragraph")
        return {"k": "para", "inl": self.inline_seq(depth, single=single)}

    def block(self, depth, ctx, prev):
        self.budget -= 1
        deep = depth >= self.max_depth
        r = self.rng.random()
        top = ctx == "flow" and depth == 0
        if r < 0.22 or (deep and r < 0.50):
            return self.paragraph(depth)
        if r < 0.29:
            self.note("heading")
            lvl = self.rng.choice((1, 1, 2, 2, 3, 4, 5, 6))
            style = "atx"
            if lvl <= 2 and self.p(0.25):
                style = "setext"
            elif self.p(0.15):
                style = "atx-closed"
            inl = self.inline_seq(depth, single=(style != "setext"), n=self.rng.choice((0, 1, 1, 2, 3)))
            if self.p(0.1):
                inl = [("text", self.pick(["a", "b", "note", "foo", "x"]))]   # one-word headings (name clashes)
            return self.with_attrs({"k": "heading", "level": lvl, "style": style, "inl": inl})
        if r < 0.37 and not deep:
            self.note("blockquote")
            return self.with_attrs({"k": "quote", "blocks": self.blocks(depth + 1, ctx="quote"),
                                    "lazy": self.p(0.2), "tightmark": self.p(0.15)})
        if r < 0.46 and not deep:
            return self.with_attrs(self.list_block(depth, prev, ordered=False))
        if r < 0.53 and not deep:
            return self.with_attrs(self.list_block(depth, prev, ordered=True), "olist")
        if r < 0.60:
            self.note("fence")
            ch = "`" if self.p(0.7) else "~"
            lines = [self.pick(CODE_LINES) for _ in range(self.rng.choice((0, 1, 1, 2, 3, 5)))]
            if self.p(0.3):
                lines = [""] * self.rng.choice((1, 2)) + lines
            if self.p(0.3):
                lines = lines + [""] * self.rng.choice((1, 2))
            info = self.pick(LANGS)
            if ch == "`":
                info = info.replace("`", "")
            if self.on("attrs_block") and self.p(0.0):
                pass
            runs = [len(m.group(0)) for l in lines for m in [re.match(r"\s*(" + re.escape(ch) + r"+)", l)] if m]
            ln = max([2] + runs) + 1
            if self.p(0.2):
                ln += self.rng.choice((1, 3))
            return self.with_attrs({"k": "fence", "ch": ch, "len": ln, "info": info, "lines": lines,
                                    "indent": self.rng.choice((0, 0, 0, 1, 3)), "unclosed": self.p(0.04)})
        if r < 0.635:
            self.note("code_block")
            lines = [self.pick(CODE_LINES) for _ in range(self.rng.choice((1, 1, 2, 3)))]
            if not any(l.strip() for l in lines):
                lines.append("x = 1")
            if self.p(0.3):
                lines.insert(1, "")
            return {"k": "icode", "lines": lines}
        if r < 0.67:
            self.note("html_block")
            return {"k": "html", "lines": list(self.pick(HTML_BLOCKS))}
        if r < 0.70:
            self.note("hr")
            return {"k": "hr", "src": self.pick(["***", "---", "___", "* * *", "- - -", "*****", " ***", "_  _  _"])}
        if r < 0.77 and self.on("table"):
            return self.with_attrs(self.table(depth))
        if r < 0.80 and self.on("dollarmath"):
            self.note("math_block")
            body = [self.pick(MATHS) for _ in range(self.rng.choice((1, 1, 2)))]
            style = self.rng.choice(("multi", "multi", "one", "label", "label-multi"))
            return {"k": "math", "lines": body, "style": style, "label": self.pick(["eq1", "my label", "e-2"])}
        if r < 0.825 and self.on("amsmath"):
            self.note("amsmath")
            env = self.pick(["equation", "equation*", "align", "align*", "gather", "multline*"])
            return {"k": "amsmath", "env": env, "lines": [self.pick(MATHS) for _ in range(self.rng.choice((1, 2)))]}
        if r < 0.865 and self.on("deflist") and not deep:
            return self.with_attrs(self.deflist(depth))
        if r < 0.90 and self.on("fieldlist") and not deep:
            return self.with_attrs(self.fieldlist(depth))
        if r < 0.93 and self.on("footnote") and not deep and ctx in ("flow", "quote", "item"):
            self.note("footnote_def")
            lab = self.fn_label()
            self.fn_defs.append(lab)
            return {"k": "footnote", "label": lab, "blocks": self.blocks(depth + 1, n=self.rng.choice((1, 1, 2)), ctx="footnote")}
        if r < 0.945 and self.on("target"):
            self.note("target")
            return {"k": "target", "name": self.pick(["tgt", "my-target", "T 2", "a", "x_y"])}
        if r < 0.96 and self.on("comment"):
            self.note("comment")
            return {"k": "comment", "text": self.pick(["comment", " spaced  ", "", "*c*", "a % b"])}
        if r < 0.97 and self.on("blockbreak"):
            self.note("block_break")
            return {"k": "blockbreak", "text": self.pick(["", " meta", " {\"a\": 1}", "x"])}
        return self.paragraph(depth)

    def with_attrs(self, b, kind="block"):
        if self.on("attrs_block") and self.p(0.3 if kind == "olist" else 0.12):
            self.note("attrs_block")
            b["attrs"] = self.attrs_src(kind)
        return b

    def list_block(self, depth, prev, ordered):
        self.note("ordered_list" if ordered else "bullet_list")
        n = self.rng.choice((1, 2, 2, 3, 4))
        tight = self.p(0.5)
        items = []
        for i in range(n):
            if self.p(0.06):
                items.append([])                       # empty item
                continue
            if tight:
                bl = [self.paragraph(depth + 1)]
                if self.p(0.35) and depth + 1 < self.max_depth:
                    sub = self.block(depth + 1, "item", bl[0])
                    if sub is not None:
                        bl.append(sub)
            else:
                bl = self.blocks(depth + 1, n=self.rng.choice((1, 1, 2, 3)), ctx="item")
            items.append(bl)
        b = {"k": "ordered" if ordered else "bullet", "items": items, "tight": tight,
             "pad": self.rng.choice((1, 1, 1, 2, 3))}
        if ordered:
            b["start"] = self.rng.choice((1, 1, 1, 0, 2, 7, 10, 99, 123456789, 3, 1))
            b["delim"] = self.rng.choice((".", ".", ")"))
            if prev is not None and prev["k"] == "ordered" and prev["delim"] == b["delim"] and not self.accident:
                b["delim"] = ")" if prev["delim"] == "." else "."
        else:
            marks = ["-", "*", "+"]
            if prev is not None and prev["k"] == "bullet" and not self.accident:
                marks.remove(prev["marker"])
            if prev is not None and prev["k"] == "hr" and not self.accident:
                marks = ["+"]
            b["marker"] = self.pick(marks)
            if self.on("tasklist") and self.p(0.2):
                self.note("tasklist")
                b["task"] = [self.rng.choice(("[ ] ", "[x] ", "[X] ", "")) for _ in items]
        return b

    def table(self, depth):
        self.note("table")
        ncol = self.rng.choice((1, 2, 2, 3, 3, 4))
        head = [self.cell(depth) for _ in range(ncol)]
        align = [self.rng.choice(("---", ":--", "--:", ":-:", "-", ":---:", "------")) for _ in range(ncol)]
        rows = []
        for _ in range(self.rng.choice((0, 1, 2, 2, 3, 4, 6))):
            k = ncol
            r = self.rng.random()
            if r < 0.2 and ncol > 1:
                k = self.rng.randrange(1, ncol)           # ragged: shorter
                self.note("table_ragged")
            elif r < 0.35:
                k = ncol + self.rng.choice((1, 2))        # ragged: longer
                self.note("table_ragged")
            rows.append([self.cell(depth) for _ in range(k)])
        return {"k": "table", "head": head, "align": align, "rows": rows,
                "outer": self.rng.choice((True, True, True, False)), "ncol": ncol}

    def cell(self, depth):
        if self.p(0.12):
            return []
        return self.inline_seq(depth + 1, single=True, n=self.rng.choice((1, 1, 2, 3)), first=False)

    def deflist(self, depth):
        self.note("deflist")
        groups = []
        for _ in range(self.rng.choice((1, 1, 2, 3))):
            term = self.inline_seq(depth + 1, single=True, n=self.rng.choice((1, 1, 2)))
            defs = [self.blocks(depth + 1, n=self.rng.choice((1, 1, 1, 2)), ctx="dd")
                    for _ in range(self.rng.choice((1, 1, 2)))]
            groups.append((term, defs))
        return {"k": "deflist", "groups": groups, "marker": self.rng.choice((":", ":", "~")),
                "loose": self.p(0.3), "pad": self.rng.choice((1, 1, 3))}

    def fieldlist(self, depth):
        self.note("fieldlist")
        fields = []
        for _ in range(self.rng.choice((1, 2, 2, 3))):
            name = self.inline_seq(depth + 1, single=True, n=self.rng.choice((1, 1, 2)))
            body = [] if self.p(0.15) else self.blocks(depth + 1, n=self.rng.choice((1, 1, 2)), ctx="field")
            fields.append((name, body))
        return {"k": "fieldlist", "fields": fields, "indent": self.rng.choice((2, 2, 3, 4))}

    # -------------------------------------------------------------- block serialisation
    # lines are (text, lazy_ok) pairs; lazy_ok marks paragraph continuation lines whose container prefix
    # may be dropped (CommonMark lazy continuation).
    def ser_blocks(self, blocks, tight=False):
        out = []
        prev = None
        for b in blocks:
            lines = self.ser_block(b)
            if prev is not None:
                glue = tight and prev["k"] == "para" and b["k"] in ("bullet", "quote", "fence") and "attrs" not in b
                if not glue:
                    out.append(("", False))
            out.extend(lines)
            prev = b
        return out

    def ser_block(self, b):
        k = b["k"]
        pre = [(b["attrs"], False)] if b.get("attrs") else []
        if k == "para":
            ls = self.para_lines(b["inl"])
            return pre + [(l, i > 0 and bool(re.match(r"[A-Za-z]", l))) for i, l in enumerate(ls)]
        if k == "heading":
            if b["style"] == "setext":
                ls = self.para_lines(b["inl"])
                return pre + [(l, False) for l in ls] + [(("=" if b["level"] == 1 else "-") * self.rng.choice((1, 3, 7)), False)]
            txt = " ".join(self.para_lines(b["inl"], single=True)) if b["inl"] else ""
            s = "#" * b["level"] + (" " + txt if txt else "")
            if b["style"] == "atx-closed":
                s += " " + "#" * self.rng.choice((1, 2, 5))
            return pre + [(s, False)]
        if k == "quote":
            inner = self.ser_blocks(b["blocks"])
            out = []
            for i, (l, lazy) in enumerate(inner):
                if lazy and b["lazy"] and i > 0 and self.p(0.6):
                    out.append((l, True))
                elif l == "":
                    out.append((">", False))
                elif b["tightmark"] and not l.startswith((" ", "\t")):
                    out.append((">" + l, lazy))
                else:
                    out.append(("> " + l, lazy))
            return pre + out
        if k in ("bullet", "ordered"):
            out = []
            for idx, item in enumerate(b["items"]):
                if k == "bullet":
                    marker = b["marker"]
                else:
                    marker = str(b["start"] + idx) + b["delim"]
                pad = b["pad"]
                inner = self.ser_blocks(item, tight=b["tight"])
                if inner and (inner[0][0].startswith("    ") or item[0]["k"] == "icode"):
                    pad = 1
                w = len(marker) + pad
                task = (b.get("task") or [""] * len(b["items"]))[idx]
                if idx > 0 and not b["tight"]:
                    out.append(("", False))
                if not inner:
                    out.append((marker + (" " + task.strip() if task else ""), False))
                    continue
                for i, (l, lazy) in enumerate(inner):
                    if i == 0:
                        t = task if item and item[0]["k"] == "para" else ""
                        out.append((marker + " " * pad + t + l, False))
                    elif l == "":
                        out.append(("", False))
                    elif lazy and self.p(0.08):
                        out.append((l, True))
                    else:
                        out.append((" " * w + l, lazy))
            return pre + out
        if k == "fence":
            ind = " " * b["indent"]
            f = b["ch"] * b["len"]
            info = b["info"]
            out = [(ind + f + ((" " if self.p(0.3) and info.strip() else "") + info), False)]
            out += [((ind + l) if l else "", False) for l in b["lines"]]
            if not b["unclosed"]:
                out.append((ind + f + (b["ch"] if self.p(0.1) else ""), False))
            return pre + out
        if k == "icode":
            return [("    " + l if l else "", False) for l in b["lines"]]
        if k == "html":
            return [(l, False) for l in b["lines"]]
        if k == "hr":
            return pre + [(b["src"], False)]
        if k == "table":
            def row(cells):
                srcs = []
                for c in cells:
                    s = " ".join(self.para_lines(c, single=True)) if c else ""
                    if not (self.accident and self.p(0.3)):
                        s = re.sub(r"(?<!\\)\|", r"\\|", s)
                    srcs.append(s)
                body = " | ".join(srcs)
                if b["outer"] or len(cells) == 1 or not srcs[0].strip():
                    return "| " + body + " |"
                return body
            al = " | ".join(b["align"])
            if b["outer"] or b["ncol"] == 1:
                al = "| " + al + " |"
            return pre + [(row(b["head"]), False), (al, False)] + [(row(r), False) for r in b["rows"]]
        if k == "math":
            st = b["style"]
            if st == "one":
                return [("$$" + b["lines"][0] + "$$", False)]
            if st == "label":
                return [("$$" + b["lines"][0] + "$$ (" + b["label"] + ")", False)]
            out = [("$$", False)] + [(l, False) for l in b["lines"]]
            out.append(("$$" + (" (" + b["label"] + ")" if st == "label-multi" else ""), False))
            return out
        if k == "amsmath":
            return [("\\begin{" + b["env"] + "}", False)] + [(l, False) for l in b["lines"]] + \
                   [("\\end{" + b["env"] + "}", False)]
        if k == "deflist":
            out = []
            for gi, (term, defs) in enumerate(b["groups"]):
                if gi > 0:
                    out.append(("", False))
                out.append((" ".join(self.para_lines(term, single=True)), False))
                for d in defs:
                    if b["loose"]:
                        out.append(("", False))
                    inner = self.ser_blocks(d)
                    w = 1 + b["pad"]
                    pad = b["pad"]
                    if inner and (inner[0][0].startswith("    ") or d[0]["k"] == "icode"):
                        pad, w = 1, 2
                    for i, (l, lazy) in enumerate(inner):
                        if i == 0:
                            out.append((b["marker"] + " " * pad + l, False))
                        elif l == "":
                            out.append(("", False))
                        else:
                            out.append((" " * w + l, False))
            return pre + out
        if k == "fieldlist":
            out = []
            for name, body in b["fields"]:
                nm = " ".join(self.para_lines(name, single=True)).replace(":", "\\:") or "n"
                inner = self.ser_blocks(body) if body else []
                if not inner:
                    out.append((":" + nm + ":", False))
                    continue
                first_inline = body[0]["k"] == "para" and self.p(0.7)
                ind = " " * b["indent"]
                if first_inline:
                    out.append((":" + nm + ": " + inner[0][0], False))
                    rest = inner[1:]
                else:
                    out.append((":" + nm + ":", False))
                    rest = inner
                out += [((ind + l) if l else "", False) for l, _ in rest]
            return pre + out
        if k == "footnote":
            inner = self.ser_blocks(b["blocks"])
            out = []
            for i, (l, lazy) in enumerate(inner):
                if i == 0:
                    out.append(("[^" + b["label"] + "]: " + l, False))
                else:
                    out.append((("    " + l) if l else "", False))
            return out
        if k == "target":
            return [("(" + b["name"] + ")=", False)]
        if k == "comment":
            return [("%" + (" " if b["text"] and self.p(0.8) else "") + b["text"], False)]
        if k == "blockbreak":
            return [("+++" + b["text"], False)]
        if k == "refdef":
            lab, dest, title = b["def"]
            return [("[" + lab + "]: " + (dest or "<>") + ((" " + title) if title else ""), False)]
        raise ValueError(k)

    # -------------------------------------------------------------- document
    def doc(self):
        n = max(1, min(self.budget, self.rng.choice((1, 2, 3, 4, 5, 6, 8))))
        blocks = []
        while self.budget > 0 and len(blocks) < 40:
            got = self.blocks(0, n=n, ctx="flow")
            blocks.extend(got)
            if self.p(0.5):
                break
        # definitions for referenced footnotes (most of them) and link references, placed elsewhere
        if self.enabled("footnote"):
            for lab in dict.fromkeys(self.fn_refs):
                if lab not in self.fn_defs and self.p(0.75):
                    self.fn_defs.append(lab)
                    fb = {"k": "footnote", "label": lab,
                          "blocks": [self.paragraph(self.max_depth)] if self.p(0.7) else self.blocks(self.max_depth - 1, n=2, ctx="footnote")}
                    blocks.insert(self.rng.randrange(len(blocks) + 1) if self.p(0.3) else len(blocks), fb)
        for d in self.refdefs:
            rb = {"k": "refdef", "def": d}
            blocks.insert(self.rng.randrange(len(blocks) + 1) if self.p(0.4) else len(blocks), rb)
        return {"k": "doc", "blocks": blocks}

    def render(self, doc):
        lines = [l for l, _ in self.ser_blocks(doc["blocks"])]
        s = "\n".join(lines)
        r = self.rng.random()
        if r < 0.85:
            s += "\n"
        elif r < 0.9:
            s += "\n\n\n"
        if self.p(0.03):
            s = "\n\n" + s
        if self.p(0.02):
            s = s.replace("\n", "\r\n")
        return s


def gen_ast(rng, max_depth=6, size=12, mode="myst", exts=()):
    """(document AST, generator object) - the generator object renders it and carries statistics."""
    g = _Gen(rng, max_depth, size, mode, exts)
    return g.doc(), g


def gen_doc(rng, max_depth=6, size=12, mode="myst", exts=()):
    """A random Markdown document over CommonMark + GFM + static MyST extension syntax."""
    d, g = gen_ast(rng, max_depth, size, mode, exts)
    return g.render(d)


def gen_doc_stats(rng, max_depth=6, size=12, mode="myst", exts=()):
    """(text, {construct: count generated on purpose}, max block nesting reached in the AST)."""
    d, g = gen_ast(rng, max_depth, size, mode, exts)
    return g.render(d), dict(g.stats), g.max_nest


# ------------------------------------------------------------------------------------------ seeds

SEED_DOCS = [
    "",
    "   \n\t\n  \n",
    "***a***\n",
    "*a**b**c*\n",
    "**a*b*c**\n",
    "***a** b*\n",
    "*a **b *c* d** e*\n",
    "_x_ __y__ ___z___ a_b_c _a_b\n",
    "[a [b](u1) c](u2)\n",
    "[![img](i.png)](http://x.org \"t\")\n",
    "![a\nb](x)\n",
    "![a `code` *em* **st** [l](u) ![in *n*](i2) <b>h</b>](src.png 'ti')\n",
    "![](empty.png) ![ ](sp.png) ![*e*]()\n",
    "| a \\| b | `c \\| d` | e |\n|---|:-:|--:|\n| 1 | 2 |\n| 1 | 2 | 3 | 4 |\n|  |  |  |\n",
    "a | b\n- | -\n`x|y` | **s [l](u)**\n",
    "0. zero\n1. one\n\n7. seven\n8. eight\n\n123456789. big\n",
    "- a\n- b\n\n* c\n* d\n\n+ e\n+ f\n",
    "1) a\n2) b\n\n1. c\n2. d\n",
    "```python\n\n\nx = 1\n```\n",
    "```python\nx = 1\n\n\n```\n",
    "~~~\n\n  leading\n~~~\n\n~~~~ text\n~~~\ninner\n~~~\n~~~~\n\n`````\n```\nx\n```\n`````\n",
    "``` python extra words\ncode\n```\n\n```\tc\nx\n```\n",
    "- item\n\n      indented code in item\n\n<!-- -->\n\n    indented code after list\n",
    "- a\n\n    not code, continuation\n",
    "<script>\nvar x = 1;\n\n</script>\n\n<!-- c\n\nc -->\n\n<?php\n\n?>\n\n<!DOCTYPE x>\n\n<![CDATA[\n\n]]>\n\n<div>\n*x*\n\n</div>\n\n<a-b c=\"d\">\n*y*\n",
    "Heading 1\n===\n\nHeading *2*\n---\n\nmulti\nline\n===\n",
    "hard  \nbreak\\\nend\\\n\ntrail  \n",
    "&amp; &lt; &#35; &#x41; &copy; &notanentity; &#0; &#xD800; &ouml;\n",
    "\\* \\_ \\# \\> \\\\ \\a \\` \\[ \\] \\! \\& \\< \\\"\n",
    "\tcode with tab\n\n- a\n\t- b\n\n>\tq\n",
    "> a\nlazy\n> - b\nlazy2\n>> c\n> d\n",
    "> 1. a\n>    - b\n>      > c\n>      > ```py\n>      > x\n>      > ```\n>    - d\n> 2. e\n",
    "- > - > - deep\n",
    "# h1\n## h2 ##\n### *h3* `c` [l](u)\n#\n####### seven\n#h\n",
    "<http://x.org> <mailto:a@b.c> <a@b.c> <foo:bar> <#a> <not a link>\n",
    "[a](#x) [b](a.md) [c](a.md#f) [d](<a b>) [e]() [f](foo:bar) [g](http://x.org/?a=1&b=2) [h](mailto:x) [i](ftp://f)\n",
    "[r1] [R1][] [t][r1] [undefined] [t][undef]\n\n[r1]: <u v> 'T'\n[r1]: dup\n",
    "a <b>x</b> <!-- c --> <i a='b'> <?p?> <!D> <![CDATA[x]]> <script>alert(1)</script> <TITLE>\n",
    "`` a`b `` ` `` ` `  x  ` ` ` `a\nb` ```c``\n",
    "* a\n  * b\n    * c\n      * d\n        * e\n          * f\n            * g\n",
    "***\n---\n___\n* * *\n - - -\n",
    "a\n===\n\n> # q\n\n- # in list\n- ## second\n",
    "x[^a] y[^b] z[^a]\n\n[^a]: one\n    two\n\n    - l\n[^b]: b\n[^a]: dup\n[^unref]: never\n",
    "# a\n\n[^a]\n\n[^a]: note\n",
    "(t)=\n# T\n\n% c\n+++ bb\n\n(t2)=\n(t3)=\npara\n",
    "$a$ $$b$$ $ c $ 1$ 2$\n\n$$\nd\n$$\n\n$$e$$ (lab)\n\n\\begin{equation}\nf\n\\end{equation}\n\n\\begin{align*}\ng\n\\end{align*}\n",
    "Term *a*\n: def 1\n\n  para 2\n: def 2\n\nT2\n~ tilde\n\n:field *n*: body\n  cont\n:empty:\n:f3:\n  - l\n",
    "{.c #i}\n# H\n\n{.p}\npara\n\n{#l .x}\n- a\n\n{.q}\n> q\n\n{.t}\n| a |\n|---|\n\n{.k}\n```py\nx\n```\n\n[s]{.a #b} `c`{l=py} `d`{.e} ![i](u){.f w=1px} [l](u){.g}\n",
    "~~s~~ ~~*e* `c`~~ ~x~ ~~~y~~~\n",
    "- [ ] a\n- [x] b\n- [X] *c*\n- [ ]\n- [y] d\n\n1. [ ] e\n",
    "\"q\" 'r' -- --- ... (c) (tm) (r) +- !!!! ????\n",
    "a\r\nb\r\n\r\n- c\r\n",
    " nbsp  ls ​zw ﻿bom \x0bvt \x0cff\n",
    "[a](u \"t1\" ) [b](u 't2') [c](u (t3)) [d](<u> \"a\nb\")\n",
    "- \n-\n-  \n\n1.\n2. x\n",
    "|a|\n|-|\n\n|*a*|**b**|\n|:-|-:|\n|[![i](s)](u)|`c`|\n> |q|\n> |-|\n> |r|\n",
]


def commonmark_spec_inputs():
    """The markdown inputs of the CommonMark spec examples shipped with the repository's tests."""
    repo = os.environ.get("VERIF_REPO", "/repo")
    p = os.path.join(repo, "tests", "test_commonmark", "commonmark.json")
    with open(p, encoding="utf8") as f:
        data = json.load(f)
    return [d["markdown"] for d in data]


if __name__ == "__main__":
    import random
    import sys
    n = int(sys.argv[1]) if len(sys.argv) > 1 else 3
    rng = random.Random(int(sys.argv[2]) if len(sys.argv) > 2 else 0)
    for i in range(n):
        mode = rng.choice(("commonmark", "gfm", "myst"))
        print("=" * 30, i, mode)
        print(gen_doc(rng, 6, 12, mode, ("dollarmath", "amsmath", "deflist", "fieldlist", "strikethrough",
                                         "attrs_inline", "attrs_block", "tasklist")))


# ------------------------------------------------------------------------------------------ dynamic syntax
# Documents that contain directives, roles, substitutions and front matter (round 2): the model treats the result of
# each run as an oracle answered with what the real run produced, and checks where and how often it is spliced.

DYN_EXTS = ["colon_fence", "substitution"]

DIRECTIVE_BLOCKS = [
    "```{note}\nhello *w*\n```", "```{warning}\nA `b` c.\n\nSecond para.\n```", "```{tip}\n- a\n- b\n```",
    "```{admonition} A Title\n:class: big\n\nbody\n```", "```{image} a.png\n```", "```{image} a.png\n:alt: x y\n:width: 10px\n```",
    "```{figure} a.png\ncaption *text*\n```", "```{code-block} python\nx = 1\n```",
    "```{code-block} python\n:linenos:\n:emphasize-lines: 1\n\nx = 1\ny = 2\n```", "```{code} c\nint x;\n```",
    "```{math}\na^2 + b^2\n```", "```{epigraph}\nquote\n\n-- me\n```", "```{topic} T\nbody\n```", "```{rubric} Rub\n```",
    "```{unknown-dir} arg\nbody\n```", "```{raw} html\n<b>x</b>\n```", "```{note}\n```", "```{note} first line\nmore\n```",
    "````{note}\n```{tip}\ninner\n```\n````", "```{note}\n[x](http://a.b) and {sub}`r`\n```",
    "```{list-table}\n* - a\n  - b\n```", "```{contents}\n```", "```{note}\n# heading inside\n```",
    "```{note}\nsee [^fn]\n```", "```{note}\n:name: nm\n\nnamed\n```", "```{eval-rst}\n*rst*\n```",
    "```{parsed-literal}\na *b*\n```", "```{line-block}\na\nb\n```", "```{container} cls\nx\n```",
    "```{highlight} c\n```", "```{only} html\nx\n```", "```{versionadded} 1.0\nnew\n```", "```{centered} mid\n```",
    "```{note}\n---\n```", "```{note}\n(tgt)=\ntext\n```", "```{class} cc\n```",
    # structured bodies of the docutils-core directives whose nodes MyST's mocked state builds (mocking.py):
    # line-block nesting, block quotes with attribution, tables, figure / image targets, titles with inline markup
    "```{line-block}\none\n  two\nthree\n  four\n  five\nsix\n```",
    "```{line-block}\n  lead *in*\na\n  b\n    c\n      d\n    e\n\n  f\ng\n\n    h\n  i\n```",
    "```{epigraph}\nPara *one*.\n\nPara two.\n\n-- Author **B**\n```",
    "```{pull-quote}\nq\n\n--- a *b*\n  more\n```",
    "```{highlights}\n- item\n\ntext\n\n-- first\n\n-- second\n```",
    "````{epigraph}\n```{note}\nn\n```\n\n-- w\n````",
    "```{list-table} Title *em* **s**\n:header-rows: 1\n:stub-columns: 1\n:widths: 10 20 30\n\n* - h1\n  - h2\n  - h3\n"
    "* - a\n  - b *x*\n  - - nested\n    - list\n```",
    "````{list-table}\n:widths: 1 2\n\n* - ```{note}\n    in cell\n    ```\n  - c\n````",
    "```{csv-table} CSV **t**\n:header: A, \"B *x*\", C\n:widths: auto\n:stub-columns: 1\n\n\"a, b\", c, d\ne, \"f\n\ng\", h\n```",
    "```{csv-table}\na,b\nc,*d*\n```",
    "```{table} Table *title*\n:align: center\n:widths: 1 2\n\n| a | b |\n|---|---|\n| 1 | 2 |\n```",
    "```{figure} a.png\n:target: https://e.x/a b\n:alt: alt\n:figclass: k\n\nCaption *em*\n\nLegend para.\n\n- legend list\n```",
    "```{figure} a.png\n:target: some name_\n\n%\n\nlegend only\n```",
    "```{image} a.png\n:target: https://e.x\n```", "```{image} a.png\n:target: nm_\n:alt: t\n```",
    "```{admonition} Title *em* **s** [l](http://a.b)\n:class: k\n\nbody\n```",
    "```{topic} Topic *t* **s**\ntbody\n\n- l\n```",
    "```{sidebar} Side **s**\n:subtitle: Sub *t* [x](http://a.b)\n\nsbody\n```",
    "```{rubric} Rubric *r* **s**\n:class: k\n```",
    "```{parsed-literal}\nlit *em* [l](http://a.b)\n  second **s**\n```",
    "```{compound}\npara\n\n    code\n\n- list\n```",
    "````{container} k1 k2\npara\n\n```{note}\ninner\n```\n````",
    "```{role} c02role(emphasis)\n:class: special\n```\n\n{c02role}`text`",
    "```{role} c02raw(raw)\n:format: html\n```\n\n{c02raw}`<b>x</b>`",
]
COLON_BLOCKS = [
    ":::{note}\ncolon *w*\n:::", ":::{tip}\n- a\n:::", "::::{note}\n:::{tip}\ninner\n:::\n::::", ":::{image} a.png\n:::",
    ":::{note}\n:class: k\n\nbody\n:::", ":::name\ndiv body\n:::", ":::\nplain div\n:::", ":::{unknown-dir}\nx\n:::",
]
ROLES = [
    "{abbr}`x (y)`", "{sub}`q`", "{sup}`q`", "{code}`a b`", "{math}`x^2`", "{emphasis}`e`", "{strong}`s`", "{literal}`l`",
    "{unknownrole}`x`", "{ref}`lab`", "{doc}`index`", "{eq}`l`", "{raw}`r`", "{title-reference}`t`", "{kbd}`Ctrl`",
    "{file}`a/{b}`", "{samp}`x{y}`", "{download}`f.txt`", "{term}`tt`", "{numref}`n`", "{pep}`8`", "{rfc}`2822`",
    "{code}``", "{sub}` `", "{math}`\\alpha`",
]
FRONT_MATTERS = [
    "---\ntitle: T\n---", "---\na: b\nauthor: me\n---", "---\nmyst:\n  substitutions:\n    key: \"val *x*\"\n    k2: 3\n---",
    "---\n- not\n- a dict\n---", "---\na: [unclosed\n---", "---\ndate: 2020-01-01\nfield: \"*md* text\"\n---", "---\n---",
    "---\nmyst:\n  substitutions:\n    key: |\n      ```{note}\n      sub note\n      ```\n---",
]
SUBSTS = ["{{ key }}", "{{ k2 }}", "{{ undefined }}", "{{ key | upper }}", "{{ 1 + 1 }}", "{{ key }} and {{ key }}",
          "{{ env.docname }}", "{{ \"*lit*\" }}"]


def gen_dynamic_doc(rng, mode="myst", exts=(), max_depth=4, size=6):
    """A document that mixes static content (gen_doc) with directives, roles, substitutions and front matter."""
    exts = list(exts)
    parts = []
    if rng.random() < 0.35:
        parts.append(rng.choice(FRONT_MATTERS))
    n = rng.randint(1, 5)
    for _ in range(n):
        r = rng.random()
        if r < 0.30:
            parts.append(gen_doc(rng, max_depth=rng.randint(1, max_depth), size=rng.randint(1, size), mode=mode,
                                 exts=exts).rstrip("\n"))
        elif r < 0.55:
            b = rng.choice(DIRECTIVE_BLOCKS)
            q = rng.random()
            if q < 0.15:
                b = "\n".join("> " + l if l else ">" for l in b.split("\n"))
            elif q < 0.30:
                b = "- " + "\n".join(("  " + l if l else "") for l in b.split("\n")).lstrip(" ")
            elif q < 0.36:
                b = "1. para\n\n" + "\n".join(("   " + l if l else "") for l in b.split("\n"))
            parts.append(b)
        elif r < 0.65:
            parts.append(rng.choice(COLON_BLOCKS))
        elif r < 0.85:
            words = [rng.choice(WORDS) for _ in range(rng.randint(0, 3))]
            words.insert(rng.randint(0, len(words)), rng.choice(ROLES))
            if rng.random() < 0.3:
                words.insert(rng.randint(0, len(words)), rng.choice(ROLES))
            if rng.random() < 0.2:
                words.insert(rng.randint(0, len(words)), rng.choice(SUBSTS))
            line = " ".join(words)
            q = rng.random()
            if q < 0.15:
                line = "# " + line
            elif q < 0.3:
                line = "*" + line + "*"
            elif q < 0.4:
                line = "[" + line + "](http://x.org)"
            elif q < 0.5:
                line = "| h |\n|---|\n| " + line + " |"
            parts.append(line)
        else:
            parts.append(rng.choice(SUBSTS))
    return "\n\n".join(parts) + "\n"


SEED_DYNAMIC = [
    "# T\n\n```{note}\nhello *w*\n```\n\n{abbr}`x (y)` and {sub}`q`\n\n:::{tip}\nyo\n:::\n",
    "```{image} a.png\n:alt: x\n```\n\ntext {code}`a b`\n",
    "```{code-block} python\nx=1\n```\n",
    "---\na: b\n---\n\n# h\n\n{{ x }} and\n\n{{ x }}\n",
    "---\nmyst:\n  substitutions:\n    key: \"val *x*\"\n---\n\n{{ key }}\n\n- {{ key }} in item\n",
    "> ```{note}\n> quoted\n> ```\n\n- ```{tip}\n  in list\n  ```\n- {sup}`2`\n",
    "# A\n\n```{note}\nn1\n```\n\n## B\n\n```{note}\nn1\n```\n\n{unknownrole}`x` [^f]\n\n[^f]: foot {sub}`s`\n",
]
