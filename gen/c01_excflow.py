"""Translator for C01: exception-flow tables of the whole myst_parser package -> coq/Gen/ExcFlow.v.

Reads every module with ``ast`` and emits

* ``sites``  - one record per call of a *raising callee* (curated list below): file, function, line, callee key,
  ordinal of that callee inside the function, the exception classes named by the enclosing ``try`` handlers /
  ``contextlib.suppress`` blocks of the same function (resolved to qualified class names by evaluating the handler
  expression in the module's namespace);
* ``raise_stmts`` - one record per ``raise`` statement with the class raised and the enclosing handlers;
* ``mro`` - for every class named anywhere (handlers, raise statements, the hand-written ``raises`` table in
  coq/Exc/ExcFlow.v) its proper ancestors, taken from the running interpreter.

Fail-closed: a call of a Python builtin or of a function of an imported stdlib / third-party module that is neither
in the raising tables nor in the reviewed total tables, a handler / raise expression that is not a class expression,
or a raising method name on an unexpected receiver stops the translation with an error.
"""
from __future__ import annotations

import ast
import builtins
import hashlib
import importlib
import re
import sys
from pathlib import Path

# ------------------------------------------------------------------------------------------------ curated tables
# builtins: raising -> callee key
RAISING_BUILTINS = {"int": "int", "float": "float", "chr": "chr", "open": "open", "max": "max", "min": "min",
                    "next": "next", "__import__": "import_module", "sorted": "sorted", "ord": "ord",
                    "eval": "eval", "exec": "exec", "compile": "compile"}
# builtins reviewed as unable to raise on the argument types used (constructors / predicates / iter helpers)
TOTAL_BUILTINS = {"isinstance", "issubclass", "len", "str", "repr", "list", "dict", "set", "tuple", "enumerate", "range",
                  "any", "all", "hasattr", "callable", "bool", "type", "super", "print", "reversed", "setattr",
                  "ValueError", "TypeError", "AttributeError", "AssertionError", "NotImplementedError", "KeyError",
                  "frozenset", "iter", "zip", "id", "object", "property", "staticmethod", "classmethod", "format"}
# imported functions / module functions (resolved dotted name): raising -> callee key
RAISING_FUNCS = {
    "yaml.safe_load": "yaml.safe_load",
    "urllib.request.urlopen": "urlopen",
    "importlib.import_module": "import_module",
    "urllib.parse.urlparse": "urlparse",
    "sphinx.util.parselinenos": "parselinenos",
    "json.dumps": "json.dumps", "json.loads": "json.loads",
    "os.path.relpath": "os.path.relpath", "os.access": "os.access",
    "zlib.decompressobj": "zlib.decompress", "zlib.decompress": "zlib.decompress",
    "docutils.utils.code_analyzer.Lexer": "lexer.init",
    "docutils.parsers.rst.directives.choice": "option_converter",
    "docutils.parsers.rst.directives.length_or_percentage_or_unitless": "option_converter",
    "docutils.parsers.rst.directives.length_or_unitless": "option_converter",
    "myst_parser.parsers.parse_html.tokenize_html": "tokenize_html",
    "myst_parser.parsers.options.options_to_items": "options_to_items",
    "myst_parser.parsers.directives.parse_directive_text": "parse_directive_text",
    "myst_parser.parsers.directives._parse_directive_options": "parse_directive_text",
    "myst_parser.parsers.directives.parse_directive_arguments": "parse_directive_text",
    "myst_parser.inventory.fetch_inventory": "fetch_inventory",
    "myst_parser.inventory.load": "fetch_inventory", "myst_parser.inventory._load_v1": "fetch_inventory",
    "myst_parser.inventory._load_v2": "fetch_inventory",
    "myst_parser.config.main.read_topmatter": "read_topmatter",
    "myst_parser.config.dc_validators.validate_field": "validate_field",
    "myst_parser.config.dc_validators.validate_fields": "validate_field",
    "myst_parser.parsers.docutils_.create_myst_config": "config.init",
    "myst_parser.config.main.MdParserConfig": "config.init",
    "myst_parser.mdit_to_docutils.base.compute_unique_slug": "compute_unique_slug",
    "myst_parser.mdit_to_docutils.base.token_line": "token_line",
    "re.compile": "re.compile", "re.match": "re.compile", "re.search": "re.compile", "re.sub": "re.compile",
    "re.fullmatch": "re.compile", "re.split": "re.compile", "re.findall": "re.compile",
    "yaml.dump": "yaml.dump",
    "docutils.core.publish_cmdline": "docutils.publish", "docutils.core.publish_string": "docutils.publish",
    "sphinx.util.nodes.make_refnode": "make_refnode",
}
# reviewed as total on the arguments used; a trailing ".*" covers a whole module / class namespace
TOTAL_FUNCS = [
    "docutils.nodes.*", "sphinx.addnodes.*", "os.path.join", "os.path.normpath", "posixpath.join", "re.escape",
    "inspect.getmembers", "inspect.isclass", "functools.lru_cache", "itertools.chain", "dataclasses.*", "io.StringIO",
    "sys.exc_info", "logging.getLogger", "sphinx.util.logging.getLogger", "sphinx.util.logging.is_suppressed_warning",
    "argparse.*", "contextlib.*", "jinja2.Environment", "copy.copy", "textwrap.dedent", "typing.cast", "typing.get_args",
    "typing.get_origin", "collections.deque", "uuid.uuid4", "pathlib.Path", "markdown_it.MarkdownIt", "markdown_it.main.MarkdownIt",
    "markdown_it.tree.SyntaxTreeNode", "markdown_it.common.utils.escapeHtml", "markdown_it.common.normalize_url.normalizeLink",
    "docutils.frontend.get_default_settings", "docutils.frontend.validate_comma_separated_list", "docutils.frontend.filter_settings_spec",
    "docutils.utils.new_document", "docutils.utils.unescape", "docutils.utils.get_source_line", "docutils.languages.get_language",
    "docutils.parsers.rst.languages.get_language", "docutils.statemachine.StringList", "docutils.utils.code_analyzer.NumberLines",
    "docutils.parsers.rst.directives.body.NumberLines", "docutils.parsers.rst.directives.body.CodeBlock",
    "docutils.parsers.rst.directives.directive", "docutils.parsers.rst.roles.role", "docutils.parsers.rst.roles._roles.*", "docutils.parsers.rst.states.Body.*",
    "docutils.parsers.rst.directives.misc.*", "docutils.core.Publisher", "docutils.parsers.rst.DirectiveError",
    "docutils.parsers.rst.states.MarkupError", "docutils.parsers.rst.Parser", "docutils.writers.html5_polyglot.*",
    "sphinx.ext.intersphinx.InventoryAdapter", "sphinx.util.docname_join", "sphinx.util.nodes.clean_astext",
    "sphinx.util.math.get_node_equation_number", "sphinx.locale._", "sphinx.util.console.bold", "sphinx.ext.mathjax.*",
    "sphinx.domains.std.make_glossary_term", "sphinx.pycode.ModuleAnalyzer.*", "sphinx.util.docutils.*",
    "pygments.lexer.bygroups", "pygments.lexer.using", "sphinx.application.Sphinx", "html.parser.*",
    "mdit_py_plugins.*", "myst_parser.*",
]
# method names that make a call a raising site, by receiver shape
RAISING_METHODS = {
    "read_text": "Path.read_text", "is_file": "Path.is_file", "decode": "bytes.decode", "decompress": "zlib.decompress",
    "read": "stream.read", "emit": "events.emit", "index": "list.index", "feed": "HTMLParser.feed",
    "resolve_any_xref": "domain.resolve", "resolve_xref": "domain.resolve", "relfn2path": "env.relfn2path",
    "nested_parse": "state.nested_parse", "_parse_linenos": "parselinenos",
    "resolve_myst_ref_any": "resolve_myst_ref_any", "_resolve_ref_nested": "resolve_myst_ref_any",
    "_resolve_doc_nested": "resolve_myst_ref_any",
}
RUN_RECEIVERS = {"directive_instance", "codeblock"}     # <x>.run() is a directive run only on these receivers
LOCAL_CALLABLES = {  # calls through local variables holding third-party / user callables
    "role_func": "role_func", "converter": "option_converter", "slug_func": "slug_func", "validator": "validator",
    "member_validator": "validator", "iterable_validator": "validator", "key_validator": "validator",
    "value_validator": "validator", "mapping_validator": "validator", "config_cls": "config.init",
    "MdParserConfig": "config.init",
}
IGNORED_LOCAL_CALLABLES = {"directive_class", "node_cls", "klass", "warning", "test_func", "stringify", "option_line",
                           "convert_opt", "_restore", "_"}


# functions of the transform phase: besides calls, every subscript load / del, list.remove and int() on doctree
# attributes is a site there (the data are node attributes produced from user text)
TRANSFORM_PHASE = [("myst_parser/mdit_to_docutils/transforms.py", ""), ("myst_parser/parsers/docutils_.py", "Parser.parse"),
                   ("myst_parser/parsers/sphinx_.py", "MystParser.parse")]


LAST_HANDLER_ROWS = []


class Untranslatable(Exception):
    pass


def qual(cls) -> str:
    m = cls.__module__
    return cls.__qualname__ if m == "builtins" else f"{m}.{cls.__qualname__}"


def coq_str(s: str) -> str:
    return '"' + s.replace('"', '""') + '"'


class ModuleScan(ast.NodeVisitor):
    def __init__(self, repo: Path, rel: str):
        self.rel = rel
        self.src = (repo / rel).read_text()
        self.tree = ast.parse(self.src)
        self.modname = rel[:-3].replace("/", ".")
        if self.modname.endswith(".__init__"):
            self.modname = self.modname[: -len(".__init__")]
        self.module = importlib.import_module(self.modname)
        self.imports = {}       # local name -> dotted target (module or module.attr)
        self.local_defs = set()
        for n in ast.walk(self.tree):
            if isinstance(n, ast.Import):
                for a in n.names:
                    self.imports[(a.asname or a.name).split(".")[0]] = a.name if a.asname else a.name.split(".")[0]
            elif isinstance(n, ast.ImportFrom):
                base = n.module or ""
                if n.level:
                    pkg = self.modname.split(".")
                    # a module file: level 1 = its package
                    pkg = pkg[: len(pkg) - n.level] if not rel.endswith("__init__.py") else pkg[: len(pkg) - n.level + 1]
                    base = ".".join(pkg + ([n.module] if n.module else []))
                for a in n.names:
                    self.imports[a.asname or a.name] = f"{base}.{a.name}"
            elif isinstance(n, (ast.FunctionDef, ast.AsyncFunctionDef, ast.ClassDef)):
                self.local_defs.add(n.name)
        self.func_stack = []
        self.try_stack = []     # list of (func_depth, [handler class names])
        self.sites = []
        self.raises = []
        self.classes = set()
        self.local_import_nodes = []
        self.errors = []
        self.handler_rows = []

    # -------------------------------------------------------------- helpers
    def func_name(self):
        return ".".join(self.func_stack) if self.func_stack else "<module>"

    def handlers_here(self):
        d = len(self.func_stack)
        out = []
        for depth, hs in self.try_stack:
            if depth == d:
                out.extend(hs)
        return out

    def namespace(self):
        ns = dict(vars(builtins))
        ns.update(vars(self.module))
        for node in self.local_import_nodes:
            try:
                exec(compile(ast.Module([node], []), self.rel, "exec"), ns)  # noqa: S102 - import statements only
            except Exception:  # pragma: no cover
                pass
        return ns

    def resolve_class(self, expr) -> list[str]:
        """handler / raise expression -> qualified class names (fail-closed)."""
        if isinstance(expr, ast.Tuple):
            out = []
            for e in expr.elts:
                out.extend(self.resolve_class(e))
            return out
        if isinstance(expr, ast.BinOp) and isinstance(expr.op, ast.BitOr):
            return self.resolve_class(expr.left) + self.resolve_class(expr.right)
        if not isinstance(expr, (ast.Name, ast.Attribute)):
            raise Untranslatable(f"{self.rel}:{expr.lineno}: exception class expression not understood: {ast.unparse(expr)}")
        try:
            obj = eval(compile(ast.Expression(expr), self.rel, "eval"), self.namespace())  # noqa: S307 - name/attribute only
        except Exception as e:
            raise Untranslatable(f"{self.rel}:{expr.lineno}: cannot resolve {ast.unparse(expr)}: {e!r}") from e
        if not (isinstance(obj, type) and issubclass(obj, BaseException)):
            raise Untranslatable(f"{self.rel}:{expr.lineno}: {ast.unparse(expr)} is not an exception class")
        q = qual(obj)
        self.classes.add(obj)
        return [q]

    def dotted(self, f):
        """Name/Attribute chain -> (root name, [attrs]) or None."""
        attrs = []
        while isinstance(f, ast.Attribute):
            attrs.append(f.attr)
            f = f.value
        if isinstance(f, ast.Name):
            return f.id, list(reversed(attrs))
        return None

    def add_site(self, node, callee):
        fn = self.func_name()
        idx = sum(1 for s in self.sites if s["func"] == fn and s["callee"] == callee)
        if not hasattr(node, "func"):
            self.sites.append({"file": self.rel, "func": fn, "line": node.lineno, "callee": callee, "idx": idx,
                               "expr": ast.unparse(node), "end_line": getattr(node, "end_lineno", node.lineno),
                               "handlers": list(dict.fromkeys(self.handlers_here()))})
            return
        self.sites.append({"file": self.rel, "func": fn, "line": node.lineno, "callee": callee, "idx": idx,
                           "expr": ast.unparse(node.func), "end_line": getattr(node, "end_lineno", node.lineno),
                           "handlers": list(dict.fromkeys(self.handlers_here()))})

    # -------------------------------------------------------------- visitors
    def visit_FunctionDef(self, node):
        for d in node.decorator_list:
            self.visit(d)
        self.func_stack.append(node.name)
        for st in node.body:
            self.visit(st)
        self.func_stack.pop()

    visit_AsyncFunctionDef = visit_FunctionDef

    def visit_ClassDef(self, node):
        self.func_stack.append(node.name)
        for st in node.body:
            self.visit(st)
        self.func_stack.pop()

    def visit_Lambda(self, node):
        self.func_stack.append("<lambda>")
        self.visit(node.body)
        self.func_stack.pop()

    def visit_Import(self, node):
        if self.func_stack:
            self.local_import_nodes.append(node)

    visit_ImportFrom = visit_Import

    def visit_Try(self, node):
        hs = []
        for h in node.handlers:
            if h.type is None:
                hs.append("BaseException")
            else:
                hs.extend(self.resolve_class(h.type))
        self.try_stack.append((len(self.func_stack), hs))
        for st in node.body:
            self.visit(st)
        self.try_stack.pop()
        for h in node.handlers:
            self.add_handler_row(h, [c for c in (self.resolve_class(h.type) if h.type is not None else ["BaseException"])])
        for h in node.handlers:
            self._cur_handler = h
            for st in h.body:
                self.visit(st)
        for st in node.orelse + node.finalbody:
            self.visit(st)

    WARN_CALLS = {"create_warning", "warning", "error", "severe", "system_message", "ParseWarnings", "info", "log_warning"}

    def add_handler_row(self, h, caught):
        """what a handler body does with the exception: re-raise (which classes), report (a warning / system message
        call), or neither (silent fallback)."""
        reraised, warns = [], False

        def walk(n):
            nonlocal warns
            if isinstance(n, (ast.FunctionDef, ast.AsyncFunctionDef, ast.Lambda, ast.ClassDef)):
                return
            if isinstance(n, ast.Raise):
                if n.exc is None:
                    reraised.extend(caught)
                else:
                    e = n.exc
                    if isinstance(e, ast.Call) and isinstance(e.func, ast.Attribute) and e.func.attr == "with_traceback":
                        e = e.func.value
                    if isinstance(e, ast.Call) and isinstance(e.func, ast.Attribute) and e.func.attr == "clone":
                        reraised.extend(caught)   # exc.clone(...): the same class
                    else:
                        if isinstance(e, ast.Call):
                            e = e.func
                        reraised.extend(self.resolve_class(e))
            if isinstance(n, ast.Call):
                nm = n.func.attr if isinstance(n.func, ast.Attribute) else (n.func.id if isinstance(n.func, ast.Name) else "")
                if nm in self.WARN_CALLS:
                    warns = True
            for c in ast.iter_child_nodes(n):
                walk(c)
        for st in h.body:
            walk(st)
        fn = self.func_name()
        idx = sum(1 for r in self.handler_rows if r["func"] == fn)
        action = "raise" if reraised else ("warn" if warns else "silent")
        self.handler_rows.append({"file": self.rel, "func": fn, "line": h.lineno, "idx": idx, "caught": caught,
                                  "reraised": list(dict.fromkeys(reraised)), "action": action})

    def visit_TryStar(self, node):  # pragma: no cover
        raise Untranslatable(f"{self.rel}:{node.lineno}: try/except* not understood")

    def visit_With(self, node):
        hs = []
        for item in node.items:
            ce = item.context_expr
            self.visit(ce)
            if isinstance(ce, ast.Call) and isinstance(ce.func, ast.Name) and ce.func.id == "suppress":
                if self.imports.get("suppress") != "contextlib.suppress":
                    raise Untranslatable(f"{self.rel}:{node.lineno}: suppress is not contextlib.suppress")
                for a in ce.args:
                    hs.extend(self.resolve_class(a))
        if hs:
            self.try_stack.append((len(self.func_stack), hs))
            fn = self.func_name()
            self.handler_rows.append({"file": self.rel, "func": fn, "line": node.lineno, "idx": sum(1 for r in self.handler_rows if r["func"] == fn),
                                      "caught": hs, "reraised": [], "action": "silent"})
        for st in node.body:
            self.visit(st)
        if hs:
            self.try_stack.pop()

    def visit_Raise(self, node):
        fn = self.func_name()
        exc = node.exc
        if exc is None:
            cls = ["<reraise>"]
        else:
            e = exc
            # X(...).with_traceback(...)  /  X(...)  /  X  /  exc.clone(...) / self.error(...)
            if isinstance(e, ast.Call) and isinstance(e.func, ast.Attribute) and e.func.attr == "with_traceback":
                e = e.func.value
            if isinstance(e, ast.Call) and isinstance(e.func, ast.Attribute) and e.func.attr == "clone":
                cls = ["<reraise>"]
            else:
                if isinstance(e, ast.Call):
                    e = e.func
                cls = self.resolve_class(e)
        self.raises.append({"file": self.rel, "func": fn, "line": node.lineno, "classes": cls,
                            "handlers": list(dict.fromkeys(self.handlers_here()))})
        if node.exc is not None:
            self.visit(node.exc)
        if node.cause is not None:
            self.visit(node.cause)

    def classify_call(self, node):
        f = node.func
        # (1) plain names
        if isinstance(f, ast.Name):
            name = f.id
            if name in self.imports:
                return self.classify_dotted(node, self.imports[name])
            if name in LOCAL_CALLABLES:
                if name == "MdParserConfig" and not node.args and not node.keywords:
                    return None
                if name == "config_cls" and not node.args and not node.keywords:
                    return None
                return LOCAL_CALLABLES[name]
            if name in self.local_defs or name in IGNORED_LOCAL_CALLABLES:
                q = f"{self.modname}.{name}"
                return self.classify_dotted(node, q) if q in RAISING_FUNCS else None
            if hasattr(builtins, name):
                if name == "getattr":
                    return "getattr" if len(node.args) == 2 else None
                if name in RAISING_BUILTINS:
                    if name == "next" and len(node.args) == 2:
                        return None
                    if name in ("max", "min") and len(node.args) >= 2:
                        return None  # max(a, b): never over an empty iterable
                    return RAISING_BUILTINS[name]
                if name in TOTAL_BUILTINS:
                    return None
                raise Untranslatable(f"{self.rel}:{node.lineno}: builtin {name}() is not classified (raising or total)")
            raise Untranslatable(f"{self.rel}:{node.lineno}: call of unknown name {name}()")
        # (2) attribute chains rooted at an imported module / class
        d = self.dotted(f)
        if d is not None:
            root, attrs = d
            if root in self.imports and root not in ("self",):
                target = self.imports[root]
                try:
                    obj = importlib.import_module(target) if target in sys.modules or "." not in target else None
                except Exception:
                    obj = None
                is_module = target in sys.modules and not hasattr(sys.modules[target], "__mro__")
                # imported *module* or imported class used as a namespace (e.g. Body.build_table)
                if is_module or (root[:1].isupper() and root not in ("Path",)):
                    return self.classify_dotted(node, ".".join([target] + attrs))
        # (3) method calls: by method name
        if isinstance(f, ast.Attribute):
            m = f.attr
            if m == "run":
                if isinstance(f.value, ast.Name) and f.value.id in RUN_RECEIVERS:
                    return "directive.run"
                raise Untranslatable(f"{self.rel}:{node.lineno}: .run() on unexpected receiver {ast.unparse(f.value)}")
            if m == "render" and isinstance(f.value, ast.Call) and isinstance(f.value.func, ast.Attribute) \
                    and f.value.func.attr == "from_string":
                return "jinja.render"
            if m == "from_string":
                return None  # counted with .render
            if m == "parse" and isinstance(f.value, ast.Name) and f.value.id == "env":
                return "jinja.parse"
            if m == "parse" and isinstance(f.value, ast.Call) and isinstance(f.value.func, ast.Name) \
                    and f.value.func.id == "MockRSTParser":
                return "rst.parse"
            if m == "flush" and isinstance(f.value, ast.Name) and f.value.id == "decompressor":
                return "zlib.decompress"
            if m == "sort":
                return "sorted"
            if m == "copy" and isinstance(f.value, ast.Name) and f.value.id == "config":
                return "config.init"  # dataclasses.replace -> __post_init__ -> validate_fields
            if m in RAISING_METHODS:
                if m == "read" and not (isinstance(f.value, ast.Attribute) and f.value.attr == "stream"):
                    return None
                if m == "decode" and False:
                    return None
                return RAISING_METHODS[m]
            return None
        # (4) calls through subscripts / call results
        if isinstance(f, ast.Subscript):
            if isinstance(f.value, ast.Name) and f.value.id == "converters":
                return "attr_converter"
            if isinstance(f.value, ast.Name) and f.value.id == "tag_overrides":
                return None  # optional render callback of the HTML AST API; never passed by the parser
            if isinstance(f.value, ast.Attribute) and f.value.attr == "rules":
                return None  # renderer dispatch: internal render_* methods
            if isinstance(f.value, ast.Attribute) and f.value.attr == "metadata":
                return "validator"  # field.metadata["validator"](inst, field, value)
            raise Untranslatable(f"{self.rel}:{node.lineno}: call through subscript not understood: {ast.unparse(f)}")
        if isinstance(f, ast.Call):
            return None  # e.g. findall(node)(cls), deep_iterable(..)(inst, field, value): internal combinators
        raise Untranslatable(f"{self.rel}:{node.lineno}: call shape not understood: {ast.unparse(f)}")

    def classify_dotted(self, node, q):
        if q in RAISING_FUNCS:
            key = RAISING_FUNCS[q]
            if key == "config.init" and q.endswith("MdParserConfig") and not node.args and not node.keywords:
                return None  # all defaults
            if key == "token_line" and (len(node.args) >= 2 or any(k.arg == "default" for k in node.keywords)):
                return None  # a default is given: no ValueError
            if key == "re.compile":
                # a literal pattern is compiled when the module's tests run: only non-literal patterns are sites
                if node.args and isinstance(node.args[0], ast.Constant):
                    return None
                if node.args and isinstance(node.args[0], ast.Name) and node.args[0].id.isupper():
                    return None  # module-level compiled constant
            return key
        for t in TOTAL_FUNCS:
            if t.endswith(".*"):
                if q.startswith(t[:-1]) or q == t[:-2]:
                    return None
            elif q == t:
                return None
        raise Untranslatable(f"{self.rel}:{node.lineno}: call of {q} is not classified (raising or total)")

    def in_transform_phase(self):
        fn = self.func_name()
        return any(self.rel == f and fn.startswith(p) for f, p in TRANSFORM_PHASE)

    def visit_AnnAssign(self, node):
        # the annotation is not executed for locals: skip it (dict[str, ...] is not a subscript site)
        if node.value is not None:
            self.visit(node.value)
        self.visit(node.target)

    def visit_Subscript(self, node):
        if self.func_stack and self.in_transform_phase() and isinstance(node.ctx, (ast.Load, ast.Del)) \
                and not isinstance(node.slice, ast.Slice):
            txt = ast.unparse(node).replace("|", "/").replace(";", ",").replace('"', "'")
            self.add_site(node, "subscript:" + txt)
        self.generic_visit(node)

    def visit_Call(self, node):
        if self.func_stack and self.in_transform_phase() and isinstance(node.func, ast.Attribute):
            if node.func.attr == "remove":
                self.add_site(node, "list.remove:" + ast.unparse(node.func.value).replace("|", "/"))
            elif node.func.attr == "replace" and len(node.args) == 2 and "parent" in ast.unparse(node.func.value):
                self.add_site(node, "list.remove:" + ast.unparse(node.func.value).replace("|", "/") + ".replace")
        try:
            callee = self.classify_call(node)
        except Untranslatable as e:
            self.errors.append(str(e))
            callee = None
        if callee is not None:
            self.add_site(node, callee)
        self.generic_visit(node)


def scan_repo(repo: Path):
    if str(repo) not in sys.path:
        sys.path.insert(0, str(repo))
    files = sorted(p.relative_to(repo).as_posix() for p in (repo / "myst_parser").rglob("*.py"))
    sites, raises, classes, hashes = [], [], set(), {}
    errors = []
    global LAST_HANDLER_ROWS
    LAST_HANDLER_ROWS = []
    for rel in files:
        sc = ModuleScan(repo, rel)
        sc.visit(sc.tree)
        errors += sc.errors
        LAST_HANDLER_ROWS += sc.handler_rows
        sites += sc.sites
        raises += sc.raises
        classes |= sc.classes
        hashes[rel] = hashlib.sha256(sc.src.encode()).hexdigest()[:16]
    if errors:
        raise Untranslatable("%d source shape(s) not understood:\n" % len(errors) + "\n".join(errors[:40]))
    return sites, raises, classes, hashes


def parse_raises_table(coq_dir: Path):
    """Class names used by the hand-written tables in coq/Exc/ExcFlow.v (every string literal of the form
    of a dotted Python class name inside the 'raises' / 'declared' definitions)."""
    txt = (coq_dir / "Exc" / "ExcFlow.v").read_text()
    names = set()
    for m in re.finditer(r"\(\*\s*CLASSES-BEGIN\s*\*\)(.*?)\(\*\s*CLASSES-END\s*\*\)", txt, re.S):
        for s in re.findall(r'"([A-Za-z_][A-Za-z0-9_.]*)"', m.group(1)):
            names.add(s)
    return names


def resolve_qualname(q: str):
    if "." not in q:
        return getattr(builtins, q, None)
    mod, _, name = q.rpartition(".")
    try:
        m = importlib.import_module(mod)
        return getattr(m, name, None)
    except Exception:
        # class nested in a class
        mod2, _, outer = mod.rpartition(".")
        try:
            return getattr(getattr(importlib.import_module(mod2), outer), name, None)
        except Exception:
            return None


def render(sites, raises, classes, table_names):
    cls = set(classes)
    unresolved = []
    for q in sorted(table_names):
        c = resolve_qualname(q)
        if isinstance(c, type) and issubclass(c, BaseException):
            cls.add(c)
        elif q.rsplit(".", 1)[-1][:1].isupper():
            unresolved.append(q)
    # close under ancestors
    for c in list(cls):
        for a in c.__mro__:
            if a is not object:
                cls.add(a)
    L = []
    L.append("(* GENERATED by gen/c01_excflow.py from the myst_parser sources - do not edit. *)")
    L.append("From Coq Require Import List String.")
    L.append("From MV Require Import Exc.ExcDefs.")
    L.append("Import ListNotations.")
    L.append("Open Scope string_scope.")
    L.append("")
    L.append("Definition sites : list site := [")
    L.append(";\n".join(
        "  mk_site %s %s %d %s %d [%s]" % (coq_str(s["file"]), coq_str(s["func"]), s["line"], coq_str(s["callee"]), s["idx"],
                                           "; ".join(coq_str(h) for h in s["handlers"])) for s in sites))
    L.append("].")
    L.append("")
    L.append("Definition raise_stmts : list rstmt := [")
    L.append(";\n".join(
        "  mk_rstmt %s %s %d [%s] [%s]" % (coq_str(r["file"]), coq_str(r["func"]), r["line"],
                                           "; ".join(coq_str(c) for c in r["classes"]),
                                           "; ".join(coq_str(h) for h in r["handlers"])) for r in raises))
    L.append("].")
    L.append("")
    L.append("(* proper ancestors (method resolution order without the class itself and without object) *)")
    L.append("Definition mro : list (string * list string) := [")
    L.append(";\n".join("  (%s, [%s])" % (coq_str(qual(c)), "; ".join(coq_str(qual(a)) for a in c.__mro__[1:] if a is not object))
                        for c in sorted(cls, key=qual)))
    L.append("].")
    L.append("")
    L.append("(* every except clause / suppress block: classes caught, classes (re-)raised inside the handler body, and what")
    L.append("   the body does: raise | warn (a warning / system-message call) | silent (neither) *)")
    L.append("Definition handlers : list hrow := [")
    L.append(";\n".join(
        "  mk_hrow %s %s %d %d [%s] [%s] %s" % (coq_str(h["file"]), coq_str(h["func"]), h["line"], h["idx"],
                                              "; ".join(coq_str(c) for c in h["caught"]), "; ".join(coq_str(c) for c in h["reraised"]),
                                              coq_str(h["action"])) for h in LAST_HANDLER_ROWS))
    L.append("].")
    L.append("")
    L.append("Definition unresolved_classes : list string := [%s]." % "; ".join(coq_str(u) for u in unresolved))
    L.append(f"Definition n_sites : nat := {len(sites)}.")
    L.append(f"Definition n_raise_stmts : nat := {len(raises)}.")
    return "\n".join(L) + "\n"


def generate(repo: Path, coq_dir: Path):
    sites, raises, classes, hashes = scan_repo(repo)
    names = parse_raises_table(coq_dir)
    return render(sites, raises, classes, names), sites, raises, hashes


if __name__ == "__main__":
    repo = Path(sys.argv[1] if len(sys.argv) > 1 else "/repo")
    text, sites, raises, _ = generate(repo, Path(__file__).resolve().parent.parent / "coq")
    for s in sites:
        print(f'{s["file"]}:{s["line"]} {s["func"]} {s["callee"]}#{s["idx"]} <- {s["handlers"]}')
    print(len(sites), "sites;", len(raises), "raise statements")
