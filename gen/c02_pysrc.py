"""Source-translation tie for C02/C03 (round 3): myst_parser/mdit_to_docutils/base.py -> coq/Gen/RenderSrc.v

The straight-line render methods of the static syntax are translated STATEMENT BY STATEMENT into programs over the
instruction set of coq/Doc/Prog.v (the same vocabulary as the hand-written coq/Doc/Render.v); coq/Doc/RenderSrcProofs.v
proves each regenerated definition equal to the hand-written one (`reflexivity`: the two terms are convertible), so the
property theorems are re-checked against what base.py says now (C02_faithful_src, C03_single_occurrence_src ...).
An edit of a translated method changes the generated term (the equality proof fails: discharged=0) or leaves the
subset (GenError: the tie is reported broken).

Statement subset (anything else raises GenError):
  VAR = nodes.CLS(rawsource[, text], **kw)      a new node object (TextElement with a text argument: new_text_elem)
  VAR[KEY] = EXPR / if TEST: VAR[KEY] = EXPR    attribute (before copy_attributes: the initial dict, source order)
  VAR["classes"] += [..] / .append(..)          classes
  self.copy_attributes(token, VAR, keys[, aliases=..][, converters=..])
  self.add_line_and_source_path(VAR, token)     no effect on the model (line / source are not modelled)
  with self.current_node_context(VAR, append=True): BODY
  self.render_children(token)
  self.current_node.append(VAR | nodes.Text(E) | nodes.raw("", S, format=F))
  self.create_warning(MSG, MystWarnings.X, line=.., append_to=self.current_node)
  NAME = EXPR / if KEY in token.attrs: NAME = DICT.get(str(token.attrs[KEY]), NAME)
  for KEY, VALUE in token.attrs.items(): if/elif/else/continue   (copy_attributes)
  RESULT = ""; for T in TOKENS or []: if/elif/else RESULT += EXPR; return RESULT   (renderInlineAsText)
Translator-level rules (listed in TRUSTED of props/C02.py):
  * a test on state outside the model (ASSUMED_FALSE) is constant under the model's static configuration: its branch is dropped;
  * a branch guarded by a token-only test whose body is outside the model, and attribute keys that have a converter, are
    hoisted to an `ENotModelled` guard at the start of the method;
  * complex methods (heading, table, clean_astext, current_node_context, the two dispatch loops) are pinned by their
    normalised source text (SHAPES): an edit is reported as a broken tie, not translated.
"""
from __future__ import annotations

import ast
import hashlib

from lib import common

BASE = "myst_parser/mdit_to_docutils/base.py"
WARN = "myst_parser/warnings_.py"


class GenError(Exception):
    pass


def need(c, msg):
    if not c:
        raise GenError(msg)


def S(s: str) -> str:
    """a Python string as a Gallina `str` (list of code points)"""
    return "[" + "; ".join(str(ord(c)) for c in s) + "]" if s else "[]"


def const_str(e):
    return e.value if isinstance(e, ast.Constant) and isinstance(e.value, str) else None


# tests on state the model does not have: constant False under the static configuration of the model
ASSUMED_FALSE = {
    "self.md_env.get('relative-images', None) is not None and (not REGEX_SCHEME.match(destination))",
    "self.md_config.links_external_new_tab",
    "conversion is not None",
    "implicit_text is not None",
}

# docutils tag name -> constant of coq/Doc/Render.v (only for readability of the generated file; checked by the proofs)
TEXT_ELEMENT = None


def is_text_element(cls: str) -> bool:
    from docutils import nodes
    c = getattr(nodes, cls, None)
    need(c is not None, f"unknown docutils node class {cls}")
    return issubclass(c, nodes.TextElement)


def warning_tags(repo):
    mod = ast.parse((repo / WARN).read_text())
    out = {}
    for n in ast.walk(mod):
        if isinstance(n, ast.ClassDef) and n.name == "MystWarnings":
            for s in n.body:
                if isinstance(s, ast.Assign) and len(s.targets) == 1 and isinstance(s.targets[0], ast.Name) \
                        and const_str(s.value) is not None:
                    out[s.targets[0].id] = "myst." + s.value.value
    need(out, "MystWarnings not found")
    return out


class Node:
    def __init__(self, oid, tag, attrs, kids, whole=None):
        self.oid, self.tag = oid, tag
        self.attrs = attrs          # python list of (key, valueterm) or a Coq term (str) once opaque
        self.kids = kids            # Coq term
        self.whole = whole          # Coq variable holding the untouched node (new_text_elem), else None
        self.copied = False

    def attrs_term(self):
        if isinstance(self.attrs, str):
            return self.attrs
        return "[" + "; ".join(f"({S(k)}, {v})" for k, v in self.attrs) + "]"

    def term(self):
        if self.whole is not None:
            return self.whole
        return f"Elem {self.oid} {S(self.tag)} {self.attrs_term()} {self.kids}"


class Method:
    """one straight-line render method -> a Gallina term of type prog (free variables: t ks)"""

    def __init__(self, fn: ast.FunctionDef, wtags):
        self.fn, self.wtags = fn, wtags
        self.nodes: dict[str, Node] = {}
        self.lets: dict[str, str] = {}       # python local -> Coq variable
        self.guards: list[str] = []          # hoisted ENotModelled guards
        self.consts: dict[str, ast.expr] = {}  # locals bound to a literal list of strings
        self.fresh = 0

    # ---------------- expressions (strings)
    def expr(self, e) -> str:
        c = const_str(e)
        if c is not None:
            return S(c)
        u = ast.unparse(e)
        if u == "token.content":
            return "(content t)"
        if u == "token.markup":
            return "(markup t)"
        if isinstance(e, ast.Name) and e.id in self.lets:
            return self.lets[e.id]
        if u in ("cast(str, token.attrGet('href') or '')",):
            return "(href_of t)"
        if isinstance(e, ast.Call) and ast.unparse(e.func) == "cast" and len(e.args) == 2:
            return self.expr(e.args[1])
        if isinstance(e, ast.BoolOp) and isinstance(e.op, ast.Or) and len(e.values) == 2 and const_str(e.values[1]) == "":
            a = e.values[0]
            if isinstance(a, ast.Call) and ast.unparse(a.func) == "token.attrGet" and len(a.args) == 1:
                k = const_str(a.args[0])
                need(k is not None, "attrGet key")
                return f"(match attr_get t {S(k)} with Some s => s | None => [] end)"
        if u == "self.renderInlineAsText(token.children or [])":
            return "(flat_map inline_as_text_src ks)"
        raise GenError(f"expression {u[:100]}")

    def truthy(self, e):
        """(condition-is-EMPTY term) for a string-valued test: `if STR:` is `if is_empty STR then ELSE else THEN`"""
        return f"is_empty {self.expr(e)}"

    # ---------------- statements
    def new_var(self, base):
        self.fresh += 1
        return f"{base}{self.fresh}"

    def ctor(self, call: ast.Call):
        f = ast.unparse(call.func)
        need(f.startswith("nodes."), f"constructor {f}")
        cls = f[6:]
        kw = []
        for k in call.keywords:
            need(k.arg is not None, "**kwargs")
            kw.append((k.arg, "[" + self.expr(k.value) + "]"))
        text = None
        if is_text_element(cls) and len(call.args) >= 2:
            need(len(call.args) == 2, f"{cls} arguments")
            text = self.expr(call.args[1])
        else:
            need(len(call.args) <= 1, f"{cls} arguments")
        return cls, kw, text

    def stmts(self, body, k: str) -> str:
        if not body:
            return k
        s, rest = body[0], body[1:]
        if isinstance(s, ast.Expr) and const_str(s.value) is not None:
            return self.stmts(rest, k)
        u = ast.unparse(s)
        # --- VAR = nodes.CLS(...)
        if isinstance(s, ast.Assign) and len(s.targets) == 1 and isinstance(s.targets[0], ast.Name) \
                and isinstance(s.value, ast.Call) and ast.unparse(s.value.func).startswith("nodes."):
            var = s.targets[0].id
            cls, kw, text = self.ctor(s.value)
            if text is not None:
                n = self.new_var("n")
                self.nodes[var] = Node(f"(oid_of {n})", cls, kw, f"(kids_of {n})", whole=n)
                return f"new_text_elem {S(cls)} {self.nodes[var].attrs_term()} {text} (fun {n} =>\n  {self.stmts(rest, k)})"
            o = self.new_var("o")
            self.nodes[var] = Node(o, cls, kw, "[]")
            return f"{o} <- alloc ;\n  {self.stmts(rest, k)}"
        # --- plain local
        if isinstance(s, ast.Assign) and len(s.targets) == 1 and isinstance(s.targets[0], ast.Name):
            var = s.targets[0].id
            if u == "implicit_text: str | None = None" or u == "implicit_text = None":
                return self.stmts(rest, k)
            if isinstance(s.value, (ast.List, ast.Tuple)) and all(const_str(x) is not None for x in s.value.elts):
                self.consts[var] = s.value
                return self.stmts(rest, k)
            v = self.new_var(var)
            val = self.expr(s.value)
            self.lets[var] = v
            return f"let {v} := {val} in\n  {self.stmts(rest, k)}"
        if isinstance(s, ast.AnnAssign) and isinstance(s.target, ast.Name) and ast.unparse(s.value) == "None":
            return self.stmts(rest, k)
        # --- VAR[KEY] = EXPR
        if isinstance(s, ast.Assign) and len(s.targets) == 1 and isinstance(s.targets[0], ast.Subscript):
            return self.set_attr(s, None, rest, k)
        if isinstance(s, ast.AugAssign) and isinstance(s.target, ast.Subscript):
            tgt = s.target
            need(isinstance(tgt.value, ast.Name) and tgt.value.id in self.nodes and const_str(tgt.slice) == "classes",
                 f"augmented assignment {u}")
            need(isinstance(s.value, ast.List) and all(const_str(x) is not None for x in s.value.elts), f"classes value {u}")
            nd = self.nodes[tgt.value.id]
            need(not nd.copied and isinstance(nd.attrs, list), "classes after copy_attributes")
            nd.attrs.append(("classes", "[" + "; ".join(S(const_str(x)) for x in s.value.elts) + "]"))
            return self.stmts(rest, k)
        # --- if ...
        if isinstance(s, ast.If):
            t = ast.unparse(s.test)
            if t in ASSUMED_FALSE:
                need(not s.orelse or True, "")
                return self.stmts(list(s.orelse) + rest, k)
            # if "k" in token.attrs: NAME = DICT.get(str(token.attrs["k"]), NAME)
            m = self.attr_dict_idiom(s)
            if m is not None:
                var, key, dct, default = m
                v = self.new_var(var)
                old = self.lets[var]
                self.lets[var] = v
                d = "[" + "; ".join(f"({S(a)}, {S(b)})" for a, b in dct) + "]"
                need(default == var, "dict default")
                return (f"let {v} := match attr_get t {S(key)} with\n"
                        f"    | Some s => match assoc s {d} with Some e => e | None => {old} end\n"
                        f"    | None => {old}\n    end in\n  {self.stmts(rest, k)}")
            # if STR: VAR[KEY] = EXPR   (before copy_attributes)
            if len(s.body) == 1 and not s.orelse and isinstance(s.body[0], ast.Assign) \
                    and isinstance(s.body[0].targets[0], ast.Subscript):
                return self.set_attr(s.body[0], s.test, rest, k)
            # if "k" in VAR and "c" not in VAR["classes"]: VAR["classes"].append("c")   (after copy_attributes)
            m = self.class_if_idiom(s)
            if m is not None:
                var, key, cls = m
                nd = self.nodes[var]
                need(nd.copied, "class idiom before copy_attributes")
                a2 = self.new_var("a")
                old = nd.attrs_term()
                nd.attrs = a2
                return (f"let {a2} := if has_key {S(key)} {old} && negb (mem_str {S(cls)} (classes_of {old}))\n"
                        f"            then add_classes {old} [{S(cls)}] else {old} in\n  {self.stmts(rest, k)}")
            # a token-only guard around code outside the model: hoisted
            if t.startswith("'") and t.endswith("in token.attrs") and not s.orelse:
                key = t.split("'")[1]
                self.guards.append(f"has_key {S(key)} (attrs t)")
                return self.stmts(rest, k)
            raise GenError(f"if statement: {t[:100]}")
        # --- calls
        if isinstance(s, ast.Expr) and isinstance(s.value, ast.Call):
            c = s.value
            f = ast.unparse(c.func)
            if f == "self.add_line_and_source_path":
                return self.stmts(rest, k)
            if f == "self.copy_attributes":
                return self.copy_attrs(c, rest, k)
            if f == "self.render_children":
                need(ast.unparse(c.args[0]) == "token" and len(c.args) == 1, "render_children argument")
                tail = self.stmts(rest, k)
                return "render_children ks" if tail == "Done" else f"seq (render_children ks) ({tail})"
            if f == "self.current_node.append":
                need(len(c.args) == 1 and not c.keywords, "append arguments")
                return self.append(c.args[0], rest, k)
            if f == "self.create_warning":
                kws = {x.arg: ast.unparse(x.value) for x in c.keywords}
                need(kws.get("append_to") == "self.current_node", "create_warning append_to")
                need(len(c.args) == 2 and ast.unparse(c.args[1]).startswith("MystWarnings."), "create_warning arguments")
                tag = self.wtags.get(ast.unparse(c.args[1])[13:])
                need(tag is not None, "unknown warning")
                w = self.new_var("w")
                return f"{w} <- create_warning {S(tag)} ;\n  Append {w} ({self.stmts(rest, k)})"
            raise GenError(f"call {f}")
        # --- with self.current_node_context(VAR, append=True):
        if isinstance(s, ast.With) and len(s.items) == 1:
            c = s.items[0].context_expr
            need(isinstance(c, ast.Call) and ast.unparse(c.func) == "self.current_node_context" and len(c.args) == 1
                 and isinstance(c.args[0], ast.Name) and [ast.unparse(x.value) for x in c.keywords if x.arg == "append"] == ["True"]
                 and len(c.keywords) == 1, f"with statement {ast.unparse(c)[:80]}")
            nd = self.nodes.get(c.args[0].id)
            need(nd is not None and nd.whole is None, "context on an unknown node")
            body = self.stmts(list(s.body), "Done")
            return (f"Ctx {nd.oid} {S(nd.tag)} {nd.attrs_term()} {nd.kids} ({body})\n"
                    f"    (fun _ => {self.stmts(rest, k)})")
        if isinstance(s, ast.Return) and s.value is None:
            need(not rest, "code after return")
            return k
        raise GenError(f"statement {u[:100]}")

    def attr_dict_idiom(self, s):
        if len(s.body) != 1 or s.orelse or not isinstance(s.body[0], ast.Assign):
            return None
        t = s.test
        if not (isinstance(t, ast.Compare) and len(t.ops) == 1 and isinstance(t.ops[0], ast.In)
                and ast.unparse(t.comparators[0]) == "token.attrs" and const_str(t.left) is not None):
            return None
        key = const_str(t.left)
        a = s.body[0]
        if not (isinstance(a.targets[0], ast.Name) and isinstance(a.value, ast.Call) and isinstance(a.value.func, ast.Attribute)
                and a.value.func.attr == "get" and isinstance(a.value.func.value, ast.Dict)):
            return None
        d = a.value.func.value
        need(len(a.value.args) == 2 and ast.unparse(a.value.args[0]) == f"str(token.attrs['{key}'])", "dict.get arguments")
        need(isinstance(a.value.args[1], ast.Name), "dict.get default")
        pairs = [(const_str(x), const_str(y)) for x, y in zip(d.keys, d.values)]
        need(all(x is not None and y is not None for x, y in pairs), "dict literal")
        return a.targets[0].id, key, pairs, a.value.args[1].id

    def class_if_idiom(self, s):
        t = s.test
        if not (isinstance(t, ast.BoolOp) and isinstance(t.op, ast.And) and len(t.values) == 2 and len(s.body) == 1 and not s.orelse):
            return None
        a, b = t.values
        if not (isinstance(a, ast.Compare) and isinstance(a.ops[0], ast.In) and isinstance(a.comparators[0], ast.Name)
                and a.comparators[0].id in self.nodes and const_str(a.left) is not None):
            return None
        var = a.comparators[0].id
        if not (isinstance(b, ast.Compare) and isinstance(b.ops[0], ast.NotIn) and const_str(b.left) is not None
                and ast.unparse(b.comparators[0]) == f"{var}['classes']"):
            return None
        if ast.unparse(s.body[0]) != f"{var}['classes'].append('{const_str(b.left)}')":
            return None
        return var, const_str(a.left), const_str(b.left)

    def set_attr(self, a: ast.Assign, test, rest, k):
        tgt = a.targets[0]
        need(isinstance(tgt.value, ast.Name) and tgt.value.id in self.nodes, f"subscript target {ast.unparse(tgt)}")
        key = const_str(tgt.slice)
        need(key is not None, "attribute key")
        nd = self.nodes[tgt.value.id]
        need(nd.whole is None or True, "")
        val = "[" + self.expr(a.value) + "]"
        if not nd.copied:
            need(isinstance(nd.attrs, list), "attribute after a conditional attribute")
            if test is None:
                nd.attrs.append((key, val))
            else:
                before = nd.attrs_term()
                nd.attrs = list(nd.attrs) + [(key, val)]
                after = nd.attrs_term()
                nd.attrs = f"(if {self.truthy(test)} then {before} else {after})"
            return self.stmts(rest, k)
        need(test is None, "conditional attribute after copy_attributes")
        old = nd.attrs_term()
        nd.attrs = f"(aset {S(key)} {val} {old})"
        if key == "refuri":      # docutils inspects refuri of registered objects: kept in the side table as well
            return f"_ <- set_refuri {nd.oid} {S(nd.tag)} {self.expr(a.value)} ;\n  {self.stmts(rest, k)}"
        return self.stmts(rest, k)

    def copy_attrs(self, c: ast.Call, rest, k):
        need(len(c.args) >= 2 and ast.unparse(c.args[0]) == "token" and isinstance(c.args[1], ast.Name), "copy_attributes arguments")
        nd = self.nodes.get(c.args[1].id)
        need(nd is not None and not nd.copied, "copy_attributes target")
        kws = {x.arg: x.value for x in c.keywords}
        keys_e = c.args[2] if len(c.args) > 2 else kws.pop("keys", None)
        if isinstance(keys_e, ast.Name) and keys_e.id in self.consts:
            keys_e = self.consts[keys_e.id]
        need(keys_e is not None and isinstance(keys_e, (ast.Tuple, ast.List)), "copy_attributes keys")
        keys = [const_str(x) for x in keys_e.elts]
        need(all(x is not None for x in keys), "keys literal")
        aliases = []
        if "aliases" in kws:
            d = kws.pop("aliases")
            need(isinstance(d, ast.Dict), "aliases literal")
            aliases = [(const_str(x), const_str(y)) for x, y in zip(d.keys, d.values)]
            need(all(x is not None and y is not None for x, y in aliases), "aliases literal")
        conv = []
        if "converters" in kws:
            d = kws.pop("converters")
            need(isinstance(d, ast.Dict), "converters literal")
            conv = [const_str(x) for x in d.keys]
            need(all(x is not None for x in conv), "converters literal")
        need(not kws, f"copy_attributes keyword {list(kws)}")
        if conv:
            # keys with a converter (and their aliases) are outside the model: hoisted guard, then the call without them
            gone = conv + [a for a, b in aliases if b in conv]
            self.guards.append("existsb (fun k => has_key k (attrs t)) [" + "; ".join(S(x) for x in gone) + "]")
            keys = [x for x in keys if x not in conv]
            aliases = [(a, b) for a, b in aliases if b not in conv]
        a, m = self.new_var("a"), self.new_var("msgs")
        call = (f"copy_attributes_src t {nd.oid} {S(nd.tag)} [" + "; ".join(S(x) for x in keys) + "] ["
                + "; ".join(f"({S(x)}, {S(y)})" for x, y in aliases) + f"] {nd.attrs_term()}")
        nd.copied = True
        nd.attrs = a
        nd.kids = m if nd.kids == "[]" else f"({nd.kids} ++ {m})"
        nd.whole = None if nd.whole is None else None
        return f"'({a}, {m}) <- {call} ;\n  {self.stmts(rest, k)}"

    def append(self, e, rest, k):
        if isinstance(e, ast.Name):
            nd = self.nodes.get(e.id)
            need(nd is not None, f"append of unknown {e.id}")
            return f"Append ({nd.term()}) ({self.stmts(rest, k)})" if nd.whole is None or nd.copied \
                else f"Append {nd.whole} ({self.stmts(rest, k)})"
        need(isinstance(e, ast.Call), "append argument")
        f = ast.unparse(e.func)
        if f == "nodes.Text":
            need(len(e.args) == 1 and not e.keywords, "Text arguments")
            o = self.new_var("o")
            return f"{o} <- alloc ;\n  Append (Text {o} {self.expr(e.args[0])}) ({self.stmts(rest, k)})"
        cls, kw, text = self.ctor(e)
        need(text is not None, f"append of {cls} without text")
        n = self.new_var("n")
        attrs = "[" + "; ".join(f"({S(a)}, {v})" for a, v in kw) + "]"
        return f"new_text_elem {S(cls)} {attrs} {text} (fun {n} =>\n  Append {n} ({self.stmts(rest, k)}))"

    def translate(self) -> str:
        need([a.arg for a in self.fn.args.args][:2] == ["self", "token"], f"{self.fn.name} signature")
        body = self.stmts(list(self.fn.body), "Done")
        for g in reversed(self.guards):
            body = f"if {g} then Fail ENotModelled else\n  {body}"
        return body


# ------------------------------------------------------------------ copy_attributes (the loop)
EXPECTED_COPY_PREFIX = ["if converters is None:\n    converters = {}", "if aliases is None:\n    aliases = {}"]


def copy_attributes_src(fn: ast.FunctionDef) -> str:
    body = [s for s in fn.body if not (isinstance(s, ast.Expr) and const_str(s.value) is not None)]
    need([a.arg for a in fn.args.args] == ["self", "token", "node", "keys"] and
         [a.arg for a in fn.args.kwonlyargs] == ["converters", "aliases"], "copy_attributes signature")
    need([ast.unparse(s) for s in body[:2]] == EXPECTED_COPY_PREFIX, "copy_attributes defaults")
    need(len(body) == 3 and isinstance(body[2], ast.For), "copy_attributes: one loop expected")
    loop = body[2]
    need(ast.unparse(loop.target) == "(key, value)" and ast.unparse(loop.iter) == "token.attrs.items()" and not loop.orelse,
         "copy_attributes loop header")
    REC = "copy_loop_src o tg keys aliases conv r"

    def test(t):
        u = ast.unparse(t)
        if u == "key not in keys":
            return "negb (mem_str key keys)"
        if u == "key in converters":
            return "mem_str key conv"
        if isinstance(t, ast.Compare) and len(t.ops) == 1 and isinstance(t.ops[0], ast.Eq) and ast.unparse(t.left) == "key" \
                and const_str(t.comparators[0]) is not None:
            return f"str_eqb key {S(const_str(t.comparators[0]))}"
        if isinstance(t, ast.BoolOp):
            op = "&&" if isinstance(t.op, ast.And) else "||"
            return "(" + f" {op} ".join(test(v) for v in t.values) + ")"
        if isinstance(t, ast.UnaryOp) and isinstance(t.op, ast.Not) and ast.unparse(t.operand) == "value":
            return "is_empty value"
        raise GenError(f"copy_attributes test {u}")

    def go(stmts, key, a, msgs):
        """statements of one iteration -> fop term; falls through to the next iteration"""
        if not stmts:
            return f"{REC} {a} {msgs}"
        s, rest = stmts[0], stmts[1:]
        u = ast.unparse(s)
        if u == "key = aliases.get(key, key)":
            return f"let key := match assoc key aliases with Some k' => k' | None => key end in\n      {go(rest, key, a, msgs)}"
        if isinstance(s, ast.Continue):
            return f"{REC} {a} {msgs}"
        if isinstance(s, ast.If):
            then = go(list(s.body) + ([] if ends(s.body) else rest), key, a, msgs)
            els = go(list(s.orelse) + rest, key, a, msgs)
            return f"if {test(s.test)} then {then}\n      else {els}"
        if u == "node['classes'].extend(str(value).split())":
            return go(rest, key, f"(add_classes {a} (o_split OR value))", msgs)
        if u == "name = nodes.fully_normalize_name(str(value))":
            need([ast.unparse(x) for x in rest[:2]] == ["node['names'].append(name)",
                                                       "self.document.note_explicit_target(node, node)"],
                 "copy_attributes id branch")
            return (f"_ <-- add_name o tg (o_norm_name OR value) ;;\n        ms <-- note_target' C OR o tg true ;;\n        "
                    + go(rest[2:], key, a, f"({msgs} ++ ms)"))
        if isinstance(s, ast.Try):
            # value = converters[key](str(value)) / except ValueError: warning; continue  - outside the model
            need(ast.unparse(s.body[0]) == "value = converters[key](str(value))", "converter call")
            return "ffail ENotModelled"
        if u == "node[key] = value":
            return go(rest, key, f"(aset key [value] {a})", msgs)
        raise GenError(f"copy_attributes statement {u[:80]}")

    def ends(b):
        return bool(b) and isinstance(b[-1], ast.Continue)

    step = go(list(loop.body), "key", "a", "msgs")
    return ("Fixpoint copy_loop_src (o : N) (tg : str) (keys : list str) (aliases : list (str * str)) (conv : list str)\n"
            "         (l : list (str * str)) (a : nattrs) (msgs : list node) : fop (nattrs * list node) :=\n"
            "  match l with\n  | [] => fret (a, msgs)\n  | (key, value) :: r =>\n      " + step + "\n  end.\n\n"
            "Definition copy_attributes_src (t : tok) (o : N) (tg : str) (keys : list str) (aliases : list (str * str))\n"
            "           (a : nattrs) : fop (nattrs * list node) :=\n"
            "  copy_loop_src o tg keys aliases [] (attrs t) a [].\n")


# ------------------------------------------------------------------ renderInlineAsText
def inline_as_text_src(fn: ast.FunctionDef) -> str:
    body = [s for s in fn.body if not (isinstance(s, ast.Expr) and const_str(s.value) is not None)]
    need([a.arg for a in fn.args.args] == ["self", "tokens"], "renderInlineAsText signature")
    need(len(body) == 3 and ast.unparse(body[0]) == "result = ''" and isinstance(body[1], ast.For)
         and ast.unparse(body[2]) == "return result", "renderInlineAsText: result = ''; for ...; return result")
    loop = body[1]
    need(ast.unparse(loop.target) == "token" and ast.unparse(loop.iter) == "tokens or []" and not loop.orelse,
         "renderInlineAsText loop header")

    def val(s):
        need(isinstance(s, ast.AugAssign) and isinstance(s.op, ast.Add) and ast.unparse(s.target) == "result",
             f"renderInlineAsText statement {ast.unparse(s)[:60]}")
        u = ast.unparse(s.value)
        c = const_str(s.value)
        if c is not None:
            return S(c)
        if u == "token.content":
            return "content t"
        if u == "self.renderInlineAsText(token.children or [])":
            return "flat_map inline_as_text_src kids"
        raise GenError(f"renderInlineAsText value {u}")

    def chain(stmts):
        need(len(stmts) == 1, "renderInlineAsText: one statement per branch")
        s = stmts[0]
        if isinstance(s, ast.If):
            t = s.test
            need(isinstance(t, ast.Compare) and isinstance(t.ops[0], ast.Eq) and ast.unparse(t.left) == "token.type"
                 and const_str(t.comparators[0]) is not None, "renderInlineAsText test")
            need(len(s.body) == 1 and s.orelse, "renderInlineAsText branch")
            return f"if str_eqb (ty t) {S(const_str(t.comparators[0]))} then {val(s.body[0])}\n      else {chain(list(s.orelse))}"
        return val(s)

    return ("Fixpoint inline_as_text_src (r : rt) : str :=\n  match r with\n  | RT t _ kids =>\n      "
            + chain(list(loop.body)) + "\n  end.\n")


# ------------------------------------------------------------------ render_table_row (a loop over the cells)
EXPECTED_ROW = """row = nodes.row()
with self.current_node_context(row, append=True):
    for child in token.children or []:
        entry = nodes.entry()
        para = nodes.paragraph(child.children[0].content if child.children else '')
        style = child.attrGet('style')
        if style and style in (%s):
            entry['classes'].append(f'text-{cast(str, style).split(':')[1]}')
        with self.current_node_context(entry, append=True), self.current_node_context(para, append=True):
            self.render_children(child)"""


def table_row_src(fn: ast.FunctionDef) -> str:
    """render_table_row: the statements are fixed up to the tuple of alignment styles; the class each style produces is
    computed with the f-string of the source"""
    fn = drop_lines(fn)
    body = [s for s in fn.body if not (isinstance(s, ast.Expr) and const_str(s.value) is not None)]
    need(len(body) == 2 and isinstance(body[1], ast.With), "render_table_row shape")
    loop = body[1].body[0]
    need(isinstance(loop, ast.For) and len(loop.body) == 5 and isinstance(loop.body[3], ast.If), "render_table_row loop")
    t = loop.body[3].test
    need(isinstance(t, ast.BoolOp) and isinstance(t.values[1], ast.Compare) and isinstance(t.values[1].comparators[0], ast.Tuple),
         "render_table_row style test")
    styles = [const_str(x) for x in t.values[1].comparators[0].elts]
    need(all(x is not None for x in styles), "style literals")
    got = "\n".join(ast.unparse(x) for x in body)
    need(got == EXPECTED_ROW % ", ".join(repr(x) for x in styles), "render_table_row statements changed:\n" + got)
    table = "[" + "; ".join(f"({S(x)}, {S('text-' + x.split(':')[1])})" for x in styles) + "]"
    return ("Definition render_table_cell_src (r : rt) : prog :=\n"
            "  entry <- alloc ;\n  para <- alloc ;\n"
            f"  let cls := match attr_get (rt_tok r) {S('style')} with\n"
            f"             | Some s => match assoc s {table} with Some c => [({S('classes')}, [c])] | None => [] end\n"
            "             | None => []\n             end in\n"
            f"  Ctx entry {S('entry')} cls []\n"
            f"      (Ctx para {S('paragraph')} [] [] (render_children (rt_kids r)) (fun _ => Done))\n"
            "      (fun _ => Done).\n\n"
            "Definition render_table_row_src (r : rt) : prog :=\n"
            f"  row <- alloc ;\n  Ctx row {S('row')} [] [] (seq_all (map render_table_cell_src (rt_kids r))) (fun _ => Done).\n")


# ------------------------------------------------------------------ clean_astext
def clean_astext_src(fn: ast.FunctionDef) -> str:
    """node = node.deepcopy(); [blank image alts]; remove every node of some classes; return node.astext()
    -> the text of the node where elements of the removed classes contribute nothing"""
    body = [s for s in fn.body if not (isinstance(s, ast.Expr) and const_str(s.value) is not None)]
    need([a.arg for a in fn.args.args] == ["node"], "clean_astext signature")
    need(body and ast.unparse(body[0]) == "node = node.deepcopy()", "clean_astext must work on a deep copy (first statement)")
    need(ast.unparse(body[-1]) == "return node.astext()", "clean_astext must return node.astext()")
    removed = []
    for s in body[1:-1]:
        need(isinstance(s, ast.For) and isinstance(s.target, ast.Name) and len(s.body) == 1 and not s.orelse, "clean_astext loop")
        v, it, b = s.target.id, ast.unparse(s.iter), ast.unparse(s.body[0])
        if it == "findall(node)(nodes.image)" and b == f"{v}['alt'] = ''":
            continue                      # an attribute, not text: no effect on astext()
        need(it.startswith("list(findall(node)(nodes.") and it.endswith("))") and b == f"{v}.parent.remove({v})",
             f"clean_astext loop {it} / {b}")
        removed.append(it[len("list(findall(node)(nodes."):-2])
    chain = "".join(f"if str_eqb tg {S(c)} then Some []\n      else " for c in removed)
    return ("Fixpoint astext_clean_src (n : node) : option str :=\n  match n with\n  | Text _ s => Some s\n  | Elem _ tg _ cs =>\n      "
            + chain + "(fix go (l : list node) : option str :=\n              match l with\n              | [] => Some []\n"
            "              | c :: r => match astext_clean_src c, go r with\n                          | Some a, Some b => Some (a ++ b)\n"
            "                          | _, _ => None\n                          end\n              end) cs\n  end.\n")


# ------------------------------------------------------------------ generate_heading_target (registry part)
def heading_target_src(fn: ast.FunctionDef) -> str:
    body = [ast.unparse(s) for s in fn.body if not (isinstance(s, ast.Expr) and const_str(s.value) is not None)]
    need([a.arg for a in fn.args.args] == ["self", "token", "level", "node", "title_node"], "generate_heading_target signature")
    RULES = {
        "name = nodes.fully_normalize_name(implicit_text)": "let name := o_norm_name OR implicit_text in\n      ",
        "explicit_names = node['names']": "explicit_names <-- get_names o tg ;;\n      ",
        "node['names'] = [name]": "_ <-- set_names o tg [name] ;;\n      ",
        "self.document.note_implicit_target(node, node)": "ms <-- note_target' C OR o tg false ;;\n      ",
        "node['names'] = explicit_names + node['names']":
            "now <-- get_names o tg ;;\n      _ <-- set_names o tg (explicit_names ++ now) ;;\n      ",
    }
    need(body and body[0] == "implicit_text = clean_astext(title_node)", "generate_heading_target: first statement")
    out = ""
    i = 1
    while i < len(body) and body[i] in RULES:
        out += RULES[body[i]]
        i += 1
    # the slug part runs only for level <= heading_anchors (0 in the model's static configuration)
    need(i < len(body) and body[i] == "if level > self.md_config.heading_anchors:\n    return",
         f"generate_heading_target statement: {body[i][:80] if i < len(body) else 'end'}")
    need("ms <--" in out, "generate_heading_target: no target registration")
    return ("Definition heading_target_src (o : N) (tg : str) (title : node) : fop (list node) :=\n"
            "  match astext_clean_src title with\n  | None => ffail ENotModelled\n  | Some implicit_text =>\n      "
            + out + "fret ms\n  end.\n")


# ------------------------------------------------------------------ templates: statements fixed up to named holes
import re as _re


def match_template(text: str, template: str, what: str) -> dict:
    pat = _re.escape(template)
    pat = _re.sub(r"<<(\w+)>>", lambda m: f"(?P<{m.group(1)}>.+?)", pat.replace(r"\<\<", "<<").replace(r"\>\>", ">>"))
    m = _re.fullmatch(pat, text, _re.S)
    need(m is not None, f"{what}: the statements are not the expected ones:\n{text}")
    return m.groupdict()


def str_tuple(src: str, what: str):
    e = ast.parse(src, mode="eval").body
    need(isinstance(e, (ast.Tuple, ast.List)) and all(const_str(x) is not None for x in e.elts), f"{what}: literal strings expected")
    return "[" + "; ".join(S(const_str(x)) for x in e.elts) + "]"


def int_cmp(src: str, names: dict, what: str) -> str:
    """a comparison / conjunction over the integers in `names` (python name -> Coq variable)"""
    e = ast.parse(src, mode="eval").body

    def term(x):
        if isinstance(x, ast.Name) and x.id in names:
            return names[x.id]
        if isinstance(x, ast.Constant) and isinstance(x.value, int):
            return str(x.value)
        if isinstance(x, ast.BinOp) and isinstance(x.op, ast.Add):
            return f"({term(x.left)} + {term(x.right)})"
        raise GenError(f"{what}: term {ast.unparse(x)}")

    def go(x):
        if isinstance(x, ast.BoolOp) and isinstance(x.op, ast.And):
            return "(" + " && ".join(go(v) for v in x.values) + ")"
        if isinstance(x, ast.Compare) and len(x.ops) == 1:
            a, b = term(x.left), term(x.comparators[0])
            op = x.ops[0]
            if isinstance(op, ast.Gt):
                return f"({b} <? {a})"
            if isinstance(op, ast.Lt):
                return f"({a} <? {b})"
            if isinstance(op, ast.LtE):
                return f"({a} <=? {b})"
            if isinstance(op, ast.GtE):
                return f"({b} <=? {a})"
            if isinstance(op, ast.Eq):
                return f"({a} =? {b})"
            if isinstance(op, ast.NotEq):
                return f"negb ({a} =? {b})"
        raise GenError(f"{what}: test {ast.unparse(x)}")
    return go(e)


T_SECTION_STATE = """parent_level = max((section_level for section_level in self._level_to_section if <<is_parent>>))
parent = self._level_to_section[parent_level]
if <<warn>>:
    msg = f'Non-consecutive header level increase; H{parent_level} to H{level}'
    if parent_level == 0:
        msg = f'Document headings start at H{level}, not H1'
    self.create_warning(msg, MystWarnings.<<wtag>>, line=section.line, append_to=self.current_node)
parent.append(section)
self._level_to_section[level] = section
self._level_to_section = {section_level: section for section_level, section in self._level_to_section.items() if <<keep>>}"""

T_HEADING = """level = int(token.tag[1]) + self._heading_offset
parent_of_temp_root = self.md_env.get('temp_root_node', None) is not None and self.current_node == self.md_env['temp_root_node']
if not (parent_of_temp_root or isinstance(self.current_node, nodes.document | nodes.section)):
    rubric = nodes.rubric(token.content, '', level=level)
    self.copy_attributes(token, rubric, <<rkeys>>)
    with self.current_node_context(rubric, append=True):
        self.render_children(token)
    self.generate_heading_target(token, level, rubric, rubric)
    return
new_section = nodes.section()
title_node = nodes.title(token.children[0].content if token.children else '')
new_section.append(title_node)
self.copy_attributes(token, new_section, <<skeys>>)
if <<mjtest>> and self.blocks_mathjax_processing:
    new_section['classes'].extend(<<mjclasses>>)
self.update_section_level_state(new_section, level)
with self.current_node_context(title_node):
    self.render_children(token)
self.generate_heading_target(token, level, new_section, title_node)
self.current_node = new_section"""

T_TABLE = """assert token.children
header = token.children[0]
assert header.children
header_row = header.children[0]
assert header_row.children
table = nodes.table()
table['classes'] += <<classes>>
self.copy_attributes(token, table, <<keys>>)
self.current_node.append(table)
maxcols = len(header_row.children)
colwidths = [<<total>> // maxcols] * maxcols
tgroup = nodes.tgroup(cols=len(colwidths))
table += tgroup
for colwidth in colwidths:
    colspec = nodes.colspec(colwidth=colwidth)
    tgroup += colspec
thead = nodes.thead()
tgroup += thead
with self.current_node_context(thead):
    self.render_table_row(header_row)
if len(token.children) > 1:
    body = token.children[1]
    tbody = nodes.tbody()
    tgroup += tbody
    with self.current_node_context(tbody):
        for body_row in body.children or []:
            self.render_table_row(body_row)"""


def section_state_src(fn, wtags) -> str:
    h = match_template(norm(drop_lines(fn)), T_SECTION_STATE, "update_section_level_state")
    tag = wtags.get(h["wtag"])
    need(tag is not None, "update_section_level_state warning")
    n = {"level": "level", "section_level": "section_level", "parent_level": "parent_level"}
    return ("(* update_section_level_state: the tests of the three places that read the level map, and the warning *)\n"
            f"Definition sect_is_parent_src (level section_level : N) : bool := {int_cmp(h['is_parent'], n, 'parent test')}.\n"
            f"Definition sect_keep_src (level section_level : N) : bool := {int_cmp(h['keep'], n, 'keep test')}.\n"
            f"Definition sect_warn_src (level parent_level : N) : bool := {int_cmp(h['warn'], n, 'warning test')}.\n"
            f"Definition sect_warning_src : str := {S(tag)}.\n")


def heading_src(fn) -> str:
    h = match_template(norm(drop_lines(fn)), T_HEADING, "render_heading")
    mj = int_cmp(h["mjtest"], {"level": "level"}, "mathjax test")
    return ("(* render_heading: the statements are fixed (gen/c02_pysrc.py T_HEADING) up to the copied keys, the MathJax test and\n"
            "   classes; update_section_level_state = LevelParent (warning) + OpenSection, `self.current_node = new_section`\n"
            "   included; _heading_offset = 0 and no temp_root_node (no nested parse) in the model *)\n"
            "Definition render_heading_src (t : tok) (ks : list rt) : prog :=\n"
            "  match heading_level (tag t) with\n  | None => Fail (EPy ValueError)\n  | Some level =>\n"
            "      CurTag (fun ct =>\n        if negb (is_section_tag ct) then\n          o <- alloc ;\n"
            f"          '(a, msgs) <- copy_attributes_src t o {S('rubric')} {str_tuple(h['rkeys'], 'rubric keys')} [] [({S('level')}, [show level])] ;\n"
            f"          Detached o {S('rubric')} a msgs (render_children ks) (fun r =>\n"
            f"            ms <- heading_target_src o {S('rubric')} r ;\n            Append (add_children r ms) Done)\n"
            "        else\n          o <- alloc ;\n          ot <- alloc ;\n"
            f"          '(a, msgs) <- copy_attributes_src t o {S('section')} {str_tuple(h['skeys'], 'section keys')} [] [] ;\n"
            f"          let a := if {mj} && c_mathjax_block C\n                   then add_classes a {str_tuple(h['mjclasses'], 'mathjax classes')} else a in\n"
            "          LevelParent level (fun pl =>\n            match pl with\n            | None => Fail (EPy ValueError)\n            | Some pl =>\n"
            "                let open :=\n"
            f"                    OpenSection level (Elem o {S('section')} a [])\n"
            f"                      (Ctx ot {S('title')} [] [] (render_children ks) (fun title =>\n"
            f"                         ms <- heading_target_src o {S('section')} title ;\n"
            "                         append_all (msgs ++ ms) Done)) in\n"
            "                if sect_warn_src level pl\n                then (w <- create_warning sect_warning_src ; Append w open)\n                else open\n"
            "            end))\n  end.\n")


def table_src(fn) -> str:
    h = match_template(norm(drop_lines(fn)), T_TABLE, "render_table")
    need(h["total"].isdigit(), "render_table column width total")
    return ("(* render_table: statements fixed (T_TABLE) up to the classes, the copied keys and the width total; one colspec per\n"
            "   cell of the header row, the rows by render_table_row_src *)\n"
            "Definition render_table_src (t : tok) (ks : list rt) : prog :=\n"
            "  match ks with\n  | [] => Fail (EPy AssertionError)\n  | header :: rest =>\n"
            "      match rt_kids header with\n      | [] => Fail (EPy AssertionError)\n      | header_row :: _ =>\n"
            "          match rt_kids header_row with\n          | [] => Fail (EPy AssertionError)\n          | cells =>\n"
            "              let maxcols := length cells in\n              o <- alloc ;\n"
            f"              '(a, msgs) <- copy_attributes_src t o {S('table')} {str_tuple(h['keys'], 'table keys')} [] [({S('classes')}, {str_tuple(h['classes'], 'table classes')})] ;\n"
            f"              Ctx o {S('table')} a msgs\n                  (og <- alloc ;\n"
            f"                   Ctx og {S('tgroup')} [({S('cols')}, [show (N.of_nat maxcols)])] []\n"
            f"                       (colspecs maxcols ({h['total']} / N.of_nat maxcols)\n                          (oh <- alloc ;\n"
            f"                           Ctx oh {S('thead')} [] [] (render_table_row_src header_row) (fun _ =>\n"
            "                             match rest with\n                             | [] => Done\n                             | body :: _ =>\n"
            "                                 ob <- alloc ;\n"
            f"                                 Ctx ob {S('tbody')} [] [] (seq_all (map render_table_row_src (rt_kids body)))\n"
            "                                     (fun _ => Done)\n                             end)))\n                       (fun _ => Done))\n"
            "                  (fun _ => Done)\n          end\n      end\n  end.\n")


# ------------------------------------------------------------------ methods pinned by their text
class _DropLines(ast.NodeTransformer):
    """self.add_line_and_source_path(node, token) has no effect on the model (line / source are not modelled)"""

    def visit_Expr(self, node):
        if isinstance(node.value, ast.Call) and ast.unparse(node.value.func) == "self.add_line_and_source_path":
            return None
        return node


def drop_lines(fn):
    import copy
    return ast.fix_missing_locations(_DropLines().visit(copy.deepcopy(fn)))


def norm(fn) -> str:
    body = [s for s in fn.body if not (isinstance(s, ast.Expr) and const_str(s.value) is not None)]
    return "\n".join(ast.unparse(s) for s in body)


SHAPES = ["current_node_context", "render_children", "_render_tokens",
          # transcribed by hand in Doc/Render.v, neither translated nor templated: pinned
          "render_footnote_ref", "render_footnote_reference", "render_fence", "render_code_block", "create_highlighted_code_block",
          "render_link", "render_link_anchor", "render_link_unknown", "render_link_path", "render_link_project",
          "render_myst_target", "render_myst_block_break", "render_myst_line_comment", "render_math_block",
          "render_math_block_label", "render_amsmath", "render_dl", "render_field_list", "render_span", "render_directive",
          "render_myst_role", "render_colon_fence"]
# (file, class) pinned as a whole: the Sphinx overrides and the transforms of Doc/Transforms.v
SHAPE_CLASSES = [("myst_parser/mdit_to_docutils/sphinx_.py", "SphinxRenderer"),
                 ("myst_parser/mdit_to_docutils/transforms.py", "SortFootnotes"),
                 ("myst_parser/mdit_to_docutils/transforms.py", "CollectFootnotes"),
                 ("myst_parser/mdit_to_docutils/transforms.py", "ResolveAnchorIds"),
                 ("myst_parser/mdit_to_docutils/transforms.py", "UnreferencedFootnotesDetector")]

METHODS = ["render_paragraph", "render_em", "render_strong", "render_code_inline", "render_bullet_list",
           "render_ordered_list", "render_list_item", "render_blockquote", "render_hr", "render_hardbreak",
           "render_softbreak", "render_s", "render_text", "render_math_inline", "render_link_url", "render_image"]


def shape_hash(fn):
    return hashlib.sha256(norm(drop_lines(fn)).encode()).hexdigest()[:16]


def all_functions(tree):
    out = {}
    for n in ast.walk(tree):
        if isinstance(n, ast.FunctionDef):
            out.setdefault(n.name, n)
    return out


def generate(repo=None):
    repo = repo or common.REPO
    src = (repo / BASE).read_text()
    tree = ast.parse(src)
    fns = all_functions(tree)
    wt = warning_tags(repo)
    out = ["(* GENERATED by gen/c02_pysrc.py from myst_parser/mdit_to_docutils/base.py - do not edit.",
           "   Each definition is the statement-by-statement translation of the Python method of the same name",
           "   (Doc/RenderSrcProofs.v proves it equal to the hand-written model of Doc/Render.v). *)",
           "From Coq Require Import List NArith Bool.",
           "From MV Require Import Base.PyStr.", "From MV Require Import Base.Res.", "From MV Require Import Doc.Str.",
           "From MV Require Import Doc.Tok.", "From MV Require Import Doc.Node.", "From MV Require Import Doc.Registry.",
           "From MV Require Import Doc.Prog.", "From MV Require Import Gen.Render.", "From MV Require Import Doc.Render.",
           "Import ListNotations.", "Open Scope N_scope.", "",
           "Section RenderSrc.", "  Variable B : backend.", "  Variable C : cfg.", "  Variable OR : oracles.",
           ""]
    need("copy_attributes" in fns and "renderInlineAsText" in fns, "copy_attributes / renderInlineAsText missing")
    out.append("(* copy_attributes: one iteration of `for key, value in token.attrs.items()` per list element *)")
    out.append(indent(copy_attributes_src(fns["copy_attributes"])))
    out.append("(* clean_astext *)")
    out.append(indent(clean_astext_src(fns["clean_astext"])))
    out.append("(* generate_heading_target: the implicit target (the slug part is off: heading_anchors = 0) *)")
    out.append(indent(heading_target_src(fns["generate_heading_target"])))
    out.append(indent(section_state_src(fns["update_section_level_state"], {k: v for k, v in wt.items()})))
    out.append(indent(heading_src(fns["render_heading"])))
    out.append("(* render_table_row: one cell per child *)")
    out.append(indent(table_row_src(fns["render_table_row"])))
    out.append("(* renderInlineAsText *)")
    out.append(indent(inline_as_text_src(fns["renderInlineAsText"])))
    out.append(indent(table_src(fns["render_table"])))
    for name in METHODS:
        need(name in fns, f"{name} missing")
        term = Method(fns[name], wt).translate()
        out.append(f"  Definition {name}_src (t : tok) (ks : list rt) : prog :=\n  {term}.\n")
    out.append("End RenderSrc.")
    # pinned shapes
    pins = {}
    for name in SHAPES:
        need(name in fns, f"{name} missing")
        pins[name] = shape_hash(fns[name])
    for rel, cname in SHAPE_CLASSES:
        mod = ast.parse((repo / rel).read_text())
        cls = [n for n in mod.body if isinstance(n, ast.ClassDef) and n.name == cname]
        need(len(cls) == 1, f"class {cname} missing")
        text = "\n".join(norm(drop_lines(f)) for f in cls[0].body if isinstance(f, ast.FunctionDef))
        pins[cname] = hashlib.sha256(text.encode()).hexdigest()[:16]
    return "\n".join(out) + "\n", pins


def indent(s):
    return "\n".join(("  " + l if l else l) for l in s.split("\n"))


def run(ctx=None):
    text, pins = generate()
    import json
    pin_file = common.VERIF / "gen" / "c02_pysrc_pins.json"
    want = json.loads(pin_file.read_text()) if pin_file.exists() else {}
    bad = [n for n, h in pins.items() if want.get(n) != h]
    need(not bad, "methods pinned by their source text have changed (the hand-written model may no longer describe them): "
         + ", ".join(bad))
    common.write_if_changed(common.COQ / "Gen" / "RenderSrc.v", text)
    info = {"Gen/RenderSrc.v": hashlib.sha256(text.encode()).hexdigest()[:16]}
    if ctx is not None:
        ctx.gen_info.update(info)
    return info


if __name__ == "__main__":
    import json
    import sys
    if "--pin" in sys.argv:
        _, pins = generate()
        (common.VERIF / "gen" / "c02_pysrc_pins.json").write_text(json.dumps(pins, indent=1) + "\n")
        print(pins)
    else:
        print(run())
