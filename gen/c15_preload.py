"""Modules imported by the multiprocessing forkserver of the C15 checks: every worker is forked from a process that
has imported the libraries but has not parsed anything (the state of a fresh interpreter after import)."""
import docutils.core  # noqa: F401
import docutils.parsers.rst  # noqa: F401
import docutils.writers.html5_polyglot  # noqa: F401
import jinja2  # noqa: F401
import markdown_it  # noqa: F401
import yaml  # noqa: F401

import myst_parser.parsers.docutils_  # noqa: F401

try:
    import sphinx.application  # noqa: F401
    import sphinx.util.docutils  # noqa: F401
    import myst_parser.parsers.sphinx_  # noqa: F401
    import myst_parser.sphinx_ext.main  # noqa: F401
except Exception:  # pragma: no cover
    pass

import gen.c01_run  # noqa: F401
import gen.c15_hist  # noqa: F401
import lib.impl  # noqa: F401
