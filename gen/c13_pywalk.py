"""Statement walker used by gen/c13_src.py and gen/c14_src.py (round 3, source-translation tie).

Translates the CONTROL SKELETON of a Python function body into a Gallina term, fail-closed:

  block   := stmt*
  stmt    := docstring | bare annotation | NAME = e | NAME: T = e | a, b = e | if / elif / else
           | for <header>: block | continue | return [e] | raise X(...) [from e]
           | try: block except <classes> [as n]: block
           | any other simple statement that the caller lists in `stmt_atoms`
  test    := not t | t and t | t or t | <atom>
  e       := <atom> | NAME | True | False

Everything that is not control flow is an ATOM: an expression or simple statement that is looked up by its
exact `ast.unparse` text (or a regular expression for statements) in tables supplied by the caller - the
domain mapping.  An expression or statement that is not in the tables stops the run (tie broken): a one-token
edit inside an atom is therefore seen as a changed atom, an edit of the control flow (and/or, not, a branch, the
order of statements, continue/return/raise, the try/except structure) changes the emitted term and is then up to
the refinement proof.

Semantics of the emitted term
  * pure mode: `return e` is the term of e; no raise allowed.
  * res mode: the function body is a term of type `res T`; `raise X(..)` is `Raise X` or the enclosing handler;
    a statement atom may contain @@K@@ (the rest of the block) and @@H@@ (what happens if it raises: the
    handler of the enclosing try when it catches, else `Raise __e`).
  * `for`: a local structural `fix` over the list given for the loop header; `continue` / falling off the body
    is the recursive call on the tail with the current values of the carried variables; the statements after
    the loop are the [] branch.  `return` / `raise` inside the loop simply do not call the loop again.
  * variables are Gallina variables of the same name; re-assignment is shadowing.
"""
from __future__ import annotations

import ast
import re


class Untranslatable(Exception):
    pass


EXN = {"TypeError", "ValueError", "KeyError", "AssertionError", "AttributeError", "IndexError", "OverflowError"}


def find_function(tree, path):
    """path 'a.b' = function b nested in function/class a"""
    scope = tree
    for name in path.split("."):
        found = [n for n in ast.iter_child_nodes(scope) if isinstance(n, (ast.FunctionDef, ast.ClassDef)) and n.name == name]
        if len(found) != 1:
            raise Untranslatable(f"{path}: {name} not found (or not unique)")
        scope = found[0]
    return scope


class Walker:
    def __init__(self, where, atoms, stmt_atoms, loops, *, pure, ret_type, ret=None, fall=None):
        self.where = where
        self.atoms = atoms                  # unparse(expr) -> term
        self.stmt_atoms = stmt_atoms        # list of (str | compiled regex, template)
        self.loops = loops                  # unparse("for X in Y") header -> dict(pat, seq, elem, carried=[(name, type)], res=bool)
        self.pure = pure
        self.ret_type = ret_type
        self.ret = ret or (lambda term: term)
        self.fall = fall
        self.n_loops = 0
        self.used_atoms = set()

    def err(self, node, msg):
        src = ast.unparse(node) if isinstance(node, ast.AST) else str(node)
        raise Untranslatable(f"{self.where}:{getattr(node, 'lineno', '?')}: {msg}: {' '.join(src.split())[:140]}")

    # ---- expressions
    def atom(self, e):
        key = " ".join(ast.unparse(e).split())
        if key in self.atoms:
            self.used_atoms.add(key)
            return self.atoms[key]
        if isinstance(e, ast.Constant) and e.value is True:
            return "true"
        if isinstance(e, ast.Constant) and e.value is False:
            return "false"
        self.err(e, "expression is not in the domain mapping")

    def test(self, t):
        if isinstance(t, ast.UnaryOp) and isinstance(t.op, ast.Not):
            return f"(negb {self.test(t.operand)})"
        if isinstance(t, ast.BoolOp):
            op = "andb" if isinstance(t.op, ast.And) else "orb"
            out = self.test(t.values[0])
            for v in t.values[1:]:
                out = f"({op} {out} {self.test(v)})"
            return out
        return self.atom(t)

    # ---- handlers: None | (catch: None (all) or set of class names, term, outer)
    def raise_term(self, h, cls=None, evar="__e"):
        """term for 'an exception of class cls (None: the dynamic __e) propagates here'"""
        if h is None:
            return f"Raise {cls}" if cls else f"Raise {evar}"
        catch, term, outer = h
        if catch is None:
            return term
        if cls is not None:
            return term if cls in catch else self.raise_term(outer, cls, evar)
        alts = " | ".join(sorted(catch))
        return f"match {evar} with {alts} => {term} | _ => {self.raise_term(outer, None, evar)} end"

    def stmt_atom(self, s):
        key = " ".join(ast.unparse(s).split())
        for m, tpl in self.stmt_atoms:
            if (isinstance(m, str) and m == key) or (not isinstance(m, str) and m.fullmatch(key)):
                self.used_atoms.add(m if isinstance(m, str) else m.pattern)
                return tpl
        return None

    # ---- statements
    def stmts(self, body, k, h, loop_k=None):
        if not body:
            return k
        s, rest = body[0], list(body[1:])
        nxt = lambda: self.stmts(rest, k, h, loop_k)
        if isinstance(s, ast.Expr) and isinstance(s.value, ast.Constant) and isinstance(s.value.value, str):
            return nxt()
        if isinstance(s, ast.AnnAssign) and s.value is None:
            return nxt()
        tpl = self.stmt_atom(s)
        if tpl is not None:
            out = tpl
            if "@@H@@" in out:
                if self.pure:
                    self.err(s, "raising statement atom in a pure function")
                out = out.replace("@@H@@", self.raise_term(h))
            for m in re.findall(r"@@CATCHES:(\w+)@@", out):
                # does the innermost enclosing try catch class m?  (classes outside the model's enum, e.g. ImportError)
                caught = h is not None and (h[0] is None or m in h[0] or m in getattr(self, "extra_catch", {}).get(id(h), ()))
                out = out.replace(f"@@CATCHES:{m}@@", "true" if caught else "false")
            if "@@HANDLER@@" in out:
                out = out.replace("@@HANDLER@@", h[1] if h is not None else "Raise KeyError")
            if "@@K@@" in out:
                return out.replace("@@K@@", "(" + nxt() + ")")
            return out + "\n" + nxt()
        if isinstance(s, ast.Pass):
            return nxt()
        if isinstance(s, (ast.Assign, ast.AnnAssign)):
            tgt = s.targets[0] if isinstance(s, ast.Assign) and len(s.targets) == 1 else getattr(s, "target", None)
            if isinstance(tgt, ast.Name):
                return f"let {tgt.id} := {self.atom(s.value)} in\n{nxt()}"
            if isinstance(tgt, ast.Tuple) and all(isinstance(x, ast.Name) for x in tgt.elts):
                return f"let '({', '.join(x.id for x in tgt.elts)}) := {self.atom(s.value)} in\n{nxt()}"
            self.err(s, "assignment target not understood")
        if isinstance(s, ast.If) and rest and self.only_assigns(s.body) and self.only_assigns(s.orelse):
            # both branches only (re)bind variables: join them instead of duplicating the rest of the block
            vs = sorted(self.assigned(s.body) | self.assigned(s.orelse))
            if vs:
                tup = "(" + ", ".join(vs) + ")" if len(vs) > 1 else vs[0]
                pat = "'" + tup if len(vs) > 1 else tup
                a = self.stmts(list(s.body), tup, h, loop_k)
                b = self.stmts(list(s.orelse), tup, h, loop_k)
                return f"let {pat} := (if {self.test(s.test)} then\n({a})\nelse\n({b})) in\n{nxt()}"
        if isinstance(s, ast.If):
            a = self.stmts(list(s.body) + rest, k, h, loop_k)
            b = self.stmts(list(s.orelse) + rest, k, h, loop_k)
            return f"if {self.test(s.test)} then\n({a})\nelse\n({b})"
        if isinstance(s, ast.Continue):
            if loop_k is None:
                self.err(s, "continue outside a loop")
            return loop_k
        if isinstance(s, ast.Return):
            if s.value is None:
                if self.fall is None:
                    self.err(s, "bare return")
                return self.fall
            return self.ret(self.atom(s.value))
        if isinstance(s, ast.Raise):
            if self.pure or s.exc is None:
                self.err(s, "raise not translatable here")
            c = s.exc.func if isinstance(s.exc, ast.Call) else s.exc
            if not (isinstance(c, ast.Name) and c.id in EXN):
                self.err(s, "raise of an unknown exception class")
            return self.raise_term(h, c.id)
        if isinstance(s, ast.Try):
            if self.pure or s.orelse or s.finalbody or len(s.handlers) != 1:
                self.err(s, "try shape not understood")
            hd = s.handlers[0]
            if hd.type is None:
                self.err(s, "bare except")
            names = [ast.unparse(x) for x in (hd.type.elts if isinstance(hd.type, ast.Tuple) else [hd.type])]
            if names == ["Exception"]:
                catch = None
            else:
                catch = set()
                for nme in names:
                    # ImportError has no counterpart in the model's exception enum: it is only raised by the
                    # import oracle, whose result the atom inspects; a handler for it catches nothing else here
                    if nme == "ImportError":
                        continue
                    if nme not in EXN:
                        self.err(s, f"except {nme}: unknown exception class")
                    catch.add(nme)
            handler_term = self.stmts(list(hd.body) + rest, k, h, loop_k)
            hnew = (catch, handler_term, h)
            if not hasattr(self, "extra_catch"):
                self.extra_catch = {}
            self.extra_catch[id(hnew)] = {nme for nme in names if nme not in EXN}
            self._keep = getattr(self, "_keep", []) + [hnew]
            return self.stmts(list(s.body), nxt(), hnew, loop_k)
        if isinstance(s, ast.For):
            if s.orelse:
                self.err(s, "for/else")
            header = " ".join(f"for {ast.unparse(s.target)} in {ast.unparse(s.iter)}".split())
            if header not in self.loops:
                self.err(s, "loop header is not in the domain mapping")
            self.used_atoms.add(header)
            lp = self.loops[header]
            self.n_loops += 1
            n = self.n_loops
            L = f"__loop{n}"
            carried = lp.get("carried", [])
            params = " ".join(f"({a} : {t})" for a, t in carried)
            args = " ".join(a for a, _ in carried)
            rec = f"{L} __r{n} {args}".strip()
            after = self.stmts(rest, k, h, loop_k)
            body = self.stmts(list(s.body), rec, h, rec)
            fx = (f"(fix {L} (__l{n} : list ({lp['elem']})) {params} {{struct __l{n}}} : {self.ret_type} :=\n"
                  f" match __l{n} with\n | [] => ({after})\n | {lp['pat']} :: __r{n} =>\n({body})\n end)")
            if lp.get("res"):
                if self.pure:
                    self.err(s, "raising iteration in a pure function")
                return (f"match {lp['seq']} with\n| Raise __e => {self.raise_term(h)}\n"
                        f"| Ok __items{n} => {fx} __items{n} {args}\nend")
            return f"{fx} ({lp['seq']}) {args}"
        self.err(s, "statement is not in the domain mapping")

    def only_assigns(self, body):
        """statements that neither leave the block nor can raise: assignments, pure statement atoms, nested ifs of such"""
        for st in body:
            if isinstance(st, ast.Expr) and isinstance(st.value, ast.Constant):
                continue
            tpl = self.stmt_atom(st)
            if tpl is not None:
                if "@@K@@" in tpl or "@@H@@" in tpl:
                    return False
                continue
            if isinstance(st, (ast.Assign, ast.AnnAssign, ast.Pass)):
                continue
            if isinstance(st, ast.If) and self.only_assigns(st.body) and self.only_assigns(st.orelse):
                continue
            return False
        return True

    def assigned(self, body):
        out = set()
        for st in body:
            tpl = self.stmt_atom(st)
            if tpl is not None:
                out |= set(re.findall(r"let (\w+) :=", tpl))
                for grp in re.findall(r"let '\(([^)]*)\) :=", tpl):
                    out |= {x.strip() for x in grp.split(",")}
            elif isinstance(st, (ast.Assign, ast.AnnAssign)) and getattr(st, "value", None) is not None:
                tgt = st.targets[0] if isinstance(st, ast.Assign) else st.target
                out |= {x.id for x in (tgt.elts if isinstance(tgt, ast.Tuple) else [tgt]) if isinstance(x, ast.Name)}
            elif isinstance(st, ast.If):
                out |= self.assigned(st.body) | self.assigned(st.orelse)
        return out

    def function(self, fn, coq_name, params, prologue=""):
        body = list(fn.body)
        term = self.stmts(body, self.fall if self.fall is not None else "@@NO_RETURN@@", None)
        if "@@NO_RETURN@@" in term:
            self.err(fn, "function may fall off the end")
        args = " ".join(f"({p} : {t})" for p, t in params)
        return f"Definition {coq_name} {args} : {self.ret_type} :=\n{prologue}{term}.\n"

    def check_all_used(self):
        """every entry of the domain mapping must be used: a stale entry would hide that the source changed"""
        unused = [k for k in self.atoms if k not in self.used_atoms] + \
                 [(m if isinstance(m, str) else m.pattern) for m, _ in self.stmt_atoms
                  if (m if isinstance(m, str) else m.pattern) not in self.used_atoms] + \
                 [k for k in self.loops if k not in self.used_atoms]
        if unused:
            raise Untranslatable(f"{self.where}: entries of the domain mapping that the source no longer uses: {unused}")
