"""C03 search component: "every produced document is a well-formed docutils tree".

An independent walker (`check_tree`) over the REAL doctree produced by the implementation (docutils front end
and in-process Sphinx renderer, directly after parsing and after the whole transform pipeline), a block-structured
random markdown generator that stresses every clause of the property, hand-written witnesses, and the
search / replay entry points used by props/C03.py.

Nothing here models the implementation: the walker only reads `node.children`, `node.parent`, `node.tagname`
and the attributes `ids`, `refid`, `backrefs`, `cols`, `morecols`, `morerows`; to NAME a failure (signature) it
also reads `id_link`, `auto`, `names`, `classes`, `label` and the observation marks the driver's hooks leave.

Signatures (one per cause: violated clause, then the party at fault; never the single witness):

  occurs-once:<tag>   parent-pointer:<tag>
  section:under-<parent tag>   section:no-title[:eval-rst]   transition:inside-container
  structure:eval-rst-splice:section-or-transition-under-container      (section / transition spliced under a container
                                                                        by `{eval-rst}`; one cause: see SIG_RST_SPLICE)
  ids:duplicate:<who>       who = eval-rst | toc-copy | math-label+math-label | math-label+other | <tagA>+<tagB>
  refid:dangling:<lost>     lost = docinfo-stripped | node-removed:<Transform> | id-dropped:<Transform>: the id existed
                            and that party lost it (found by `trace_ids`: ids before every transform of a second run)
  refid:dangling:<tag>:<producer>:never-existed   no tree of the pipeline ever had the id: the writer of the refid is
                            at fault.  tag = reference | footnote_reference | citation_reference | target; producer =
                            id_link | myst-xref | sphinx-xref | contents | eval-rst | directive:<name> | other (reference),
                            auto | symbol | manual | eval-rst (footnote/citation reference), propagated | indirect |
                            eval-rst (target).  (`:untraced` instead of `:never-existed`: the second run could not tell)
  backref:dangling:<lost>   backref:dangling:<footnote|citation>:<auto|symbol|manual|eval-rst>:never-existed
  table:cols-colspecs   table:row-cells[:eval-rst]
  footnote:no-label-first[:eval-rst]
  exception:<Class>:<innermost Transform on the stack, else innermost library function>[:eval-rst-id]

Own test run:  PYTHONPATH=/repo /venv/bin/python /verif/gen/c03_search.py [n] [seed]
"""
from __future__ import annotations

import ast
import os
import re
import sys
import traceback as _tb

_HERE = os.path.dirname(os.path.abspath(__file__))
_VERIF = os.path.dirname(_HERE)
if _VERIF not in sys.path:
    sys.path.insert(0, _VERIF)

from gen.c02_lib import ALL_EXTS, MODES  # noqa: E402  (no myst/docutils import at module level)

MAX_FAIL_PER_SIGNATURE = 3

# ------------------------------------------------------------------------------------------------ walker

_NOT_FOUND_RE = re.compile(
    r"(?:cross-reference target not found|reference target not found|Unknown target name|undefined label)"
    r":\s*(?P<q>'(?:[^'\\]|\\.)*'|\"(?:[^\"\\]|\\.)*\")")

# elements whose `refid` is an "internal link" in the sense of the property text
_LINK_TAGS = ("reference", "footnote_reference", "citation_reference", "target")


# one cause, one signature: `{eval-rst}` content is parsed by docutils' rST parser as a complete top-level document
# (state machine with match_titles=True: section titles and transitions are accepted) and its children are then
# spliced into whatever node is current, so a section / transition lands under a block quote, list item ...
SIG_RST_SPLICE = "structure:eval-rst-splice:section-or-transition-under-container"


def _tag(node):
    return getattr(node, "tagname", None) or type(node).__name__


def _warned_targets(warnings_text):
    """Targets for which a 'target not found' style warning was issued (decoded from their repr) together with
    their markdown-it normalised form (that is what ResolveAnchorIds stores as refid on the docutils side)."""
    out = set()
    for m in _NOT_FOUND_RE.finditer(warnings_text or ""):
        q = m.group("q")
        try:
            t = ast.literal_eval(q)
        except Exception:
            t = q[1:-1]
        if not isinstance(t, str):
            continue
        out.add(t)
        try:
            from markdown_it.common.normalize_url import normalizeLink
            out.add(normalizeLink(t))
        except Exception:
            pass
    return out


def _from_rst(*nodes_):
    """True when one of the nodes was produced by the nested reStructuredText parse of `eval-rst` (the driver
    marks those nodes, see `_install_origin_marks`).  Such failures get their own signature family: the tags
    involved are arbitrary there (the rST snippet is a document of its own, numbered separately)."""
    return any(getattr(n, "_c03_origin", None) == "eval-rst" for n in nodes_ if n is not None)


def _origin(node):
    """Observation mark left by the driver's hooks on the node object: "eval-rst", "directive:<name>",
    "myst-xref" (reference built by MyST's Sphinx post-transform from a Markdown link's pending_xref),
    "sphinx-xref" (reference built by Sphinx' ReferencesResolver from a role's pending_xref), or None."""
    return getattr(node, "_c03_origin", None)


def _note_kind(node):
    """Numbering kind of a footnote / footnote_reference / citation(_reference), read off the `auto` attribute:
    auto (auto=1: MyST `[^label]`, rST `[#]_` / `[#label]_`), symbol (auto='*': rST only), manual (no `auto`: MyST
    `[^1]` with an all-digit label, rST `[1]_`)."""
    try:
        a = node.get("auto")
    except Exception:
        a = None
    if a == 1 or a == "1":
        return "auto"
    if a == "*":
        return "symbol"
    return "manual"


def _in_contents(node):
    """Inside the topic docutils' Contents transform builds (entries are filtered deep copies of section titles)."""
    n = getattr(node, "parent", None)
    while n is not None:
        try:
            if _tag(n) == "topic" and "contents" in (n.get("classes") or ()):
                return True
        except Exception:
            pass
        n = getattr(n, "parent", None)
    return False


def _producer(node):
    """The construct that produced a node carrying a refid / backrefs (second-to-last signature component).

    reference:           id_link (MyST `[text](#name)` / `<project:#name>`: render_link_anchor marks the node, the
                         refid is written by ResolveAnchorIds), myst-xref, sphinx-xref, contents (entry of a docutils
                         table of contents), eval-rst, directive:<name>, other
    footnote_reference,
    footnote, citation*: eval-rst, else auto | symbol | manual
    target:              eval-rst, propagated (refid written by docutils PropagateTargets: ids and names moved to the
                         next node), indirect (keeps its own names/ids)"""
    t = _tag(node)
    org = _origin(node)
    if org == "eval-rst":
        return "eval-rst"
    if t == "reference":
        try:
            if node.get("id_link"):
                return "id_link"
        except Exception:
            pass
        if org in ("myst-xref", "sphinx-xref"):
            return org
        if _in_contents(node):
            return "contents"
        return org or "other"
    if t in ("footnote_reference", "citation_reference", "footnote", "citation"):
        return _note_kind(node)
    if t == "target":
        try:
            if not node.get("ids") and not node.get("names"):
                return "propagated"
        except Exception:
            pass
        return "indirect"
    return org or "other"


def _dangling_key(tag, producer, why):
    """Signature tail of a dangling refid / backref: the party at fault.

    The id existed and something lost it (docinfo-stripped, node-removed:<Transform>, id-dropped:<Transform>): the
    signature names that culprit only - which kind of node still points at the id is not part of the cause (kind
    and producer are in `what` / the detail).  The id never existed (or the second run could not tell): whoever
    wrote the refid is at fault, so the signature names the referring node's tag and its producing construct."""
    if why in ("never-existed", "untraced"):
        return f"{tag}:{producer}:{why}"
    return why


def _is_math_anchor(node):
    """Sphinx equation anchor: the `target` MyST's add_math_target puts in front of a labelled math_block (parse
    stage) or the math_block itself once docutils has propagated the id to it (full stage)."""
    try:
        from docutils.nodes import make_id
        t = _tag(node)
        if t == "math_block" and node.get("label") is not None:
            return make_id("equation-%s" % node["label"]) in node.get("ids", [])
        if t == "target" and node.parent is not None and not node.get("names"):
            sibs = node.parent.children
            k = next((n for n, c in enumerate(sibs) if c is node), None)
            if k is not None and k + 1 < len(sibs):
                nx = sibs[k + 1]
                if _tag(nx) == "math_block" and nx.get("label") is not None:
                    return make_id("equation-%s" % nx["label"]) in node.get("ids", [])
    except Exception:
        pass
    return False


def _short(node, limit=160):
    try:
        s = node.shortrepr() if hasattr(node, "shortrepr") else repr(node)
    except Exception:
        s = _tag(node)
    return s[:limit]


def _path(node, limit=12):
    """tag path root -> node (structural context for 'what')."""
    tags = []
    n = node
    while n is not None and len(tags) < limit:
        tags.append(_tag(n))
        n = getattr(n, "parent", None)
    return "/".join(reversed(tags))


def check_tree(doc, stage, warnings_text="", history=None):
    """Independent well-formedness walker.  Returns a list of {"signature", "what", "detail"}.

    `history`: optional zero-argument callable returning an `IdHistory` of the same case (asked only when a
    dangling refid / backref is found at the full stage, to name the reason in the signature)."""
    fails = []

    def fail(sig, what, detail=None):
        fails.append({"signature": sig, "what": what, "detail": detail})

    # ---- clause 1: one parent, one occurrence (Text nodes included); builds the list of elements
    seen = {}                 # id(obj) -> obj (keeps the objects alive, so id() cannot be recycled)
    elements = []             # every element once
    if getattr(doc, "parent", None) is not None:
        fail("parent-pointer:" + _tag(doc), "root has a parent", _short(doc))
    seen[id(doc)] = doc
    lister = {id(doc): None}  # id(obj) -> the node whose child list contains it (the structural parent)
    stack = [doc]
    while stack:
        p = stack.pop()
        elements.append(p)    # pop order = document order; every element is pushed exactly once
        kids = list(getattr(p, "children", ()) or ())
        fresh = []
        for c in kids:
            if id(c) in seen:
                fail("occurs-once:" + _tag(c), f"the same {_tag(c)} object is reachable twice (second time under "
                     f"{_tag(p)})", {"node": _short(c), "second_parent": _path(p)})
                continue
            seen[id(c)] = c
            lister[id(c)] = p
            if getattr(c, "parent", None) is not p:
                fail("parent-pointer:" + _tag(c), f"{_tag(c)} is a child of {_tag(p)} but its parent pointer is "
                     f"{_tag(getattr(c, 'parent', None)) if getattr(c, 'parent', None) is not None else None}",
                     {"node": _short(c), "listed_under": _path(p)})
            if hasattr(c, "children") and not isinstance(c, str):
                fresh.append(c)
        stack.extend(reversed(fresh))       # a node reached a second time is reported, not descended into again

    # ---- clauses 2, 3: sections and transitions
    for e in elements:
        t = _tag(e)
        if t == "section":
            par = lister.get(id(e))        # the node that lists it (not the pointer, which clause 1 checks)
            ptag = _tag(par) if par is not None else "None"
            if ptag not in ("document", "section"):
                fail(SIG_RST_SPLICE if _from_rst(e) else "section:under-" + ptag,
                     f"section node directly under {ptag}", _path(e))
            if not e.children or _tag(e.children[0]) != "title":
                fail("section:no-title" + (":eval-rst" if _from_rst(e) else ""), "section whose first child is " +
                     (_tag(e.children[0]) if e.children else "missing (empty section)"), _path(e))
        elif t == "transition":
            par = lister.get(id(e))
            ptag = _tag(par) if par is not None else "None"
            if ptag not in ("document", "section"):
                fail(SIG_RST_SPLICE if _from_rst(e) else "transition:inside-container",
                     f"transition node directly under {ptag} (stage {stage})", _path(e))

    # ---- clause 4: identifiers unique
    rst_ids = getattr(doc, "_c03_rst_ids", None) or ()          # id strings numbered by eval-rst's own document
    stripped_ids = getattr(doc, "_c03_stripped_ids", None) or ()  # ids inside the docinfo Sphinx removed
    owner = {}
    for e in elements:
        try:
            ids = e.get("ids", [])
        except Exception:
            ids = []
        for i in ids:
            if i in owner and owner[i] is not e:
                o = owner[i]
                if _from_rst(o, e) or i in rst_ids:
                    kinds = "eval-rst"
                else:
                    ma, mb = _is_math_anchor(o), _is_math_anchor(e)
                    if _in_contents(o) != _in_contents(e):
                        kinds = "toc-copy"           # docutils Contents copied a title's inline that carries an id
                    elif ma and mb:
                        kinds = "math-label+math-label"
                    elif ma != mb:
                        kinds = "math-label+other"
                    else:
                        kinds = "+".join(sorted((_tag(o), _tag(e))))
                fail(f"ids:duplicate:{kinds}", f"id {i!r} is carried by two nodes ({_tag(owner[i])} and {_tag(e)})",
                     {"id": i, "first": _path(owner[i]), "second": _path(e)})
            else:
                owner.setdefault(i, e)

    # ---- clause 5: internal links resolve
    warned = None
    hist = [None, False]

    def why_missing(i):
        """Last signature component: why no node of the final tree carries id `i` (see `IdHistory.reason`)."""
        if i in stripped_ids:
            return "docinfo-stripped"
        if stage == "parse":
            return "never-existed"           # nothing ran between the renderer and this walk
        if not hist[1]:
            hist[1] = True
            try:
                hist[0] = history() if history is not None else None
            except (KeyboardInterrupt, SystemExit, MemoryError):
                raise
            except BaseException:  # noqa: BLE001 - diagnosis only
                hist[0] = None
        return hist[0].reason(i) if hist[0] is not None else "untraced"

    for e in elements:
        t = _tag(e)
        if t in _LINK_TAGS and e.hasattr("refid"):
            rid = e["refid"]
            if rid not in owner:
                if warned is None:
                    warned = _warned_targets(warnings_text)
                if rid not in warned:
                    prod, why = _producer(e), why_missing(rid)
                    fail("refid:dangling:" + _dangling_key(t, prod, why), f"{t} ({prod}) refid {rid!r} is not the "
                         f"id of any node ({why}) and no 'target not found' warning names it",
                         {"refid": rid, "at": _path(e), "producer": prod, "why": why})
        if t in ("footnote", "citation"):
            for b in e.get("backrefs", []):
                if b not in owner:
                    prod, why = _producer(e), why_missing(b)
                    fail("backref:dangling:" + _dangling_key(t, prod, why), f"{t} ({prod}) backref {b!r} is not "
                         f"the id of any node ({why})", {"backref": b, "at": _path(e), "producer": prod, "why": why})

    # ---- clause 6: table shape
    for e in elements:
        if _tag(e) != "tgroup":
            continue
        colspecs = [c for c in e.children if _tag(c) == "colspec"]
        cols = e.get("cols")
        if not isinstance(cols, int) or cols != len(colspecs):
            fail("table:cols-colspecs", f"tgroup cols={cols!r} but {len(colspecs)} colspec children", _path(e))
            continue
        for part in e.children:
            if _tag(part) not in ("thead", "tbody"):
                continue
            carry = [0] * cols                      # remaining rowspan per column
            for ri, row in enumerate(part.children):
                if _tag(row) != "row":
                    fail("table:row-cells", f"{_tag(part)} child is {_tag(row)}, not row", _path(row))
                    continue
                free = [k for k in range(cols) if carry[k] == 0]
                width, ok = 0, True
                spans = []
                for ent in row.children:
                    if _tag(ent) != "entry":
                        ok = False
                        continue
                    w = 1 + int(ent.get("morecols", 0) or 0)
                    spans.append((w, int(ent.get("morerows", 0) or 0)))
                    width += w
                if not ok or width != len(free):
                    fail("table:row-cells" + (":eval-rst" if _from_rst(e) else ""),
                         f"row {ri} of {_tag(part)} has {width} cell(s) (+{cols - len(free)} spanned from above) "
                         f"but the table declares {cols} column(s)", _path(row))
                nxt = [max(0, c - 1) for c in carry]
                k = 0
                for w, mr in spans:
                    for _ in range(w):
                        if k < len(free):
                            nxt[free[k]] = mr
                            k += 1
                carry = nxt

    # ---- clause 7: footnotes start with their label (after processing)
    if stage == "full":
        for e in elements:
            if _tag(e) == "footnote":
                if not e.children or _tag(e.children[0]) != "label":
                    fail("footnote:no-label-first" + (":eval-rst" if _from_rst(e) else ""), "footnote whose first child is " +
                         (_tag(e.children[0]) if e.children else "missing (empty footnote)"),
                         {"names": list(e.get("names", [])), "ids": list(e.get("ids", [])), "at": _path(e)})
    return fails


def observations(doc):
    """Things that are not violations of the property text but worth counting (reported, never failed)."""
    obs = []
    owner = {}
    for e in doc.findall() if hasattr(doc, "findall") else doc.traverse():
        if hasattr(e, "get") and not isinstance(e, str):
            for i in e.get("ids", []):
                owner.setdefault(i, e)
    if doc.get("ids"):
        for i in doc["ids"]:
            owner.setdefault(i, doc)
    for e in doc.findall() if hasattr(doc, "findall") else doc.traverse():
        if _tag(e) == "footnote_reference" and hasattr(e, "hasattr") and e.hasattr("refid"):
            tgt = owner.get(e["refid"])
            if tgt is not None and _tag(tgt) not in ("footnote", "citation"):
                obs.append("fnref-to-" + _tag(tgt))
    return obs


# ------------------------------------------------------------------------------------------------ drivers

_SITE_PKGS = ("docutils", "sphinx", "myst_parser", "markdown_it", "mdit_py_plugins")


def _exception_failure(exc, stage):
    """Failure record of an uncaught implementation exception; site = innermost frame inside the libraries."""
    frames = []
    tb = exc.__traceback__
    while tb is not None:
        frames.append(tb.tb_frame)
        tb = tb.tb_next
    site = None          # innermost frame inside the libraries: module.Class.function
    transform = None     # innermost docutils Transform whose apply() is on the stack: module.Class
    through_visit_transition = False
    rst_transition = False
    through_promote_title = False
    construct = ""       # producing construct, where a frame's locals tell it (appended to the signature)
    for fr in frames:
        mod = fr.f_globals.get("__name__", "") or ""
        code = fr.f_code
        if mod.split(".")[0] in _SITE_PKGS:
            qn = getattr(code, "co_qualname", code.co_name)
            qn = qn.replace(".<locals>", "")
            site = f"{mod}.{qn}"
            if code.co_name == "apply":
                slf = fr.f_locals.get("self")
                try:
                    from docutils.transforms import Transform
                    if isinstance(slf, Transform):
                        transform = f"{type(slf).__module__}.{type(slf).__name__}"
                except Exception:
                    pass
        fn = code.co_filename.replace("\\", "/")
        if fn.endswith("docutils/transforms/misc.py") and code.co_name == "visit_transition":
            through_visit_transition = True
            rst_transition = _from_rst(fr.f_locals.get("node"))
        if fn.endswith("docutils/nodes.py") and code.co_name == "set_duplicate_name_id":
            # the name being registered is mapped to an id that eval-rst's scratch document allocated (the outer
            # registry then holds another node under that id): the failure belongs to the eval-rst splice
            try:
                docu = fr.f_locals.get("self")
                old_id = fr.f_locals.get("old_id")
                if old_id is not None and old_id in (getattr(docu, "_c03_rst_ids", None) or ()):
                    construct = ":eval-rst-id"
            except Exception:
                pass
        if fn.endswith("docutils/transforms/frontmatter.py") and code.co_name == "promote_title":
            through_promote_title = True
    cls = type(exc).__name__
    tail = "".join(_tb.format_exception(type(exc), exc, exc.__traceback__))[-900:]
    if through_visit_transition and isinstance(exc, AssertionError):
        if rst_transition:
            return {"signature": SIG_RST_SPLICE,
                    "what": f"{cls} in docutils Transitions.visit_transition: a transition produced by eval-rst inside "
                            f"a container reached the transform pipeline (stage {stage})",
                    "detail": {"exception": cls, "site": site, "traceback_tail": tail}}
        return {"signature": "transition:inside-container",
                "what": f"{cls} in docutils Transitions.visit_transition: a transition that is not directly under "
                        f"the document or a section reached the transform pipeline (stage {stage})",
                "detail": {"exception": cls, "site": site, "traceback_tail": tail}}
    if through_promote_title and isinstance(exc, AssertionError) and site and site.endswith("promote_title"):
        return {"signature": "section:no-title",
                "what": f"{cls} in docutils DocTitle (TitlePromoter.promote_title): the lone top-level section "
                        f"does not start with its title (stage {stage})",
                "detail": {"exception": cls, "site": site, "traceback_tail": tail}}
    if site is None:
        raise HarnessError(f"exception outside the implementation: {exc!r}") from exc
    return {"signature": f"exception:{cls}:{transform or site}{construct}",
            "what": f"uncaught {cls} at {site}" + (f" (transform {transform})" if transform else "") +
                    f": {str(exc)[:200]}",
            "detail": {"exception": cls, "site": site, "traceback_tail": tail}}


def normalise_case(case):
    """Fill the defaults of a (possibly partial) case dict."""
    if isinstance(case, str):
        case = {"text": case}
    c = dict(case) if isinstance(case, dict) else {"text": str(case)}
    text = c.get("text", c.get("src", c.get("source", "")))
    if not isinstance(text, str):
        text = str(text)
    mode = c.get("mode", "myst")
    if mode not in MODES:
        mode = "myst"
    exts = c.get("exts")
    if exts is None:
        exts = list(ALL_EXTS)
    exts = [e for e in exts if isinstance(e, str)]
    backend = c.get("backend", "docutils")
    if backend not in ("docutils", "sphinx"):
        backend = "docutils"
    stage = c.get("stage", "full")
    if stage not in ("parse", "full"):
        stage = "full"
    kw = c.get("kw") or {}
    if not isinstance(kw, dict):
        kw = {}
    return {"text": text, "mode": mode, "exts": list(exts), "backend": backend, "stage": stage, "kw": dict(kw)}


class HarnessError(Exception):
    """The harness (not the implementation) could not run the case."""


_PRISTINE = None     # (directives, roles) registries of docutils as they are WITHOUT a Sphinx application


def _pristine_registries():
    """The in-process Sphinx application registers its directives and roles (`math`, `eq`, `doc`, `figure-md`, ...)
    in docutils' global registries for as long as it lives.  A plain docutils run never sees those, so the
    docutils-backend cases are run against the registries as they were before Sphinx was started (otherwise
    `{eq}`x`` would reach a Sphinx role on a document without a Sphinx environment: an artefact, not a defect)."""
    global _PRISTINE
    if _PRISTINE is not None:
        return _PRISTINE
    from docutils.parsers.rst import directives, roles
    from gen import c02_lib as L
    inst = L.SphinxDriver._inst
    if inst is None:
        # Sphinx not started yet in this process: start it now (so the order of cases cannot matter) after
        # taking the snapshot
        snap = (dict(directives._directives), dict(roles._roles))
    else:
        snap = None
        try:   # what sphinx.util.docutils.docutils_namespace saved on entry
            loc = inst._ns.gen.gi_frame.f_locals
            snap = (dict(loc["_directives"]), dict(loc["_roles"]))
        except Exception:
            snap = None
        if snap is None:
            def foreign(o):
                m = getattr(o, "__module__", None) or type(o).__module__ or ""
                return m.split(".")[0] in ("sphinx", "myst_parser")
            snap = ({k: v for k, v in directives._directives.items() if not foreign(v)},
                    {k: v for k, v in roles._roles.items() if not foreign(v)})
    _PRISTINE = snap
    return snap


class _plain_docutils:
    def __enter__(self):
        from docutils.parsers.rst import directives, roles
        d, r = _pristine_registries()
        self.saved = (directives._directives, roles._roles)
        directives._directives, roles._roles = d, r

    def __exit__(self, *a):
        from docutils.parsers.rst import directives, roles
        directives._directives, roles._roles = self.saved


_MARKS_INSTALLED = False


def _install_origin_marks():
    """Observation only: the nodes that `render_restructuredtext` (the `eval-rst` directive) moves from its scratch
    document into the tree get a Python attribute `_c03_origin = "eval-rst"`, so that the walker can name the
    call site in the signature.  The original method is called unchanged."""
    global _MARKS_INSTALLED
    if _MARKS_INSTALLED:
        return
    from myst_parser.mdit_to_docutils.base import DocutilsRenderer
    orig = DocutilsRenderer.render_restructuredtext
    if getattr(orig, "_c03_wrapped", False):
        _MARKS_INSTALLED = True
        return

    def render_restructuredtext(self, token):
        cur = self.current_node
        before = {id(c) for c in cur.children}
        try:
            return orig(self, token)
        finally:
            rst_ids = getattr(self.document, "_c03_rst_ids", None)
            if rst_ids is None:
                rst_ids = set()
                try:
                    self.document._c03_rst_ids = rst_ids
                except Exception:
                    pass
            for c in cur.children:
                if id(c) in before:
                    continue
                for n in c.findall():
                    try:
                        n._c03_origin = "eval-rst"
                    except Exception:
                        pass
                    if hasattr(n, "get") and not isinstance(n, str):
                        rst_ids.update(n.get("ids", ()))

    render_restructuredtext._c03_wrapped = True
    render_restructuredtext.__wrapped__ = orig
    DocutilsRenderer.render_restructuredtext = render_restructuredtext
    _MARKS_INSTALLED = True


def _install_directive_marks():
    """Observation only: nodes returned by a directive that carry no mark yet get `_c03_origin =
    "directive:<name>"` (nested directives run first, so a node keeps the innermost directive's name).  Only used
    as the producer of a reference that is neither an id_link nor built by a resolver."""
    from myst_parser.mdit_to_docutils.base import DocutilsRenderer
    orig = DocutilsRenderer.run_directive
    if getattr(orig, "_c03_wrapped", False):
        return

    def run_directive(self, name, *a, **kw):
        out = orig(self, name, *a, **kw)
        try:
            for top in out:
                for n in top.findall():
                    if getattr(n, "_c03_origin", None) is None:
                        try:
                            n._c03_origin = "directive:" + str(name)
                        except Exception:
                            pass
        except Exception:
            pass
        return out

    run_directive._c03_wrapped = True
    run_directive.__wrapped__ = orig
    DocutilsRenderer.run_directive = run_directive


def _install_resolver_marks():
    """Observation only (Sphinx): reference nodes that exist after `MystReferenceResolver.run` /
    `ReferencesResolver.run` but did not before get `_c03_origin = "myst-xref"` / `"sphinx-xref"`."""
    from docutils import nodes
    from sphinx.transforms.post_transforms import ReferencesResolver
    from myst_parser.sphinx_ext.myst_refs import MystReferenceResolver

    def wrap(cls, label):
        orig = cls.__dict__.get("run")
        if orig is None or getattr(orig, "_c03_wrapped", False):
            return

        def run(self, **kw):
            before = list(self.document.findall(nodes.reference))     # the list keeps the objects alive
            known = {id(n) for n in before}
            try:
                return orig(self, **kw)
            finally:
                for n in self.document.findall(nodes.reference):
                    if id(n) not in known and getattr(n, "_c03_origin", None) is None:
                        try:
                            n._c03_origin = label
                        except Exception:
                            pass

        run._c03_wrapped = True
        run.__wrapped__ = orig
        cls.run = run

    wrap(MystReferenceResolver, "myst-xref")
    wrap(ReferencesResolver, "sphinx-xref")


class IdHistory:
    """Which ids the tree carried before every transform of the pipeline and at the end (diagnosis of a dangling
    refid / backref; built by `trace_ids` on a second run of the same case, never on the run that is checked)."""

    def __init__(self):
        self.steps = []        # [transform about to run | None (final tree), document, {id: [carriers]}, {id(node)}]

    def snap(self, name, document):
        ids, alive = {}, set()
        try:
            for n in document.findall():
                alive.add(id(n))
                if hasattr(n, "get") and not isinstance(n, str):
                    for i in n.get("ids", ()):
                        ids.setdefault(i, []).append(n)
        except Exception:
            return
        self.steps.append([name, document, ids, alive])

    def close(self, doc):
        self.steps = [s for s in self.steps if s[1] is doc]
        self.snap(None, doc)

    def reason(self, i):
        """never-existed: no snapshot (the tree right after parsing included) has a node with this id;
        node-removed:<T>: the nodes that carried it last left the tree while transform T ran;
        id-dropped:<T>: a node that carried it last survived transform T, without the id;
        untraced: the second run does not show the id missing."""
        steps = self.steps
        last = None
        for k, s in enumerate(steps):
            if i in s[2]:
                last = k
        if last is None:
            return "never-existed"
        if last == len(steps) - 1:
            return "untraced"
        alive = steps[last + 1][3]
        kind = "id-dropped" if any(id(c) in alive for c in steps[last][2][i]) else "node-removed"
        return f"{kind}:{steps[last][0]}"


def trace_ids(case):
    """Run the case once more with a recorder in front of every docutils Transform (observation only: the base
    class constructor is wrapped for the duration of this run; the transformer's loop is untouched)."""
    from docutils.transforms import Transform
    h = IdHistory()
    orig = Transform.__init__

    def __init__(self, document, startnode=None):
        orig(self, document, startnode=startnode)
        h.snap(type(self).__name__, document)

    Transform.__init__ = __init__
    try:
        doc, _ = produce(case)
    finally:
        Transform.__init__ = orig
    h.close(doc)
    return h


def _install_docinfo_listener(drv):
    """Observation only: Sphinx's MetadataCollector removes the `docinfo` node (a leading field list) from every
    doctree at the `doctree-read` event.  Links into that removed subtree are left dangling by Sphinx itself; the
    ids that were inside are recorded (before the collector runs) so the walker can tell this inherited
    behaviour apart from links MyST leaves dangling."""
    if getattr(drv, "_c03_listener", False):
        return

    def on_doctree_read(app, doctree):
        ids = set()
        try:
            for di in doctree.children:
                if _tag(di) == "docinfo":
                    for n in di.findall():
                        if hasattr(n, "get") and not isinstance(n, str):
                            ids.update(n.get("ids", ()))
            doctree._c03_stripped_ids = ids
        except Exception:
            pass

    drv.app.connect("doctree-read", on_doctree_read, priority=0)
    drv._c03_listener = True


def produce(case):
    """Run the implementation on a normalised case.  Returns (document, warnings_text); raises what it raises."""
    from gen import c02_lib as L
    _install_origin_marks()
    _install_directive_marks()
    text, mode, exts, kw = case["text"], case["mode"], case["exts"], case["kw"]
    try:
        cfg = L.make_config(mode, exts, **kw)
    except Exception as e:
        raise HarnessError(f"configuration rejected: {e!r}") from e
    if case["backend"] == "docutils":
        f = L.docutils_parse if case["stage"] == "parse" else L.docutils_publish
        with _plain_docutils():
            return f(text, mode, exts, **kw)
    _pristine_registries()          # snapshot before the application exists
    drv = L.SphinxDriver.get()
    _install_docinfo_listener(drv)
    _install_resolver_marks()
    return (drv.parse if case["stage"] == "parse" else drv.publish)(text, cfg)


def run_case(case, want_obs=False):
    """Run one case, return the list of failures (and the observations when asked)."""
    case = normalise_case(case)
    obs = []
    try:
        doc, warn = produce(case)
    except BaseException as exc:  # noqa: BLE001 - SystemMessage, AssertionError, RecursionError ... all count
        if isinstance(exc, (KeyboardInterrupt, SystemExit, MemoryError, HarnessError)):
            raise
        if isinstance(exc, FileNotFoundError) and str(getattr(exc, "filename", "")).endswith(".doctree"):
            # the in-process Sphinx driver never pickles doctrees; resolvers that re-read them (numref) cannot
            # run here: a limit of the harness, not an observation about the implementation
            return ([], ["harness-limit:doctree-pickle"]) if want_obs else []
        fails = [_exception_failure(exc, case["stage"])]
        return (fails, obs) if want_obs else fails
    fails = check_tree(doc, case["stage"], warn, history=lambda: trace_ids(case))
    if want_obs:
        try:
            obs = observations(doc)
        except Exception:
            obs = []
        return fails, obs
    return fails


# ------------------------------------------------------------------------------------------------ generator

IDS = ["a", "b", "c", "l", "a-b", "id1", "id2", "A", "1", "x", "footnote-1", "equation-l"]
FN_LABELS = ["1", "2", "3", "10", "a", "b", "c", "A", "note", "l"]
HEAD_TEXTS = ["a", "b", "c", "a b", "A", "1", "note", "id1", "l", "x"]
WORDS = ["a", "b", "c", "foo", "bar", "x", "lorem", "A"]
ADMON = ["note", "tip", "warning", "important", "admonition T", "attention", "seealso"]
RST_SNIPPETS = [
    "a\n\n----\n\nb", ".. _a:\n\npara", ".. [#a] rst note\n\nref [#a]_", "a\n=\n\nb", "`a`_ and a_",
    ".. [1] one\n\nsee [1]_", ".. _l:\n.. _b:\n\nx", "+---+---+\n| a | b |\n+---+---+\n| c     |\n+---+---+",
]


class DocGen:
    """Random markdown documents with real nesting: every generator returns a list of lines; containers re-prefix
    the lines of their children (\"> \" for quotes, indentation for list items / footnote and definition bodies,
    longer fences for outer directives)."""

    def __init__(self, rng, maxdepth, maxblocks):
        self.rng = rng
        self.maxdepth = maxdepth
        self.left = maxblocks
        self.tags = set()

    # ---- inline
    def pick(self, seq):
        return seq[self.rng.randrange(len(seq))]

    def atom(self):
        r = self.rng
        k = r.random()
        i = self.pick(IDS)
        if k < 0.28:
            return self.pick(WORDS)
        if k < 0.40:
            self.tags.add("fnref")
            return f"[^{self.pick(FN_LABELS)}]"
        if k < 0.52:
            self.tags.add("anchor-link")
            return self.pick([f"[t](#{i})", f"[](#{i})", f"<project:#{i}>", "[](#missing)", "[t](#no-such)",
                              f"[*e*](#{i})", f"[t](<#{i} b>)", "[t](#)", f"[t](#{i}%20x)"])
        if k < 0.60:
            self.tags.add("doc-link")
            return self.pick(["[x](other.md)", f"[x](other.md#{i})", f"[x](index.md#{i})", "[](index.md)",
                              "<path:other.md>", "<project:other.md>", f"<project:index.md#{i}>",
                              "[x](https://e.x)", "<https://e.x>", f"[x](inv:#{i})", "[x](./)", "[x](a.txt)"])
        if k < 0.70:
            self.tags.add("dupid")
            return self.pick([f"[x]{{#{i}}}", f"![i](u.png){{#{i}}}", f"`c`{{#{i}}}", f"[x]{{#{i} .k}}",
                              f"[t](#{i}){{#{i}}}", f"*e*{{#{i}}}", f"<span id=\"{i}\">s</span>"])
        if k < 0.75:
            self.tags.add("reflink")
            return self.pick([f"[x][{i}]", f"[{i}]", f"[{i}][]"])
        if k < 0.82:
            self.tags.add("role")
            return self.pick([f"{{ref}}`{i}`", f"{{eq}}`{i}`", "{math}`x`", f"{{ref}}`t <{i}>`",
                              "{abbr}`a (b)`", f"{{doc}}`{i}`", f"{{term}}`{i}`", "{unknownrole}`x`",
                              f"{{footcite}}`{i}`", f"{{any}}`{i}`", f"{{myst:ref}}`{i}`"])
        if k < 0.87:
            return self.pick(["$x$", "$$y$$", "*e*", "**s**", "`c`", "~~d~~", "<b>h</b>", "a\\\nb", "\"q\" -- (c)",
                              "![i](u.png)", "{{ s }}"])
        if k < 0.90:
            return self.pick(["[^missing]", "[^ a]", "^[inline note]", "[^1][^1]", "[^a]: x"])
        return self.pick(WORDS) + " " + self.pick(WORDS)

    def inline(self, n=None):
        n = n or self.pick([1, 1, 2, 2, 3, 4])
        return " ".join(self.atom() for _ in range(n))

    # ---- leaves
    def hr(self):
        self.tags.add("hr")
        return [self.pick(["---", "***", "___", "---", "* * *", "- - -", "_____", "  ***"])]

    def heading(self, depth):
        self.tags.add("heading" if depth == 0 else "heading-in-container")
        r = self.rng
        text = self.pick(HEAD_TEXTS) if r.random() < 0.75 else self.inline(2)
        if r.random() < 0.12:
            return [text, self.pick(["===", "---"])]
        lvl = self.pick([1, 1, 2, 2, 3, 3, 4, 5, 6])
        return ["#" * lvl + " " + text + self.pick(["", "", "", " #", ""])]

    def table(self):
        self.tags.add("table")
        r = self.rng
        ncol = self.pick([1, 2, 2, 3, 3, 4])

        def cell():
            return self.pick(["", " ", "x", self.atom(), self.atom(), "a b"]).replace("|", "/").replace("\n", " ")

        def row(n):
            cells = [cell() for _ in range(n)]
            style = r.randrange(4)
            body = " | ".join(cells)
            if style == 0 or n <= 1:
                return "| " + body + " |"
            if style == 1:
                return body if body.strip() else "| " + body + " |"
            if style == 2:
                return "| " + body
            return body + " |" if body.strip() else "| " + body + " |"

        lines = [row(ncol)]
        lines.append("|" + "|".join(self.pick(["---", ":--", "--:", ":-:", "-"]) for _ in range(ncol)) + "|")
        for _ in range(self.pick([0, 1, 2, 3, 4])):
            n = self.pick([ncol, ncol, ncol - 1, ncol + 1, ncol + 2, 1, 0, ncol])
            n = max(0, n)
            if n != ncol:
                self.tags.add("ragged-table")
            lines.append(row(n) if n else self.pick(["|", "||", "| |"]))
        return lines

    def target(self):
        self.tags.add("target")
        return [f"({self.pick(IDS)})="]

    def mathlabel(self):
        self.tags.add("mathlabel")
        lab = self.pick(["l", "l", "a", "b", "1"])
        return self.pick(["$$x$$ ({})", "$$\nx\n$$ ({})", "$$ y $$ ({})"]).format(lab).split("\n")

    def leafdirective(self, depth):
        self.tags.add("leaf-directive")
        i = self.pick(IDS)
        f = "`" * (3 + self.maxdepth - depth)
        body = self.pick([
            ["{math}", ":label: " + self.pick(["l", "a", i]), "", "x"],
            ["{figure} u.png", ":name: " + i, "", "cap " + self.atom()],
            ["{image} u.png", ":name: " + i],
            ["{code-block} python", ":name: " + i, "", "pass"],
            ["{rubric} " + self.pick(HEAD_TEXTS)],
            ["{table} T " + self.atom(), ":name: " + i, "", "|a|b|", "|-|-|", "|1|"],
            ["{list-table}", "", "* - a", "  - b", "* - c"],
            ["{contents}"],
            ["{glossary}", "", i, "  d"],
            ["{eval-rst}"] + self.pick(RST_SNIPPETS).split("\n"),
            ["{footbibliography}"],
            ["{toctree}", "", "other"],
            ["{py:function} " + self.pick(["f()", "a()", "f()"])],
            ["{option} -" + self.pick(["a", "b"])],
            ["{productionlist}", i + ": x"],
            ["{index} " + i],
            ["{sidebar} S", "", "x"],
            ["{topic} T", "", "# " + self.pick(HEAD_TEXTS)],
            ["{figure-md} " + i, "", "![i](u.png)", "", "cap"],
            ["{epigraph}", "", "q", "", "-- w"],
            ["{csv-table}", "", "a,b", "c"],
        ])
        return [f + body[0]] + body[1:] + [f]

    def misc_leaf(self, depth):
        i = self.pick(IDS)
        k = self.rng.randrange(10)
        if k == 0:
            return ["```", "code", "```"]
        if k == 1:
            self.tags.add("amsmath")
            return ["\\begin{equation}", "a", "\\end{equation}"]
        if k == 2:
            return ["+++ " + self.pick(["", "x"])]
        if k == 3:
            return ["% comment"]
        if k == 4:
            self.tags.add("linkdef")
            return [self.pick([f"[{i}]: #{i}", f"[{i}]: other.md", f"[{i}]: https://e.x 't'"])]
        if k == 5:
            self.tags.add("html")
            return self.pick([f"<div id=\"{i}\">h</div>", "<hr>", f"<img src=\"u.png\" id=\"{i}\">",
                              f"<div class=\"admonition note\" name=\"{i}\">\n<p>x</p>\n</div>"]).split("\n")
        if k == 6:
            return ["    indented code"]
        if k == 7:
            self.tags.add("tasklist")
            return ["- [ ] t", "- [x] u " + self.atom()]
        return self.leafdirective(depth)

    # ---- containers
    @staticmethod
    def indent(lines, first, rest):
        out = []
        for n, l in enumerate(lines):
            if n == 0:
                out.append(first + l)
            else:
                out.append((rest + l) if l else "")
        return out

    def quote(self, depth):
        self.tags.add("quote")
        inner = self.blocks(depth + 1, "quote")
        lazy = self.rng.random() < 0.08
        return [("> " + l if l else ">") if not (lazy and n and l and l[0].isalpha()) else l
                for n, l in enumerate(inner)]

    def listblock(self, depth, ordered):
        self.tags.add("olist" if ordered else "list")
        r = self.rng
        if ordered:
            start = self.pick([1, 1, 2, 9, 10])
            delim = self.pick([".", ")"])
        else:
            bullet = self.pick(["-", "-", "*", "+"])
        out = []
        nitems = self.pick([1, 1, 2, 3])
        loose = r.random() < 0.6
        for k in range(nitems):
            mark = f"{start + k}{delim} " if ordered else bullet + " "
            inner = self.blocks(depth + 1, "item")
            if out and (loose or out[-1] == ""):
                if out[-1] != "":
                    out.append("")
            out.extend(self.indent(inner, mark, " " * len(mark)))
        return out

    def footdef(self, depth):
        self.tags.add("footnote-def")
        lab = self.pick(FN_LABELS)
        inner = self.blocks(depth + 1, "footnote")
        return self.indent(inner, f"[^{lab}]: ", "    ")

    def deflist(self, depth):
        self.tags.add("deflist")
        out = []
        for _ in range(self.pick([1, 1, 2])):
            if out:
                out.append("")
            out.append(self.pick(HEAD_TEXTS) if self.rng.random() < 0.6 else self.inline(1))
            for _ in range(self.pick([1, 1, 2])):
                out.extend(self.indent(self.blocks(depth + 1, "definition"), ": ", "  "))
        return out

    def fieldlist(self, depth):
        self.tags.add("fieldlist")
        out = []
        for _ in range(self.pick([1, 1, 2])):
            name = self.pick(["f", "a", "param x", "l"])
            inner = self.blocks(depth + 1, "field")
            out.extend(self.indent(inner, f":{name}: ", "    "))
        return out

    def directive(self, depth, colon):
        self.tags.add("colon-directive" if colon else "directive")
        ch = ":" if colon else "`"
        f = ch * (3 + self.maxdepth - depth)
        name = self.pick(ADMON)
        inner = self.blocks(depth + 1, "directive")
        # a body starting with `---` or `:opt:` is read as an option block: start with a plain line then
        if inner and (inner[0].startswith(("---", ":", "{")) and self.rng.random() < 0.85):
            inner = [self.pick(WORDS), ""] + inner
        opts = self.pick([[], [], [], [":name: " + self.pick(IDS)], [":class: k"]])
        return [f + "{" + name.split()[0] + "}" + (" " + name.split(None, 1)[1] if " " in name else "")] + opts + \
            ([""] if opts else []) + inner + [f]

    def attrs_block(self, depth):
        self.tags.add("dupid")
        self.tags.add("attrs-block")
        i = self.pick(IDS)
        k = self.rng.randrange(7)
        if k == 0 or depth >= self.maxdepth:
            nxt = ["para " + self.atom()]
        elif k == 1:
            nxt = self.quote(depth)
        elif k == 2:
            nxt = self.listblock(depth, self.rng.random() < 0.4)
        elif k == 3:
            nxt = self.table()
        elif k == 4:
            nxt = self.heading(depth)
        elif k == 5:
            nxt = self.hr()
        else:
            nxt = self.deflist(depth)
        return [self.pick(["{{#{}}}", "{{#{} .k}}", "{{#{} #b}}", "{{.k #{}}}"]).format(i)] + nxt

    # ---- block sequence
    def block(self, depth, where):
        r = self.rng
        self.left -= 1
        can_nest = depth < self.maxdepth and self.left > 0
        k = r.random()
        if can_nest and k < 0.42:
            j = r.random()
            if j < 0.20:
                return self.quote(depth)
            if j < 0.38:
                return self.listblock(depth, False)
            if j < 0.48:
                return self.listblock(depth, True)
            if j < 0.64:
                return self.footdef(depth)
            if j < 0.72:
                return self.deflist(depth)
            if j < 0.78:
                return self.fieldlist(depth)
            if j < 0.92:
                return self.directive(depth, False)
            return self.directive(depth, True)
        j = r.random()
        if j < 0.26:
            return [self.inline()] + ([self.inline()] if r.random() < 0.2 else [])
        if j < 0.42:
            return self.hr()
        if j < 0.54:
            return self.heading(depth)
        if j < 0.64:
            return self.table()
        if j < 0.71:
            return self.target()
        if j < 0.77:
            return self.mathlabel()
        if j < 0.84:
            return self.attrs_block(depth)
        if j < 0.90:
            self.tags.add("footnote-def")
            return [f"[^{self.pick(FN_LABELS)}]: " + self.inline(2)]
        return self.misc_leaf(depth)

    def blocks(self, depth, where):
        r = self.rng
        n = self.pick([1, 1, 2, 2, 3]) if depth else self.pick([2, 3, 4, 5, 6, 8])
        out = []
        for k in range(n):
            if k and self.left <= 0:
                break
            b = self.block(depth, where)
            if out and not (r.random() < 0.06):
                out.append("")
            out.extend(b)
        return out or [self.pick(WORDS)]

    # ---- deep chain: containers nested down to maxdepth around one interesting leaf
    def chain(self):
        self.tags.add("chain")
        depth_goal = self.rng.randint(2, self.maxdepth)
        leaf = self.pick([self.hr, self.table, lambda: self.heading(depth_goal), self.target, self.mathlabel,
                          lambda: [f"[^{self.pick(FN_LABELS)}]: x"], lambda: [self.inline(3)]])
        lines = ["p " + self.atom(), ""] + leaf() if self.rng.random() < 0.7 else leaf()
        if self.rng.random() < 0.4:
            lines += ["", self.inline(1)]
        for d in range(depth_goal - 1, -1, -1):
            k = self.rng.randrange(8)
            if k == 0:
                self.tags.add("quote")
                lines = ["> " + l if l else ">" for l in lines]
            elif k == 1:
                self.tags.add("list")
                lines = self.indent(lines, "- ", "  ")
            elif k == 2:
                self.tags.add("olist")
                lines = self.indent(lines, "1. ", "   ")
            elif k == 3:
                self.tags.add("footnote-def")
                lines = self.indent(lines, f"[^{self.pick(FN_LABELS)}]: ", "    ")
            elif k == 4:
                self.tags.add("deflist")
                lines = ["T"] + self.indent(lines, ": ", "  ")
            elif k == 5:
                self.tags.add("fieldlist")
                lines = self.indent(lines, ":f: ", "    ")
            else:
                colon = k == 7
                self.tags.add("colon-directive" if colon else "directive")
                f = (":" if colon else "`") * (3 + self.maxdepth - d)
                if lines[0].startswith(("---", ":", "{")):
                    lines = ["w", ""] + lines
                lines = [f + "{" + self.pick(["note", "tip", "warning"]) + "}"] + lines + [f]
            if self.rng.random() < 0.25:
                lines = [self.inline(1), ""] + lines
        return lines

    def document(self):
        r = self.rng
        lines = []
        if r.random() < 0.06:
            self.tags.add("front-matter")
            lines += self.pick([["---", "a: 1", "---"], ["---", "myst:", "  heading_anchors: 3", "---"],
                                ["---", "title: a", "---"], ["---", "---"]]) + [""]
        if r.random() < 0.18:
            lines += self.chain()
            if r.random() < 0.5:
                lines += [""] + self.blocks(0, "document")
        else:
            lines += self.blocks(0, "document")
        if r.random() < 0.35:                       # trailing footnote definitions / refs to provoke collisions
            lab = self.pick(FN_LABELS)
            lines += ["", f"[^{lab}]: " + self.inline(1)]
            if r.random() < 0.6:
                lines += ["", f"[^{lab}]"]
        text = "\n".join(lines)
        return text + ("\n" if r.random() < 0.9 else "")


KW_CHOICES = [
    ("footnote_sort", [True, True, False]),
    ("footnote_transition", [True, False]),
    ("heading_anchors", [0, 1, 2, 3, 6]),
    ("title_to_header", [True]),
    ("all_links_external", [True]),
    ("fence_as_directive", [["note"]]),
]


def gen_case(rng, tier, i):
    """One generated base case (stage is filled in by the caller: every case is checked at both stages)."""
    thorough = tier == "thorough"
    maxdepth = rng.choice([2, 3, 4, 6]) if not thorough else rng.choice([2, 3, 4, 6, 8, 10])
    maxblocks = rng.choice([4, 8, 12, 16]) if not thorough else rng.choice([4, 8, 12, 20, 28])
    g = DocGen(rng, maxdepth, maxblocks)
    text = g.document()
    m = rng.random()
    mode = "myst" if m < 0.82 else ("gfm" if m < 0.92 else "commonmark")
    e = rng.random()
    if e < 0.35:
        exts = list(ALL_EXTS)
    elif e < 0.45:
        exts = []
    else:
        exts = [x for x in ALL_EXTS if rng.random() < 0.65]
    backend = "sphinx" if rng.random() < 0.35 else "docutils"
    kw = {}
    for name, vals in KW_CHOICES:
        p = 0.45 if name in ("footnote_sort", "heading_anchors") else 0.07
        if rng.random() < p:
            kw[name] = rng.choice(vals)
    if kw.get("fence_as_directive") is not None and mode != "myst":
        kw.pop("fence_as_directive")
    return {"text": text, "mode": mode, "exts": exts, "backend": backend, "stage": "parse", "kw": kw,
            "tags": sorted(g.tags)}


# ------------------------------------------------------------------------------------------------ witnesses

def _w(text, backends=("docutils", "sphinx"), stages=("parse", "full"), mode="myst", exts=None, **kw):
    out = []
    for b in backends:
        for s in stages:
            out.append({"text": text, "mode": mode, "exts": list(ALL_EXTS if exts is None else exts),
                        "backend": b, "stage": s, "kw": dict(kw)})
    return out


FIXED_WITNESSES = (
    # transitions inside containers
    _w("> ---\n")
    + _w("- a\n\n  ---\n")
    + _w("```{note}\n---\n```\n")
    + _w("```{note}\nx\n\n---\n\ny\n```\n")
    + _w("1. x\n\n   ***\n")
    + _w("[^1]: a\n\n    ---\n\n[^1]\n")
    + _w("> a\n>\n> ---\n>\n> b\n")
    + _w("T\n: a\n\n  ___\n\n  b\n")
    + _w(":::{note}\nx\n\n---\n\ny\n:::\n")
    + _w("> ---\n", mode="commonmark")
    + _w("> ---\n", mode="gfm")
    # duplicated identifiers
    + _w("$$a$$ (l)\n\n$$b$$ (l)\n", backends=("sphinx",))
    + _w("$$a$$ (l)\n\n$$b$$ (l)\n", backends=("docutils",))
    + _w("{#a}\n> q\n\n{#a}\n- x\n\n[x]{#a} ![i](u){#a}\n\n(a)=\n\n# a\n\n(a)=\n\n# a\n")
    # footnotes
    + _w("# a\n\n[^a]\n\n[^a]: note\n")
    + _w("[^a]\n\n[^b]: unreferenced\n\n[^a]: one\n\n[^a]: two\n\n[^1]: n\n\n[^1]\n", footnote_sort=True)
    + _w("[^a]\n\n[^b]: unreferenced\n\n[^a]: one\n\n[^a]: two\n\n[^1]: n\n\n[^1]\n", footnote_sort=False)
    + _w("[^x]: - a\n\n      # h\n\n    ---\n\n    z\n\n[^x]\n")
    # tables
    + _w("|a|b|\n|-|-|\n|1|\n|1|2|3|\n||\n")
    + _w("> |a|b|c|\n> |-|:-:|-|\n> |[^1]|\n\n- |a|\n  |-|\n  |1|2|\n", mode="gfm")
    # links
    + _w("[x](#nope)\n")
    + _w("# a\n\n[x](#a) [](#a) <project:#a> [x](other.md) [x](other.md#frag) [](#missing)\n")
    # id_link path (`[text](#name)` -> ResolveAnchorIds writes the refid): explicit targets whose NAME differs from
    # the ID docutils derives from it, on a block target, an attribute id, a definition term, and heading slugs
    # that differ from the section ids; a wrong refid shows as refid:dangling:reference:id_link:never-existed
    + _w("(My Target)=\n\n# Some Heading\n\n[x](#my%20target) [](#my%20target) <project:#my%20target> "
         "[z](#some-heading)\n\n[i]{#X_y} [k](#x_y)\n\n(t 2)=\nTerm Y\n: def\n\n[](#t%202)\n")
    + _w("# A.b c\n\n## A.b c\n\n[z](#ab-c) [](#ab-c-1) <project:#ab-c>\n", heading_anchors=2)
    # docutils Contents copies a section title into the table of contents together with an inline that carries an
    # id (only MyST's attrs_inline puts ids on inlines)
    + _w("```{contents}\n```\n\n# a\n\n## [x]{#l} b\n")
    # headings in containers / jumping levels
    + _w("# a\n\n### c\n\n## b\n\n> # q\n\n- ## r\n")
    # found by the generator on the unchanged tree (one minimal witness per signature, so that every run
    # reproduces them):
    # explicit id equal to an existing name: the duplicate-name system_message lands in front of the title
    + _w("# a\n\n{#a}\n# b\n")
    + _w("(x)=\n\n{#x}\n# h\n")       # the same, lone section: docutils DocTitle asserts on the missing title
    # eval-rst: a separately numbered scratch document is spliced into the current node
    + _w("- ```{eval-rst}\n  a\n  =\n  ```\n")
    + _w("[x]{#a}\n\n```{eval-rst}\n.. _a:\n```\n")
    + _w("```{eval-rst}\n.. [#] x\n```\n")
    + _w("> ```{eval-rst}\n> a\n>\n> ----\n>\n> b\n> ```\n")
    + _w("[^1]\n\n```{eval-rst}\n[#]_\n```\n")
    + _w("1. # A\n2. ```{eval-rst}\n   .. _a:\n   ```\n\n[x]{#A}\n")
    # Sphinx: empty block quote carrying an id (HandleCodeBlocks replaces it by its - no - children)
    + _w("{#l}\n>\n", backends=("sphinx",))
    # Sphinx: explicit id equal to a math label's equation id
    + _w("(equation-l)=\n\n$$a$$ (l)\n", backends=("sphinx",))
    # leading field list becomes docinfo (docutils) and is removed from the tree (Sphinx)
    + _w(":f: [^l]\n\n[^l]: x\n")
    + _w(":f: [x]{#l}\n\n[y](#l)\n")
    # docutils transforms that discard a node which had received a propagated target id (DocInfo rebuilds the
    # leading field list, Contents removes an empty table of contents)
    + _w("(b)=\n:x: y\n\n[x](#b)\n")
    + _w("(a)=\n```{contents}\n```\n\n[x](#a)\n")
    # id on an anchor link that Sphinx resolves to an equation: the id disappears with the replaced node
    + _w("[](#1){#1} [^1]\n\n> $$a$$ (1)\n", backends=("sphinx",))
    # (since 37bd485 that link resolves to itself; the cause needs a link that a Sphinx domain resolves with a
    # content node of its own: the math domain's "(1)")
    + _w("[t](#l){#k} [u](#k)\n\n$$a$$ (l)\n", backends=("sphinx",))
    + _w("[t](#l){#k} [^k]\n\n$$a$$ (l)\n\n[^k]: x\n", backends=("sphinx",))
    # an id on an anchor link that nothing resolves stays in the tree (ResolveAnchorIds moves ids/names to the
    # pending_xref's inner node, MystReferenceResolver keeps that node)
    + _w("[t](#nope){#k} [u](#k)\n")
)


# ------------------------------------------------------------------------------------------------ search / replay

_CLAUSE_TEXT = {
    "occurs-once": "every node occurs exactly once in the tree",
    "parent-pointer": "every child's parent pointer is the node that lists it",
    "section": "sections occur only directly under the document or another section and start with a title",
    "transition": "transitions occur only directly under the document or a section",
    "structure": "sections and transitions occur only directly under the document or a section",
    "ids": "all identifiers are unique",
    "refid": "every refid points at an identifier that exists in the tree unless a 'target not found' warning "
             "was issued for it",
    "backref": "every footnote backref points at an identifier that exists in the tree",
    "table": "every table row has exactly as many cells as the table declares columns",
    "footnote": "after processing every footnote starts with its label",
    "exception": "the implementation produces a document (no uncaught exception)",
}

_CONSTRUCT_RES = [
    ("table", re.compile(r"^\W*\|?[ :]*-+[ :]*\|", re.M)),
    ("hr", re.compile(r"^[ >\d.)\-*+:]*(?:-{3,}|\*{3,}|_{3,}|\* \* \*|- - -)\s*$", re.M)),
    ("footnote", re.compile(r"\[\^")),
    ("dupid", re.compile(r"\{#|\)=\s*$", re.M)),
    ("heading", re.compile(r"^[ >\-*+\d.)]*#{1,6} ", re.M)),
    ("mathlabel", re.compile(r"\$\$ *\(")),
    ("anchor-link", re.compile(r"\]\(<?#|<project:#")),
    ("directive", re.compile(r"^[ >]*(?:`{3,}|:{3,})\{", re.M)),
]


def _count_case(ctx, case):
    ctx.count("c03:mode:" + case["mode"])
    ctx.count("c03:backend:" + case["backend"])
    ctx.count("c03:stage:" + case["stage"])
    for name, rx in _CONSTRUCT_RES:
        if rx.search(case["text"]):
            ctx.count("c03:has:" + name)


def _witness(case):
    return {k: case[k] for k in ("text", "mode", "exts", "backend", "stage", "kw")}


class _Reporter:
    def __init__(self, ctx):
        self.ctx = ctx
        self.per_sig = {}

    def run(self, case):
        ctx = self.ctx
        case = normalise_case(case)
        ctx.search_cases += 1
        _count_case(ctx, case)
        fails, obs = run_case(case, want_obs=True)
        for o in obs:
            ctx.count("c03:obs:" + o)
        done = set()
        for f in fails:
            sig = f["signature"]
            ctx.count("c03:fail:" + sig)
            if sig in done:          # one report per signature per case
                continue
            done.add(sig)
            n = self.per_sig.get(sig, 0)
            self.per_sig[sig] = n + 1
            if n < MAX_FAIL_PER_SIGNATURE:
                ctx.fail(sig, witness=_witness(case), what=f["what"],
                         expected=_CLAUSE_TEXT.get(sig.split(":")[0], "well-formed docutils tree"),
                         observed=f["detail"])
        if not fails:
            ctx.count("c03:ok")
        return fails


def _suspect_variants(case, deep):
    base = normalise_case(case)
    explicit_backend = isinstance(case, dict) and "backend" in case
    explicit_stage = isinstance(case, dict) and "stage" in case
    out = []
    for b in ((base["backend"],) if explicit_backend and not deep else ("docutils", "sphinx")):
        for s in ((base["stage"],) if explicit_stage and not deep else ("parse", "full")):
            out.append(dict(base, backend=b, stage=s))
    if deep:
        lines = base["text"].split("\n")
        wraps = [
            "\n".join(("> " + l) if l else ">" for l in lines),
            "\n".join(DocGen.indent(lines, "- ", "  ")),
            "\n".join(["`````{note}", "w", ""] + lines + ["`````"]),
            "\n".join(DocGen.indent(lines, "[^1]: ", "    ")) + "\n\n[^1]",
            "# a\n\n" + base["text"] + "\n\n" + base["text"],
        ]
        for t in wraps:
            for b in ("docutils", "sphinx"):
                for s in ("parse", "full"):
                    out.append(dict(base, text=t + "\n", backend=b, stage=s))
    return out


def search(ctx):
    rep = _Reporter(ctx)
    for sus in list(getattr(ctx, "suspects", []) or []):
        try:
            for case in _suspect_variants(sus, getattr(ctx, "deep", False)):
                ctx.count("c03:source:suspect")
                rep.run(case)
        except (KeyboardInterrupt, SystemExit, MemoryError):
            raise
        except Exception:
            ctx.count("c03:suspect-not-understood")
    for case in FIXED_WITNESSES:
        ctx.count("c03:source:fixed")
        rep.run(case)
    n = ctx.budget(400, 6000, 6000)
    tier = getattr(ctx, "tier", "quick")
    for i in range(n):
        base = gen_case(ctx.rng, tier, i)
        for t in base.get("tags", ()):
            ctx.count("c03:gen:" + t)
        if i % max(1, n // 8) == 0:
            ctx.sample(_witness(base))
        for stage in ("parse", "full"):
            ctx.count("c03:source:generated")
            rep.run(dict(base, stage=stage))
    return rep.per_sig


def replay(ctx, data):
    case = normalise_case(data.get("witness", data))
    fails = run_case(case)
    print(f"C03 replay: backend={case['backend']} stage={case['stage']} mode={case['mode']} "
          f"exts={','.join(case['exts']) or '-'} kw={case['kw']}")
    print("input: " + repr(case["text"]))
    if not fails:
        print("property holds on this input")
        return 0
    for f in fails:
        print(f"FAIL {f['signature']}: {f['what']}")
        if f.get("detail") is not None:
            print("     " + str(f["detail"])[:600])
    return 1


# ------------------------------------------------------------------------------------------------ minimiser

def minimise(case, signature, max_runs=1500):
    """Greedy delta-debugging of a failing case's text (lines, then characters) keeping the same signature; also
    tries to drop extensions and extra configuration.  Development aid (used by __main__ only)."""
    case = normalise_case(case)
    runs = [0]

    def bad(c):
        runs[0] += 1
        try:
            return any(f["signature"] == signature for f in run_case(c))
        except HarnessError:
            return False

    if not bad(case):
        return case

    def shrink(units, join):
        n = 2
        while len(units) >= 1 and runs[0] < max_runs:
            chunk = max(1, len(units) // n)
            removed = False
            k = 0
            while k < len(units) and runs[0] < max_runs:
                cand = units[:k] + units[k + chunk:]
                if bad(dict(case, text=join(cand))):
                    units = cand
                    removed = True
                else:
                    k += chunk
            if chunk == 1 and not removed:
                break
            if not removed:
                n = min(len(units), n * 2) or 1
        return units

    lines = shrink(case["text"].split("\n"), "\n".join)
    case = dict(case, text="\n".join(lines))
    chars = shrink(list(case["text"]), "".join)
    case = dict(case, text="".join(chars))
    for e in list(case["exts"]):
        c = dict(case, exts=[x for x in case["exts"] if x != e])
        if bad(c):
            case = c
    for k in list(case["kw"]):
        c = dict(case, kw={a: b for a, b in case["kw"].items() if a != k})
        if bad(c):
            case = c
    if case["mode"] != "commonmark" and bad(dict(case, mode="commonmark")):
        case = dict(case, mode="commonmark")
    return case


# ------------------------------------------------------------------------------------------------ own test

class _DummyCtx:
    def __init__(self, seed=0, tier="quick"):
        import random
        self.rng = random.Random(seed)
        self.tier = tier
        self.deep = False
        self.suspects = []
        self.failures = []
        self.counts = {}
        self.samples = []
        self.search_cases = 0
        self._n = 0

    def budget(self, quick, thorough, deep=None):
        return self._n

    def count(self, key, n=1):
        self.counts[key] = self.counts.get(key, 0) + n

    def sample(self, x, limit=12):
        if len(self.samples) < limit:
            self.samples.append(x)

    def fail(self, signature, witness, what, expected=None, observed=None):
        self.failures.append({"signature": signature, "witness": witness, "what": what, "expected": expected,
                              "observed": observed})


def _main(argv):
    import time
    n = int(argv[1]) if len(argv) > 1 else 100
    seed = int(argv[2]) if len(argv) > 2 else 0
    tier = argv[3] if len(argv) > 3 else "quick"
    ctx = _DummyCtx(seed, tier)
    ctx._n = n
    t0 = time.time()
    per_sig = search(ctx)
    dt = time.time() - t0
    print(f"cases run: {ctx.search_cases} (fixed {len(FIXED_WITNESSES)} + generated {n} x 2 stages) in {dt:.1f}s")
    best = {}
    for f in ctx.failures:
        w = f["witness"]
        cur = best.get(f["signature"])
        if cur is None or len(w["text"]) < len(cur["witness"]["text"]):
            best[f["signature"]] = f
    print(f"{'signature':<60} {'cases':>6}")
    for sig in sorted(per_sig):
        print(f"{sig:<60} {per_sig[sig]:>6}")
        f = best[sig]
        w = minimise(f["witness"], sig) if os.environ.get("C03_MINIMISE", "1") != "0" else f["witness"]
        print(f"      {w['backend']}/{w['stage']}/{w['mode']} kw={w['kw']} exts={w['exts']} text={w['text']!r}"[:600])
        print(f"      what: {f['what']}"[:300])
    print("histogram:")
    for k in sorted(ctx.counts):
        if not k.startswith("c03:fail:"):
            print(f"   {k:<40} {ctx.counts[k]}")
    return 0


if __name__ == "__main__":
    sys.exit(_main(sys.argv))
