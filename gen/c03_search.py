"""C03 search component: "every produced document is a well-formed docutils tree".

An independent walker (`check_tree`) over the REAL doctree produced by the implementation (docutils front end
and in-process Sphinx renderer, directly after parsing and after the whole transform pipeline), a block-structured
random markdown generator that stresses every clause of the property, hand-written witnesses, and the
search / replay entry points used by props/C03.py.

Nothing here models the implementation: the walker only reads `node.children`, `node.parent`, `node.tagname`
and the attributes `ids`, `refid`, `backrefs`, `cols`, `morecols`, `morerows`; to NAME a failure (signature) it
also reads `id_link`, `auto`, `names`, `classes`, `label` and the observation marks the driver's hooks leave.

Signatures (one per cause: violated clause, then the party at fault; never the single witness):

  occurs-once:<tag>[:<construct>]   parent-pointer:<tag>[:<construct>]
                            construct = directive:<name> | eval-rst: the node (and the node that lists it) came out of
                            that directive's run(), i.e. node-BUILDING code of the directive or of MyST's mocked state
                            (mocking.py: block_quote, nest_line_block_lines, inline_text, build_table ...) is at fault.
                            Appended when the failure is there directly after parsing (no transform has run); a failure
                            that only exists after the transform pipeline keeps the bare form (a transform did it)
  section:under-<parent tag>   section:no-title[:eval-rst]   transition:inside-container
  structure:eval-rst-splice:section-or-transition-under-container      (section / transition spliced under a container
                                                                        by `{eval-rst}`; one cause: see SIG_RST_SPLICE)
  ids:duplicate:<who>       who = eval-rst | toc-copy | math-label+math-label | math-label+other | <tagA>+<tagB>
  refid:dangling:<lost>     lost = docinfo-stripped | node-removed:<Transform> | id-dropped:<Transform>: the id existed
                            and that party lost it (found by `trace_ids`: ids before every transform of a second run);
                            lost = dropped-by:directive:<name>: the id is registered in document.ids for a node that a
                            nested parse made for that directive and the directive did not return (it validated
                            the parsed content and returned only an error)
  refid:dangling:<tag>:<producer>:never-existed   no tree of the pipeline ever had the id: the writer of the refid is
                            at fault.  tag = reference | footnote_reference | citation_reference | target; producer =
                            id_link | myst-xref | sphinx-xref | contents | eval-rst | directive:<name> | other (reference),
                            auto | symbol | manual | eval-rst (footnote/citation reference), propagated | indirect |
                            eval-rst (target).  (`:untraced` instead of `:never-existed`: the second run could not tell)
  backref:dangling:<lost>   backref:dangling:<footnote|citation>:<auto|symbol|manual|eval-rst>:never-existed
  table:cols-colspecs   table:row-cells[:eval-rst]
  footnote:no-label-first[:eval-rst]
  exception:<Class>:<innermost Transform on the stack, else innermost library function>[:eval-rst-id|:detached-startnode]
                            (library function: container accessors of docutils.nodes such as Element.__getitem__ are
                            skipped - `node[0]` is charged to the function that indexed; detached-startnode: the
                            transform was started for a `pending` node that is not in the document)

Round 3: directives that reach MyST's mocked docutils state (mocking.py) are driven with structured bodies:
MOCK_USE_CORE / MOCK_USE_SPHINX (state member -> directives, derived from the directive sources and re-derived on every
run by `selfcheck_mock_table`), MOCK_DOCS (deterministic witnesses, search-only: `ALL_WITNESSES`), the `structured`
generators of DocGen (search-only: `gen_case(..., structured=STRUCTURED_SHARE)`), observation probes on the mock's
methods (`MOCK_HITS`; `selfcheck_mock_reach`: every (callable member, directive) pair of the tables is reached by a
witness) and INC_DIR (placeholder for the scratch directory with the files of `{include}` / `{literalinclude}`).

Own test run:  PYTHONPATH=/repo /venv/bin/python /verif/gen/c03_search.py [n] [seed]
"""
from __future__ import annotations

import ast
import os
import re
import sys
import traceback as _tb

_HERE = os.path.dirname(os.path.abspath(__file__))
_VERIF = os.path.dirname(_HERE)
if _VERIF not in sys.path:
    sys.path.insert(0, _VERIF)

from gen.c02_lib import ALL_EXTS, MODES  # noqa: E402  (no myst/docutils import at module level)

MAX_FAIL_PER_SIGNATURE = 3

# ------------------------------------------------------------------------------------------------ walker

_NOT_FOUND_RE = re.compile(
    r"(?:cross-reference target not found|reference target not found|Unknown target name|undefined label)"
    r":\s*(?P<q>'(?:[^'\\]|\\.)*'|\"(?:[^\"\\]|\\.)*\")")

# elements whose `refid` is an "internal link" in the sense of the property text
_LINK_TAGS = ("reference", "footnote_reference", "citation_reference", "target")


# one cause, one signature: `{eval-rst}` content is parsed by docutils' rST parser as a complete top-level document
# (state machine with match_titles=True: section titles and transitions are accepted) and its children are then
# spliced into whatever node is current, so a section / transition lands under a block quote, list item ...
SIG_RST_SPLICE = "structure:eval-rst-splice:section-or-transition-under-container"


def _tag(node):
    return getattr(node, "tagname", None) or type(node).__name__


def _warned_targets(warnings_text):
    """Targets for which a 'target not found' style warning was issued (decoded from their repr) together with
    their markdown-it normalised form (that is what ResolveAnchorIds stores as refid on the docutils side)."""
    out = set()
    for m in _NOT_FOUND_RE.finditer(warnings_text or ""):
        q = m.group("q")
        try:
            t = ast.literal_eval(q)
        except Exception:
            t = q[1:-1]
        if not isinstance(t, str):
            continue
        out.add(t)
        try:
            from markdown_it.common.normalize_url import normalizeLink
            out.add(normalizeLink(t))
        except Exception:
            pass
    return out


def _from_rst(*nodes_):
    """True when one of the nodes was produced by the nested reStructuredText parse of `eval-rst` (the driver
    marks those nodes, see `_install_origin_marks`).  Such failures get their own signature family: the tags
    involved are arbitrary there (the rST snippet is a document of its own, numbered separately)."""
    return any(getattr(n, "_c03_origin", None) == "eval-rst" for n in nodes_ if n is not None)


def _origin(node):
    """Observation mark left by the driver's hooks on the node object: "eval-rst", "directive:<name>",
    "myst-xref" (reference built by MyST's Sphinx post-transform from a Markdown link's pending_xref),
    "sphinx-xref" (reference built by Sphinx' ReferencesResolver from a role's pending_xref), or None."""
    return getattr(node, "_c03_origin", None)


def _note_kind(node):
    """Numbering kind of a footnote / footnote_reference / citation(_reference), read off the `auto` attribute:
    auto (auto=1: MyST `[^label]`, rST `[#]_` / `[#label]_`), symbol (auto='*': rST only), manual (no `auto`: MyST
    `[^1]` with an all-digit label, rST `[1]_`)."""
    try:
        a = node.get("auto")
    except Exception:
        a = None
    if a == 1 or a == "1":
        return "auto"
    if a == "*":
        return "symbol"
    return "manual"


def _in_contents(node):
    """Inside the topic docutils' Contents transform builds (entries are filtered deep copies of section titles)."""
    n = getattr(node, "parent", None)
    while n is not None:
        try:
            if _tag(n) == "topic" and "contents" in (n.get("classes") or ()):
                return True
        except Exception:
            pass
        n = getattr(n, "parent", None)
    return False


def _producer(node):
    """The construct that produced a node carrying a refid / backrefs (second-to-last signature component).

    reference:           id_link (MyST `[text](#name)` / `<project:#name>`: render_link_anchor marks the node, the
                         refid is written by ResolveAnchorIds), myst-xref, sphinx-xref, contents (entry of a docutils
                         table of contents), eval-rst, directive:<name>, other
    footnote_reference,
    footnote, citation*: eval-rst, else auto | symbol | manual
    target:              eval-rst, propagated (refid written by docutils PropagateTargets: ids and names moved to the
                         next node), indirect (keeps its own names/ids)"""
    t = _tag(node)
    org = _origin(node)
    if org == "eval-rst":
        return "eval-rst"
    if t == "reference":
        try:
            if node.get("id_link"):
                return "id_link"
        except Exception:
            pass
        if org in ("myst-xref", "sphinx-xref"):
            return org
        if _in_contents(node):
            return "contents"
        return org or "other"
    if t in ("footnote_reference", "citation_reference", "footnote", "citation"):
        return _note_kind(node)
    if t == "target":
        try:
            if not node.get("ids") and not node.get("names"):
                return "propagated"
        except Exception:
            pass
        return "indirect"
    return org or "other"


def _dangling_key(tag, producer, why):
    """Signature tail of a dangling refid / backref: the party at fault.

    The id existed and something lost it (docinfo-stripped, node-removed:<Transform>, id-dropped:<Transform>): the
    signature names that culprit only - which kind of node still points at the id is not part of the cause (kind
    and producer are in `what` / the detail).  The id never existed (or the second run could not tell): whoever
    wrote the refid is at fault, so the signature names the referring node's tag and its producing construct."""
    if why in ("never-existed", "untraced"):
        return f"{tag}:{producer}:{why}"
    return why


def _is_math_anchor(node):
    """Sphinx equation anchor: the `target` MyST's add_math_target puts in front of a labelled math_block (parse
    stage) or the math_block itself once docutils has propagated the id to it (full stage)."""
    try:
        from docutils.nodes import make_id
        t = _tag(node)
        if t == "math_block" and node.get("label") is not None:
            return make_id("equation-%s" % node["label"]) in node.get("ids", [])
        if t == "target" and node.parent is not None and not node.get("names"):
            sibs = node.parent.children
            k = next((n for n, c in enumerate(sibs) if c is node), None)
            if k is not None and k + 1 < len(sibs):
                nx = sibs[k + 1]
                if _tag(nx) == "math_block" and nx.get("label") is not None:
                    return make_id("equation-%s" % nx["label"]) in node.get("ids", [])
    except Exception:
        pass
    return False


def _short(node, limit=160):
    try:
        s = node.shortrepr() if hasattr(node, "shortrepr") else repr(node)
    except Exception:
        s = _tag(node)
    return s[:limit]


def _path(node, limit=12):
    """tag path root -> node (structural context for 'what')."""
    tags = []
    n = node
    while n is not None and len(tags) < limit:
        tags.append(_tag(n))
        n = getattr(n, "parent", None)
    return "/".join(reversed(tags))


WALKED_TAGS = {}          # tag -> elements met by check_tree so far ("!mismatch": walks that disagree with findall)
# what the structured witnesses must make the walker meet (parse or full stage)
_MUST_WALK = ("decoration", "header", "footer", "line_block", "line", "block_quote", "attribution", "figure", "caption",
              "legend", "table", "tgroup", "thead", "tbody", "row", "entry", "title", "subtitle", "sidebar", "topic",
              "rubric", "admonition", "compound", "container", "literal_block", "pending", "problematic",
              "system_message", "substitution_definition", "glossary", "definition_list_item", "term",
              "definition", "productionlist", "production", "versionmodified", "seealso", "centered", "hlist",
              "hlistcol", "acks", "only", "toctree", "desc", "desc_signature", "desc_content",
              "desc_parameterlist", "field_list", "field", "field_body", "index", "tabular_col_spec", "highlightlang",
              "math_block", "target", "footnote", "footnote_reference", "image", "reference", "raw", "inline")


def _construct_of(node, *listers):
    """Producing construct of a node that is listed twice / has a wrong parent pointer, when it can be told
    cheaply: the observation mark `directive:<name>` / `eval-rst` the driver left on the node, provided one of the
    nodes that list it carries the same mark (both came out of the same directive run)."""
    org = _origin(node)
    if not org or not (org == "eval-rst" or org.startswith("directive:")):
        return ""
    if any(p is not None and _origin(p) == org for p in listers):
        return ":" + org
    return ""


_DROP_LABELS = {}


def _drop_label(name):
    """Name of a content-dropping directive in a signature: the directive's name as written, except for the object
    descriptions of the Sphinx domains (py:function, c:member, js:class, option, describe ... - some sixty names
    that share ObjectDescription.run and its DocFieldTransformer): they are one call site, `object-description`."""
    if name in _DROP_LABELS:
        return _DROP_LABELS[name]
    label = name
    try:
        from gen import c02_lib as L
        inst = L.SphinxDriver._inst
        if inst is not None:
            from sphinx.directives import ObjectDescription
            core, sph = registered_directives(inst.app)
            for cand in (name, "std:" + name, "py:" + name):
                cls = sph.get(cand)
                if cls is not None:
                    if issubclass(cls, ObjectDescription):
                        label = "object-description"
                    break
    except Exception:
        pass
    _DROP_LABELS[name] = label
    return label


def check_tree(doc, stage, warnings_text="", history=None, at_parse=None):
    """Independent well-formedness walker.  Returns a list of {"signature", "what", "detail"}.

    `history`: optional zero-argument callable returning an `IdHistory` of the same case (asked only when a
    dangling refid / backref is found at the full stage, to name the reason in the signature).
    `at_parse`: optional zero-argument callable returning the set of signatures the same case has directly after
    parsing (asked only when an occurs-once / parent-pointer failure is found at the full stage: the producing
    construct is named only if the failure was there before any transform ran)."""
    fails = []

    def fail(sig, what, detail=None):
        fails.append({"signature": sig, "what": what, "detail": detail})

    parse_sigs = [None]

    def built_by(sig, node, *listers):
        """sig + ':<construct>' when the node-building construct is known to be at fault (see _construct_of)."""
        suffix = _construct_of(node, *listers)
        if not suffix:
            return sig
        if stage != "parse":
            if parse_sigs[0] is None:
                try:
                    parse_sigs[0] = set(at_parse()) if at_parse is not None else set()
                except (KeyboardInterrupt, SystemExit, MemoryError):
                    raise
                except BaseException:  # noqa: BLE001 - diagnosis only
                    parse_sigs[0] = set()
            if sig + suffix not in parse_sigs[0]:
                return sig
        return sig + suffix

    # ---- clause 1: one parent, one occurrence (Text nodes included); builds the list of elements
    seen = {}                 # id(obj) -> obj (keeps the objects alive, so id() cannot be recycled)
    elements = []             # every element once
    if getattr(doc, "parent", None) is not None:
        fail("parent-pointer:" + _tag(doc), "root has a parent", _short(doc))
    seen[id(doc)] = doc
    lister = {id(doc): None}  # id(obj) -> the node whose child list contains it (the structural parent)
    stack = [doc]
    while stack:
        p = stack.pop()
        elements.append(p)    # pop order = document order; every element is pushed exactly once
        kids = list(getattr(p, "children", ()) or ())
        fresh = []
        for c in kids:
            if id(c) in seen:
                first = lister.get(id(c))
                fail(built_by("occurs-once:" + _tag(c), c, first, p),
                     f"the same {_tag(c)} object is reachable twice (first under "
                     f"{_tag(first) if first is not None else None}, again under {_tag(p)})",
                     {"node": _short(c), "first_parent": _path(first) if first is not None else None,
                      "second_parent": _path(p), "origin": _origin(c)})
                continue
            seen[id(c)] = c
            lister[id(c)] = p
            if getattr(c, "parent", None) is not p:
                fail(built_by("parent-pointer:" + _tag(c), c, p, getattr(c, "parent", None)),
                     f"{_tag(c)} is a child of {_tag(p)} but its parent pointer is "
                     f"{_tag(getattr(c, 'parent', None)) if getattr(c, 'parent', None) is not None else None}",
                     {"node": _short(c), "listed_under": _path(p), "origin": _origin(c)})
            if hasattr(c, "children") and not isinstance(c, str):
                fresh.append(c)
        stack.extend(reversed(fresh))       # a node reached a second time is reported, not descended into again
    # self-check of the walk: it reads nothing but `.children`, so it descends into whatever a directive builds
    # (decoration/header/footer, line_block/line, attribution, caption/legend, term/classifier, desc_* ...; the
    # `details` of a pending node are not children).  Tags seen are recorded, and on a tree without duplicates the
    # walk must have met exactly the nodes docutils' own traversal yields.
    for e in elements:
        WALKED_TAGS[_tag(e)] = WALKED_TAGS.get(_tag(e), 0) + 1
    if not fails:
        try:
            n_docutils = sum(1 for _ in doc.findall())
        except Exception:
            n_docutils = None
        if n_docutils is not None and n_docutils != len(seen):
            WALKED_TAGS["!mismatch"] = WALKED_TAGS.get("!mismatch", 0) + 1

    # ---- clauses 2, 3: sections and transitions
    for e in elements:
        t = _tag(e)
        if t == "section":
            par = lister.get(id(e))        # the node that lists it (not the pointer, which clause 1 checks)
            ptag = _tag(par) if par is not None else "None"
            if ptag not in ("document", "section"):
                fail(SIG_RST_SPLICE if _from_rst(e) else "section:under-" + ptag,
                     f"section node directly under {ptag}", _path(e))
            if not e.children or _tag(e.children[0]) != "title":
                fail("section:no-title" + (":eval-rst" if _from_rst(e) else ""), "section whose first child is " +
                     (_tag(e.children[0]) if e.children else "missing (empty section)"), _path(e))
        elif t == "transition":
            par = lister.get(id(e))
            ptag = _tag(par) if par is not None else "None"
            if ptag not in ("document", "section"):
                fail(SIG_RST_SPLICE if _from_rst(e) else "transition:inside-container",
                     f"transition node directly under {ptag} (stage {stage})", _path(e))

    # ---- clause 4: identifiers unique
    rst_ids = getattr(doc, "_c03_rst_ids", None) or ()          # id strings numbered by eval-rst's own document
    stripped_ids = getattr(doc, "_c03_stripped_ids", None) or ()  # ids inside the docinfo Sphinx removed
    owner = {}
    for e in elements:
        try:
            ids = e.get("ids", [])
        except Exception:
            ids = []
        for i in ids:
            if i in owner and owner[i] is not e:
                o = owner[i]
                if _from_rst(o, e) or i in rst_ids:
                    kinds = "eval-rst"
                else:
                    ma, mb = _is_math_anchor(o), _is_math_anchor(e)
                    if _in_contents(o) != _in_contents(e):
                        kinds = "toc-copy"           # docutils Contents copied a title's inline that carries an id
                    elif ma and mb:
                        kinds = "math-label+math-label"
                    elif ma != mb:
                        kinds = "math-label+other"
                    else:
                        kinds = "+".join(sorted((_tag(o), _tag(e))))
                fail(f"ids:duplicate:{kinds}", f"id {i!r} is carried by two nodes ({_tag(owner[i])} and {_tag(e)})",
                     {"id": i, "first": _path(owner[i]), "second": _path(e)})
            else:
                owner.setdefault(i, e)

    # ---- clause 5: internal links resolve
    warned = None
    hist = [None, False]

    def dropped_by(i):
        """The id is registered in `document.ids` for a node that is not in the tree and that a nested parse made
        on behalf of a directive: the directive parsed its content and then dropped it (docutils `table`,
        `list-table`, `figure` ... validate the parsed content and return only an error), while the registries of
        the document (ids, names, footnote references) still know the dropped nodes."""
        try:
            n = (getattr(doc, "ids", None) or {}).get(i)
        except Exception:
            n = None
        if n is None or id(n) in seen:
            return None
        # the directive that dropped it: the mark on the topmost marked node of the detached subtree (what the
        # dropping directive's own nested parse produced; nested directives marked only their own content)
        name, hops = None, 0
        while n is not None and hops < 200:
            name = getattr(n, "_c03_parsed_for", None) or name
            n, hops = getattr(n, "parent", None), hops + 1
        return ("dropped-by:directive:" + _drop_label(name)) if name else None

    def why_missing(i):
        """Last signature component: why no node of the final tree carries id `i` (see `IdHistory.reason`)."""
        if i in stripped_ids:
            return "docinfo-stripped"
        if stage == "parse":
            return dropped_by(i) or "never-existed"       # nothing ran between the renderer and this walk
        w = _why_missing_full(i)
        return (dropped_by(i) or w) if w == "never-existed" else w

    def _why_missing_full(i):
        if not hist[1]:
            hist[1] = True
            try:
                hist[0] = history() if history is not None else None
            except (KeyboardInterrupt, SystemExit, MemoryError):
                raise
            except BaseException:  # noqa: BLE001 - diagnosis only
                hist[0] = None
        return hist[0].reason(i) if hist[0] is not None else "untraced"

    for e in elements:
        t = _tag(e)
        if t in _LINK_TAGS and e.hasattr("refid"):
            rid = e["refid"]
            if rid not in owner:
                if warned is None:
                    warned = _warned_targets(warnings_text)
                if rid not in warned:
                    prod, why = _producer(e), why_missing(rid)
                    fail("refid:dangling:" + _dangling_key(t, prod, why), f"{t} ({prod}) refid {rid!r} is not the "
                         f"id of any node ({why}) and no 'target not found' warning names it",
                         {"refid": rid, "at": _path(e), "producer": prod, "why": why})
        if t in ("footnote", "citation"):
            for b in e.get("backrefs", []):
                if b not in owner:
                    prod, why = _producer(e), why_missing(b)
                    fail("backref:dangling:" + _dangling_key(t, prod, why), f"{t} ({prod}) backref {b!r} is not "
                         f"the id of any node ({why})", {"backref": b, "at": _path(e), "producer": prod, "why": why})

    # ---- clause 6: table shape
    for e in elements:
        if _tag(e) != "tgroup":
            continue
        colspecs = [c for c in e.children if _tag(c) == "colspec"]
        cols = e.get("cols")
        if not isinstance(cols, int) or cols != len(colspecs):
            fail("table:cols-colspecs", f"tgroup cols={cols!r} but {len(colspecs)} colspec children", _path(e))
            continue
        for part in e.children:
            if _tag(part) not in ("thead", "tbody"):
                continue
            carry = [0] * cols                      # remaining rowspan per column
            for ri, row in enumerate(part.children):
                if _tag(row) == "transition":
                    continue        # reported under its own clause (a misplaced transition that docutils'
                    #                 Transitions transform moved up out of a cell); not a row of the table
                if _tag(row) != "row":
                    fail("table:row-cells", f"{_tag(part)} child is {_tag(row)}, not row", _path(row))
                    continue
                free = [k for k in range(cols) if carry[k] == 0]
                width, ok = 0, True
                spans = []
                for ent in row.children:
                    if _tag(ent) == "transition":
                        continue    # the same: clause 3 reports it
                    if _tag(ent) != "entry":
                        ok = False
                        continue
                    w = 1 + int(ent.get("morecols", 0) or 0)
                    spans.append((w, int(ent.get("morerows", 0) or 0)))
                    width += w
                if not ok or width != len(free):
                    fail("table:row-cells" + (":eval-rst" if _from_rst(e) else ""),
                         f"row {ri} of {_tag(part)} has {width} cell(s) (+{cols - len(free)} spanned from above) "
                         f"but the table declares {cols} column(s)", _path(row))
                nxt = [max(0, c - 1) for c in carry]
                k = 0
                for w, mr in spans:
                    for _ in range(w):
                        if k < len(free):
                            nxt[free[k]] = mr
                            k += 1
                carry = nxt

    # ---- clause 7: footnotes start with their label (after processing)
    if stage == "full":
        for e in elements:
            if _tag(e) == "footnote":
                if not e.children or _tag(e.children[0]) != "label":
                    fail("footnote:no-label-first" + (":eval-rst" if _from_rst(e) else ""), "footnote whose first child is " +
                         (_tag(e.children[0]) if e.children else "missing (empty footnote)"),
                         {"names": list(e.get("names", [])), "ids": list(e.get("ids", [])), "at": _path(e)})
    return fails


def observations(doc):
    """Things that are not violations of the property text but worth counting (reported, never failed)."""
    obs = []
    owner = {}
    for e in doc.findall() if hasattr(doc, "findall") else doc.traverse():
        if hasattr(e, "get") and not isinstance(e, str):
            for i in e.get("ids", []):
                owner.setdefault(i, e)
    if doc.get("ids"):
        for i in doc["ids"]:
            owner.setdefault(i, doc)
    for e in doc.findall() if hasattr(doc, "findall") else doc.traverse():
        if _tag(e) == "footnote_reference" and hasattr(e, "hasattr") and e.hasattr("refid"):
            tgt = owner.get(e["refid"])
            if tgt is not None and _tag(tgt) not in ("footnote", "citation"):
                obs.append("fnref-to-" + _tag(tgt))
    return obs


# ------------------------------------------------------------------------------------------------ drivers

_SITE_PKGS = ("docutils", "sphinx", "myst_parser", "markdown_it", "mdit_py_plugins")


def _exception_failure(exc, stage):
    """Failure record of an uncaught implementation exception; site = innermost frame inside the libraries."""
    frames = []
    tb = exc.__traceback__
    while tb is not None:
        frames.append(tb.tb_frame)
        tb = tb.tb_next
    site = None          # innermost frame inside the libraries: module.Class.function
    transform = None     # innermost docutils Transform whose apply() is on the stack: module.Class
    through_visit_transition = False
    rst_transition = False
    through_promote_title = False
    construct = ""       # producing construct, where a frame's locals tell it (appended to the signature)
    for fr in frames:
        mod = fr.f_globals.get("__name__", "") or ""
        code = fr.f_code
        if mod.split(".")[0] in _SITE_PKGS:
            qn = getattr(code, "co_qualname", code.co_name)
            qn = qn.replace(".<locals>", "")
            # a container accessor of docutils.nodes (`node[0]` -> Element.__getitem__) is not a call site: the
            # function that indexed is
            if not (mod == "docutils.nodes" and code.co_name.startswith("__") and site is not None):
                site = f"{mod}.{qn}"
            if code.co_name == "apply":
                slf = fr.f_locals.get("self")
                try:
                    from docutils.transforms import Transform
                    if isinstance(slf, Transform):
                        transform = f"{type(slf).__module__}.{type(slf).__name__}"
                        # the transform's start node (a `pending` a directive registered) is not in the document:
                        # the directive's output was dropped by an enclosing directive (see dropped-by above)
                        top = sn = getattr(slf, "startnode", None)
                        while top is not None and getattr(top, "parent", None) is not None:
                            top = top.parent
                        construct = ":detached-startnode" if sn is not None and top is not slf.document else ""
                except Exception:
                    pass
        fn = code.co_filename.replace("\\", "/")
        if fn.endswith("docutils/transforms/misc.py") and code.co_name == "visit_transition":
            through_visit_transition = True
            rst_transition = _from_rst(fr.f_locals.get("node"))
        if fn.endswith("docutils/nodes.py") and code.co_name == "set_duplicate_name_id":
            # the name being registered is mapped to an id that eval-rst's scratch document allocated (the outer
            # registry then holds another node under that id): the failure belongs to the eval-rst splice
            try:
                docu = fr.f_locals.get("self")
                old_id = fr.f_locals.get("old_id")
                if old_id is not None and old_id in (getattr(docu, "_c03_rst_ids", None) or ()):
                    construct = ":eval-rst-id"
            except Exception:
                pass
        if fn.endswith("docutils/transforms/frontmatter.py") and code.co_name == "promote_title":
            through_promote_title = True
    cls = type(exc).__name__
    tail = "".join(_tb.format_exception(type(exc), exc, exc.__traceback__))[-900:]
    if through_visit_transition and isinstance(exc, AssertionError):
        if rst_transition:
            return {"signature": SIG_RST_SPLICE,
                    "what": f"{cls} in docutils Transitions.visit_transition: a transition produced by eval-rst inside "
                            f"a container reached the transform pipeline (stage {stage})",
                    "detail": {"exception": cls, "site": site, "traceback_tail": tail}}
        return {"signature": "transition:inside-container",
                "what": f"{cls} in docutils Transitions.visit_transition: a transition that is not directly under "
                        f"the document or a section reached the transform pipeline (stage {stage})",
                "detail": {"exception": cls, "site": site, "traceback_tail": tail}}
    if through_promote_title and isinstance(exc, AssertionError) and site and site.endswith("promote_title"):
        return {"signature": "section:no-title",
                "what": f"{cls} in docutils DocTitle (TitlePromoter.promote_title): the lone top-level section "
                        f"does not start with its title (stage {stage})",
                "detail": {"exception": cls, "site": site, "traceback_tail": tail}}
    if site is None:
        raise HarnessError(f"exception outside the implementation: {exc!r}") from exc
    return {"signature": f"exception:{cls}:{transform or site}{construct}",
            "what": f"uncaught {cls} at {site}" + (f" (transform {transform})" if transform else "") +
                    f": {str(exc)[:200]}",
            "detail": {"exception": cls, "site": site, "traceback_tail": tail}}


def normalise_case(case):
    """Fill the defaults of a (possibly partial) case dict."""
    if isinstance(case, str):
        case = {"text": case}
    c = dict(case) if isinstance(case, dict) else {"text": str(case)}
    text = c.get("text", c.get("src", c.get("source", "")))
    if not isinstance(text, str):
        text = str(text)
    mode = c.get("mode", "myst")
    if mode not in MODES:
        mode = "myst"
    exts = c.get("exts")
    if exts is None:
        exts = list(ALL_EXTS)
    exts = [e for e in exts if isinstance(e, str)]
    backend = c.get("backend", "docutils")
    if backend not in ("docutils", "sphinx"):
        backend = "docutils"
    stage = c.get("stage", "full")
    if stage not in ("parse", "full"):
        stage = "full"
    kw = c.get("kw") or {}
    if not isinstance(kw, dict):
        kw = {}
    out = {"text": text, "mode": mode, "exts": list(exts), "backend": backend, "stage": stage, "kw": dict(kw)}
    st = c.get("settings")
    if isinstance(st, dict) and st:      # docutils settings of the run (raw_enabled, file_insertion_enabled ...)
        out["settings"] = dict(st)
    return out


class HarnessError(Exception):
    """The harness (not the implementation) could not run the case."""


_PRISTINE = None     # (directives, roles) registries of docutils as they are WITHOUT a Sphinx application


def _pristine_registries():
    """The in-process Sphinx application registers its directives and roles (`math`, `eq`, `doc`, `figure-md`, ...)
    in docutils' global registries for as long as it lives.  A plain docutils run never sees those, so the
    docutils-backend cases are run against the registries as they were before Sphinx was started (otherwise
    `{eq}`x`` would reach a Sphinx role on a document without a Sphinx environment: an artefact, not a defect)."""
    global _PRISTINE
    if _PRISTINE is not None:
        return _PRISTINE
    from docutils.parsers.rst import directives, roles
    from gen import c02_lib as L
    inst = L.SphinxDriver._inst
    if inst is None:
        # Sphinx not started yet in this process: start it now (so the order of cases cannot matter) after
        # taking the snapshot
        snap = (dict(directives._directives), dict(roles._roles))
    else:
        snap = None
        try:   # what sphinx.util.docutils.docutils_namespace saved on entry
            loc = inst._ns.gen.gi_frame.f_locals
            snap = (dict(loc["_directives"]), dict(loc["_roles"]))
        except Exception:
            snap = None
        if snap is None:
            def foreign(o):
                m = getattr(o, "__module__", None) or type(o).__module__ or ""
                return m.split(".")[0] in ("sphinx", "myst_parser")
            snap = ({k: v for k, v in directives._directives.items() if not foreign(v)},
                    {k: v for k, v in roles._roles.items() if not foreign(v)})
    _PRISTINE = snap
    return snap


class _plain_docutils:
    def __enter__(self):
        from docutils.parsers.rst import directives, roles
        d, r = _pristine_registries()
        self.saved = (directives._directives, roles._roles)
        # copies: a `{role}` / `{default-role}` of one case registers in these dicts and must not reach the next case
        directives._directives, roles._roles = dict(d), dict(r)

    def __exit__(self, *a):
        from docutils.parsers.rst import directives, roles
        directives._directives, roles._roles = self.saved


_MARKS_INSTALLED = False


def _install_origin_marks():
    """Observation only: the nodes that `render_restructuredtext` (the `eval-rst` directive) moves from its scratch
    document into the tree get a Python attribute `_c03_origin = "eval-rst"`, so that the walker can name the
    call site in the signature.  The original method is called unchanged."""
    global _MARKS_INSTALLED
    if _MARKS_INSTALLED:
        return
    from myst_parser.mdit_to_docutils.base import DocutilsRenderer
    orig = DocutilsRenderer.render_restructuredtext
    if getattr(orig, "_c03_wrapped", False):
        _MARKS_INSTALLED = True
        return

    def render_restructuredtext(self, token):
        cur = self.current_node
        before = {id(c) for c in cur.children}
        try:
            return orig(self, token)
        finally:
            rst_ids = getattr(self.document, "_c03_rst_ids", None)
            if rst_ids is None:
                rst_ids = set()
                try:
                    self.document._c03_rst_ids = rst_ids
                except Exception:
                    pass
            for c in cur.children:
                if id(c) in before:
                    continue
                for n in c.findall():
                    try:
                        n._c03_origin = "eval-rst"
                    except Exception:
                        pass
                    if hasattr(n, "get") and not isinstance(n, str):
                        rst_ids.update(n.get("ids", ()))

    render_restructuredtext._c03_wrapped = True
    render_restructuredtext.__wrapped__ = orig
    DocutilsRenderer.render_restructuredtext = render_restructuredtext
    _MARKS_INSTALLED = True


def _install_directive_marks():
    """Observation only: nodes returned by a directive that carry no mark yet get `_c03_origin =
    "directive:<name>"` (nested directives run first, so a node keeps the innermost directive's name).  Only used
    as the producer of a reference that is neither an id_link nor built by a resolver."""
    from myst_parser.mdit_to_docutils.base import DocutilsRenderer
    orig = DocutilsRenderer.run_directive
    if getattr(orig, "_c03_wrapped", False):
        return

    def run_directive(self, name, *a, **kw):
        _DIRECTIVE_STACK.append(str(name))
        try:
            out = orig(self, name, *a, **kw)
        finally:
            _DIRECTIVE_STACK.pop()
        MOCK_HITS[("run", str(name))] = MOCK_HITS.get(("run", str(name)), 0) + 1
        try:
            for top in out:
                for n in top.findall():
                    if getattr(n, "_c03_origin", None) is None:
                        try:
                            n._c03_origin = "directive:" + str(name)
                        except Exception:
                            pass
        except Exception:
            pass
        return out

    run_directive._c03_wrapped = True
    run_directive.__wrapped__ = orig
    DocutilsRenderer.run_directive = run_directive


def _install_resolver_marks():
    """Observation only (Sphinx): reference nodes that exist after `MystReferenceResolver.run` /
    `ReferencesResolver.run` but did not before get `_c03_origin = "myst-xref"` / `"sphinx-xref"`."""
    from docutils import nodes
    from sphinx.transforms.post_transforms import ReferencesResolver
    from myst_parser.sphinx_ext.myst_refs import MystReferenceResolver

    def wrap(cls, label):
        orig = cls.__dict__.get("run")
        if orig is None or getattr(orig, "_c03_wrapped", False):
            return

        def run(self, **kw):
            before = list(self.document.findall(nodes.reference))     # the list keeps the objects alive
            known = {id(n) for n in before}
            try:
                return orig(self, **kw)
            finally:
                for n in self.document.findall(nodes.reference):
                    if id(n) not in known and getattr(n, "_c03_origin", None) is None:
                        try:
                            n._c03_origin = label
                        except Exception:
                            pass

        run._c03_wrapped = True
        run.__wrapped__ = orig
        cls.run = run

    wrap(MystReferenceResolver, "myst-xref")
    wrap(ReferencesResolver, "sphinx-xref")


# ------------------------------------------------------------------------------------------------ mocked state: who uses it

# Which registered directive reaches which member of MyST's mocked docutils state (myst_parser/mocking.py:
# MockState = `self.state`, MockStateMachine = `self.state_machine`, MockInliner = `self.state.inliner`).
#
# DERIVED MECHANICALLY by `derive_mock_table()` (below) from the sources of the directive classes: every class of
# the MRO of every registered directive class (docutils.parsers.rst.Directive and sphinx.util.docutils.SphinxDirective
# themselves excluded: their generic accessors `state.document.settings.env`, `state_machine.get_source_and_line`
# are common to all) is scanned for `self.state.<m>` / `self.state_machine.<m>` / `directive.state.<m>`, for local
# aliases of `self.state`, and for the helpers that reach the state on the directive's behalf:
#   self.parse_inline(...)                                    -> state.inline_text
#   self.parse_content_to_nodes / self.parse_text_to_nodes,
#   nested_parse_to_nodes(self.state, ...), nested_parse_with_titles(self.state, ...)
#                                                             -> state.nested_parse + state.memo (title styles)
#   switch_source_input(self.state, ...)                      -> state.memo
#   DocFieldTransformer(self)  (sphinx/util/docfields.py)     -> state.inliner (handed to the field roles)
#   isinstance(self.state, states.SubstitutionDef)            -> "state:isinstance-SubstitutionDef" (never true for
#                                                                a MockState: replace / unicode / date always error)
# Names: MOCK_USE_CORE = docutils' `directives._directive_registry` (English names); MOCK_USE_SPHINX = what the
# in-process Sphinx application adds or overrides: `app.add_directive` (docutils `directives._directives`, includes
# MyST's `figure-md`) and the `directives` dict of every domain as `<domain>:<name>` (std: and py: names also
# resolve without the prefix).  Registered directives that touch no member of the state at all:
# restructuredtext-test-directive (core); c:namespace* cpp:namespace* code default-domain highlight py:currentmodule
# std:program tabularcolumns toctree (Sphinx) - they still run under a MockState and are in the witnesses.
# `{include}` never reaches `state_machine.insert_input`: run_directive replaces it by MockIncludeDirective.
# `selfcheck_mock_table` re-derives the table on every run and counts any difference / unregistered name.
MOCK_USE_CORE = {
    'state.block_quote':
        'epigraph highlights pull-quote',
    'state.build_table':
        'csv-table',
    'state.document':
        'code csv-table figure image include meta raw',
    'state.inline_text':
        'admonition attention caution contents csv-table danger error hint important line-block '
        'list-table note parsed-literal rubric sidebar table tip topic warning',
    'state.nest_line_block_lines':
        'line-block',
    'state.nested_list_parse':
        'meta',
    'state.nested_parse':
        'admonition attention caution class compound container danger error figure footer header hint '
        'important list-table note replace sidebar table tip topic warning',
    'state.parse_directive_block':
        'role',
    'state.parse_target':
        'figure image',
    'state.reporter':
        'default-role role',
    'state:isinstance-SubstitutionDef':
        'date figure image replace unicode',
    'state_machine.document':
        'class contents footer header sectnum target-notes title',
    'state_machine.get_source':
        'csv-table',
    'state_machine.get_source_and_line':
        'admonition attention caution contents csv-table danger error figure hint image important '
        'list-table math note raw table tip warning',
    'state_machine.insert_input':
        'include',
    'state_machine.language':
        'default-role role',
    'state_machine.match_titles':
        'contents sidebar topic',
    'state_machine.node':
        'contents sidebar topic unicode',
}
MOCK_USE_SPHINX = {
    'state._renderer':
        'figure-md',
    'state.build_table':
        'csv-table',
    'state.document':
        'c:alias c:enum c:enumerator c:function c:macro c:member c:struct c:type c:union c:var code-block '
        'cpp:alias cpp:class cpp:concept cpp:enum cpp:enum-class cpp:enum-struct cpp:enumerator '
        'cpp:function cpp:member cpp:struct cpp:type cpp:union cpp:var csv-table deprecated describe '
        'figure include index js:attribute js:class js:data js:function js:method js:module '
        'literalinclude math object only py:attribute py:class py:classmethod py:data py:decorator '
        'py:decoratormethod py:exception py:function py:method py:module py:property py:staticmethod '
        'py:type rst:directive rst:directive:option rst:role sourcecode std:cmdoption std:confval '
        'std:envvar std:glossary std:option std:productionlist versionadded versionchanged versionremoved',
    'state.inline_text':
        'admonition attention caution centered codeauthor csv-table danger deprecated error hint '
        'important moduleauthor note rubric sectionauthor seealso std:confval std:glossary tip '
        'versionadded versionchanged versionremoved warning',
    'state.inliner':
        'c:alias c:enum c:enumerator c:function c:macro c:member c:struct c:type c:union c:var cpp:alias '
        'cpp:class cpp:concept cpp:enum cpp:enum-class cpp:enum-struct cpp:enumerator cpp:function '
        'cpp:member cpp:struct cpp:type cpp:union cpp:var describe js:attribute js:class js:data '
        'js:function js:method object py:attribute py:class py:classmethod py:data py:decorator '
        'py:decoratormethod py:exception py:function py:method py:property py:staticmethod py:type '
        'rst:directive rst:directive:option rst:role std:cmdoption std:confval std:envvar std:option',
    'state.memo':
        'acks c:alias c:enum c:enumerator c:function c:macro c:member c:struct c:type c:union c:var '
        'cpp:alias cpp:class cpp:concept cpp:enum cpp:enum-class cpp:enum-struct cpp:enumerator '
        'cpp:function cpp:member cpp:struct cpp:type cpp:union cpp:var deprecated describe hlist '
        'js:attribute js:class js:data js:function js:method js:module object only py:attribute py:class '
        'py:classmethod py:data py:decorator py:decoratormethod py:exception py:function py:method '
        'py:module py:property py:staticmethod py:type rst:directive rst:directive:option rst:role '
        'std:cmdoption std:confval std:envvar std:glossary std:option versionadded versionchanged '
        'versionremoved',
    'state.nested_parse':
        'acks admonition attention c:alias c:enum c:enumerator c:function c:macro c:member c:struct '
        'c:type c:union c:var caution cpp:alias cpp:class cpp:concept cpp:enum cpp:enum-class '
        'cpp:enum-struct cpp:enumerator cpp:function cpp:member cpp:struct cpp:type cpp:union cpp:var '
        'cssclass danger deprecated describe error figure figure-md hint hlist important js:attribute '
        'js:class js:data js:function js:method js:module note object only py:attribute py:class '
        'py:classmethod py:data py:decorator py:decoratormethod py:exception py:function py:method '
        'py:module py:property py:staticmethod py:type rst-class rst:directive rst:directive:option '
        'rst:role seealso std:cmdoption std:confval std:envvar std:glossary std:option tip versionadded '
        'versionchanged versionremoved warning',
    'state.parent':
        'only',
    'state.parse_target':
        'figure',
    'state.reporter':
        'default-role std:glossary',
    'state:isinstance-SubstitutionDef':
        'figure',
    'state_machine.document':
        'cssclass rst-class',
    'state_machine.get_source':
        'csv-table',
    'state_machine.get_source_and_line':
        'admonition attention caution code-block csv-table danger error figure hint important '
        'literalinclude note seealso sourcecode tip warning',
    'state_machine.insert_input':
        'include',
    'state_machine.language':
        'default-role',
    'state_machine.reporter':
        'figure-md',
}

# state members that BUILD nodes or hand nodes back (the ones a witness has to drive); the rest of the table are
# plain data accessors (document, reporter, language, memo, match_titles, node, parent)
_MOCK_CALLABLES = ("state.block_quote", "state.build_table", "state.inline_text", "state.nest_line_block_lines",
                   "state.nested_list_parse", "state.nested_parse", "state.parse_directive_block",
                   "state.parse_target", "state_machine.get_source", "state_machine.get_source_and_line")

# (member, directive) pairs of the table that no document can reach, with the reason (checked by hand)
_MOCK_UNREACHABLE = {
    # `{include}` is run as MockIncludeDirective (probe "include.run"), the docutils class is never instantiated
    ("state_machine.insert_input", "include"): "replaced by MockIncludeDirective",
    ("state.document", "include"): "replaced by MockIncludeDirective",
    # these test `isinstance(self.state, SubstitutionDef)` first and raise: the rest of run() is dead under MyST
    ("state.nested_parse", "replace"): "not in a substitution definition",
    ("state_machine.node", "unicode"): "not in a substitution definition",
    # the alias directives override ObjectDescription.run() (no content, no field lists)
    ("state.nested_parse", "c:alias"): "CAliasObject.run does not parse content",
}
# docutils' BaseAdmonition (the scanned source all admonitions share) parses a title with inline_text only when the
# node class is nodes.admonition, i.e. for `{admonition}`; the fixed-title admonitions never call it
for _n in "attention caution danger error hint important note tip warning seealso".split():
    _MOCK_UNREACHABLE[("state.inline_text", _n)] = "fixed title: BaseAdmonition parses a title only for `admonition`"

_SKIP_BASES = {("docutils.parsers.rst", "Directive"), ("sphinx.util.docutils", "SphinxDirective"),
               ("builtins", "object")}
_RX_STATE_ATTR = re.compile(r"\b(?:self|directive)\.(state_machine|state)\.(inliner\b|\w+)")
_RX_STATE_ALIAS = re.compile(r"^\s*(\w+)(?:\s*:\s*[\w\[\], .]+)?\s*=\s*(?:cast\(\s*\w+\s*,\s*)?self\.state\)?\s*$", re.M)
_STATE_HELPERS = [
    (re.compile(r"\bself\.parse_inline\("), ("state.inline_text",)),
    (re.compile(r"\bself\.parse_(?:content|text)_to_nodes\("), ("state.nested_parse", "state.memo")),
    (re.compile(r"\bnested_parse_(?:to_nodes|with_titles)\(\s*self\.state\b"), ("state.nested_parse", "state.memo")),
    (re.compile(r"\bparse_generated_content\(\s*self\.state\b"), ("state.nested_parse",)),
    (re.compile(r"\bswitch_source_input\(\s*self\.state\b"), ("state.memo",)),
    (re.compile(r"\bDocFieldTransformer\(\s*self\s*\)"), ("state.inliner",)),
    (re.compile(r"\bisinstance\(\s*self\.state\s*,\s*states\.SubstitutionDef"), ("state:isinstance-SubstitutionDef",)),
]
_CLASS_USES = {}


def _class_state_uses(cls):
    """Members of the (mocked) state a directive class mentions in its own source or an inherited one."""
    import inspect
    if cls in _CLASS_USES:
        return _CLASS_USES[cls]
    out = set()
    for k in cls.__mro__:
        if (k.__module__, k.__name__) in _SKIP_BASES:
            continue
        try:
            src = inspect.getsource(k)
        except (OSError, TypeError):
            continue
        src = re.sub(r"(?m)^\s*#.*$", "", src)
        for m in _RX_STATE_ATTR.finditer(src):
            out.add(f"{m.group(1)}.{m.group(2)}")
        for m in _RX_STATE_ALIAS.finditer(src):
            for m2 in re.finditer(r"\b%s\.(\w+)" % re.escape(m.group(1)), src):
                out.add("state." + m2.group(1))
        for rx, uses in _STATE_HELPERS:
            if rx.search(src):
                out.update(uses)
    _CLASS_USES[cls] = out
    return out


def registered_directives(sphinx_app=None):
    """(core, sphinx): name -> class.  core = docutils' registry; sphinx = what the application adds / overrides."""
    import importlib
    import inspect
    from docutils.parsers.rst import directives as D
    core = {}
    for name, (mod, cname) in D._directive_registry.items():
        try:
            core[name] = getattr(importlib.import_module("docutils.parsers.rst.directives." + mod), cname)
        except Exception:
            pass
    sph = {}
    if sphinx_app is not None:
        for name, cls in D._directives.items():
            if inspect.isclass(cls) and (name not in core or cls is not core[name]):
                sph[name] = cls
        for dom in sphinx_app.env.domains.sorted():
            for n, cls in dom.directives.items():
                sph[f"{dom.name}:{n}"] = cls
    return core, sph


def derive_mock_table(reg):
    t = {}
    for n, c in reg.items():
        for u in _class_state_uses(c):
            t.setdefault(u, set()).add(n)
    return {u: " ".join(sorted(v)) for u, v in t.items()}


def table_pairs():
    """[(member, directive name as written in a document, backend-only-or-None)] of both tables."""
    out = []
    for member, names in MOCK_USE_CORE.items():
        out += [(member, n, None) for n in names.split()]
    for member, names in MOCK_USE_SPHINX.items():
        out += [(member, n, "sphinx") for n in names.split()]
    return out


def selfcheck_mock_table(ctx):
    """Cheap self-check (counted, never raised): every directive named in the tables is still registered, and the
    tables are what the sources say now."""
    from gen import c02_lib as L
    try:
        _pristine_registries()          # snapshot of docutils' registries before the application exists
        core, sph = registered_directives(L.SphinxDriver.get().app)
    except (KeyboardInterrupt, SystemExit, MemoryError):
        raise
    except BaseException as e:  # noqa: BLE001
        ctx.count("c03:selfcheck:FAILED:cannot-list-directives:" + type(e).__name__)
        return False
    ok = True
    for table, reg, label in ((MOCK_USE_CORE, core, "core"), (MOCK_USE_SPHINX, sph, "sphinx")):
        for member, names in table.items():
            for n in names.split():
                if n not in reg:
                    ok = False
                    ctx.count(f"c03:selfcheck:FAILED:not-registered:{label}:{n}")
        now = derive_mock_table(reg)
        for member in sorted(set(now) | set(table)):
            if now.get(member, "") != table.get(member, ""):
                ok = False
                ctx.count(f"c03:selfcheck:FAILED:table-differs-from-source:{label}:{member}")
    ctx.count("c03:selfcheck:mock-table:" + ("ok" if ok else "FAILED"))
    return ok


def selfcheck_mock_reach(ctx):
    """After the fixed witnesses: every (callable member, directive) pair of the tables was reached at least once
    (the directive ran and the mocked method was called on its behalf), except the pairs listed unreachable."""
    ok = True
    ran = {d for (m, d) in MOCK_HITS if m == "run"}
    for member, name, _b in table_pairs():
        written = {name} | ({name.split(":", 1)[1]} if name.startswith(("std:", "py:")) else set())
        if not (written & ran):
            ok = False
            ctx.count(f"c03:selfcheck:FAILED:no-witness-runs:{name}")
            continue
        if member not in _MOCK_CALLABLES or (member, name) in _MOCK_UNREACHABLE:
            continue
        if not any((member, w) in MOCK_HITS for w in written):
            ok = False
            ctx.count(f"c03:selfcheck:FAILED:witness-does-not-reach:{member}:{name}")
    for work in ("state.block_quote+attribution", "state.nest_line_block_lines+depth3",
                 "state.nest_line_block_lines+group-then-line", "state.inline_text+markup", "state.build_table+rows",
                 "inliner.problematic", "include.run", "state.build_table_row"):
        if not any(m == work for (m, _d) in MOCK_HITS):
            ok = False
            ctx.count(f"c03:selfcheck:FAILED:no-witness-does:{work}")
    for tag in _MUST_WALK:
        if not WALKED_TAGS.get(tag):
            ok = False
            ctx.count(f"c03:selfcheck:FAILED:walker-never-met:{tag}")
    if WALKED_TAGS.get("!mismatch"):
        ok = False
        ctx.count("c03:selfcheck:FAILED:walker-misses-nodes", WALKED_TAGS["!mismatch"])
    ctx.count("c03:selfcheck:mock-reach:" + ("ok" if ok else "FAILED"))
    return ok


# ---- observation probes on the mocked state (which member ran on behalf of which directive, and did it do work)

MOCK_HITS = {}            # (member, directive name) -> calls
_DIRECTIVE_STACK = []     # names of the directives whose run() is on the stack (innermost last)


def _hit(member, n=1):
    key = (member, _DIRECTIVE_STACK[-1] if _DIRECTIVE_STACK else "-")
    MOCK_HITS[key] = MOCK_HITS.get(key, 0) + n


def _install_mock_probes():
    """Observation only: the methods of MockState / MockStateMachine / MockInliner / MockIncludeDirective are
    wrapped to count (member, running directive); the original is called unchanged and its result returned."""
    import myst_parser.mocking as M
    if getattr(M, "_c03_probed", False):
        return
    M._c03_probed = True

    def wrap(cls, name, member, after=None):
        orig = cls.__dict__.get(name)
        if orig is None or not callable(orig):
            return

        def probe(self, *a, **k):
            _hit(member)
            res = orig(self, *a, **k)
            if after is not None:
                try:
                    after(self, a, k, res)
                except Exception:
                    pass
            return res

        probe.__wrapped__ = orig
        probe.__name__ = name
        setattr(cls, name, probe)

    def after_block_quote(self, a, k, res):
        if any(_tag(c) == "attribution" for e in res for c in getattr(e, "children", ())):
            _hit("state.block_quote+attribution")

    def after_nest(self, a, k, res):
        block = a[0]

        def depth(b):
            return 1 + max([depth(c) for c in b.children if _tag(c) == "line_block"] or [0])

        def group_then_line(b):
            ch = b.children
            return any(_tag(ch[i]) == "line_block" and _tag(ch[i + 1]) == "line" for i in range(len(ch) - 1)) or \
                any(group_then_line(c) for c in ch if _tag(c) == "line_block")
        if depth(block) >= 3:
            _hit("state.nest_line_block_lines+depth3")
        if group_then_line(block):
            _hit("state.nest_line_block_lines+group-then-line")

    def after_inline(self, a, k, res):
        if any(_tag(n) != "#text" for n in res[0]):
            _hit("state.inline_text+markup")

    def after_table(self, a, k, res):
        _hit("state.build_table+rows", sum(1 for n in res.findall() if _tag(n) == "row"))

    def parsed_for(nodes_):
        """Mark what a nested parse produced on behalf of the running directive (innermost directive wins: its
        nested_parse returns first).  Lets the walker tell that a node which is registered in `document.ids` but
        is not in the tree was parsed for a directive that then dropped it."""
        if not _DIRECTIVE_STACK:
            return
        name = _DIRECTIVE_STACK[-1]
        for top in nodes_:
            for n in top.findall():
                if getattr(n, "_c03_parsed_for", None) is None:
                    try:
                        n._c03_parsed_for = name
                    except Exception:
                        pass

    def after_nested_parse(self, a, k, res):
        node = k.get("node", a[2] if len(a) > 2 else None)
        if node is not None:
            parsed_for(node.children)

    def after_inliner_parse(self, a, k, res):
        parsed_for(res[0])

    S, SM, I = M.MockState, M.MockStateMachine, M.MockInliner
    wrap(S, "nested_parse", "state.nested_parse", after_nested_parse)
    wrap(S, "inline_text", "state.inline_text", after_inline)
    wrap(S, "block_quote", "state.block_quote", after_block_quote)
    wrap(S, "parse_target", "state.parse_target")
    wrap(S, "parse_directive_block", "state.parse_directive_block")
    wrap(S, "build_table", "state.build_table", after_table)
    wrap(S, "build_table_row", "state.build_table_row")
    wrap(S, "nest_line_block_lines", "state.nest_line_block_lines", after_nest)
    wrap(SM, "get_source", "state_machine.get_source")
    wrap(SM, "get_source_and_line", "state_machine.get_source_and_line")
    wrap(I, "parse", "inliner.parse", after_inliner_parse)
    wrap(I, "problematic", "inliner.problematic")
    wrap(M.MockIncludeDirective, "run", "include.run")
    for cls, label in ((S, "state"), (SM, "state_machine"), (I, "inliner")):
        orig_ga = cls.__dict__.get("__getattr__")
        if orig_ga is None:
            continue

        def ga(self, name, _o=orig_ga, _l=label):
            if not name.startswith("__"):
                _hit(f"{_l}.{name}")             # a member the mock does not implement (raises MockingError)
            return _o(self, name)

        cls.__getattr__ = ga


class IdHistory:
    """Which ids the tree carried before every transform of the pipeline and at the end (diagnosis of a dangling
    refid / backref; built by `trace_ids` on a second run of the same case, never on the run that is checked)."""

    def __init__(self):
        self.steps = []        # [transform about to run | None (final tree), document, {id: [carriers]}, {id(node)}]

    def snap(self, name, document):
        ids, alive = {}, set()
        try:
            for n in document.findall():
                alive.add(id(n))
                if hasattr(n, "get") and not isinstance(n, str):
                    for i in n.get("ids", ()):
                        ids.setdefault(i, []).append(n)
        except Exception:
            return
        self.steps.append([name, document, ids, alive])

    def close(self, doc):
        self.steps = [s for s in self.steps if s[1] is doc]
        self.snap(None, doc)

    def reason(self, i):
        """never-existed: no snapshot (the tree right after parsing included) has a node with this id;
        node-removed:<T>: the nodes that carried it last left the tree while transform T ran;
        id-dropped:<T>: a node that carried it last survived transform T, without the id;
        untraced: the second run does not show the id missing."""
        steps = self.steps
        last = None
        for k, s in enumerate(steps):
            if i in s[2]:
                last = k
        if last is None:
            return "never-existed"
        if last == len(steps) - 1:
            return "untraced"
        alive = steps[last + 1][3]
        kind = "id-dropped" if any(id(c) in alive for c in steps[last][2][i]) else "node-removed"
        return f"{kind}:{steps[last][0]}"


def trace_ids(case):
    """Run the case once more with a recorder in front of every docutils Transform (observation only: the base
    class constructor is wrapped for the duration of this run; the transformer's loop is untouched)."""
    from docutils.transforms import Transform
    h = IdHistory()
    orig = Transform.__init__

    def __init__(self, document, startnode=None):
        orig(self, document, startnode=startnode)
        h.snap(type(self).__name__, document)

    Transform.__init__ = __init__
    try:
        doc, _ = produce(case)
    finally:
        Transform.__init__ = orig
    h.close(doc)
    return h


def _install_docinfo_listener(drv):
    """Observation only: Sphinx's MetadataCollector removes the `docinfo` node (a leading field list) from every
    doctree at the `doctree-read` event.  Links into that removed subtree are left dangling by Sphinx itself; the
    ids that were inside are recorded (before the collector runs) so the walker can tell this inherited
    behaviour apart from links MyST leaves dangling."""
    if getattr(drv, "_c03_listener", False):
        return

    def on_doctree_read(app, doctree):
        ids = set()
        try:
            for di in doctree.children:
                if _tag(di) == "docinfo":
                    for n in di.findall():
                        if hasattr(n, "get") and not isinstance(n, str):
                            ids.update(n.get("ids", ()))
            doctree._c03_stripped_ids = ids
        except Exception:
            pass

    drv.app.connect("doctree-read", on_doctree_read, priority=0)
    drv._c03_listener = True


# `{include}` / `{literalinclude}` need files.  Witness texts name them through the placeholder INC_DIR; `produce`
# (so: search and replay alike) replaces it by a directory the harness fills on first use and removes at exit:
# docutils backend - /verif/.scratch-c03inc-<pid>-* (absolute path: the source of a docutils case is "<string>");
# Sphinx backend - `c03inc` inside the scratch source directory of the in-process application.
INC_DIR = "@C03INC@"
INC_FILES = {
    "a.md": "# inc h\n\npara [^f] [x](#tgt)\n\n[^f]: note\n\n(tgt)=\n## sub\n\n```{note}\nn\n```\n\n---\n\n|a|b|\n|-|-|\n|1|2|\n",
    "b.md": "b\n\n```{include} @C03INC@/a.md\n:heading-offset: 1\n```\n\n```{line-block}\nx\n  y\nz\n```\n",
    "loop.md": "loop\n\n```{include} @C03INC@/loop.md\n```\n",
    "frag.md": "before\n\n<!-- S -->\nkept *k*\n\n- item\n<!-- E -->\n\nafter\n",
    "code.py": "def f():\n    pass\n# START\nx = 1\n# END\ny = 2\n",
}
_INC_MADE = {}


def _inc_dir(backend):
    import atexit
    import shutil
    if backend in _INC_MADE:
        return _INC_MADE[backend][0]
    if backend == "sphinx":
        from gen import c02_lib as L
        d, name = os.path.join(L.SphinxDriver.get().src, "c03inc"), "c03inc"
        os.makedirs(d, exist_ok=True)        # removed with the driver's scratch directory
    else:
        import tempfile
        d = name = tempfile.mkdtemp(prefix=".scratch-c03inc-%d-" % os.getpid(), dir=_VERIF)   # ours alone
        atexit.register(shutil.rmtree, d, True)
    for fn, content in INC_FILES.items():
        with open(os.path.join(d, fn), "w", encoding="utf-8") as f:
            f.write(content.replace(INC_DIR, name))
    _INC_MADE[backend] = (name, d)
    return name


def _materialise(case):
    text = case["text"]
    if INC_DIR in text:
        try:
            text = text.replace(INC_DIR, _inc_dir(case["backend"]))
        except OSError as e:
            raise HarnessError(f"cannot provide the include files: {e!r}") from e
    return text


def produce(case):
    """Run the implementation on a normalised case.  Returns (document, warnings_text); raises what it raises."""
    from gen import c02_lib as L
    _install_origin_marks()
    _install_directive_marks()
    _install_mock_probes()
    del _DIRECTIVE_STACK[:]
    text, mode, exts, kw = _materialise(case), case["mode"], case["exts"], case["kw"]
    try:
        cfg = L.make_config(mode, exts, **kw)
    except Exception as e:
        raise HarnessError(f"configuration rejected: {e!r}") from e
    if case["backend"] == "docutils":
        f = L.docutils_parse if case["stage"] == "parse" else L.docutils_publish
        with _plain_docutils():
            return f(text, mode, exts, extra=case.get("settings") or None, **kw)
    _pristine_registries()          # snapshot before the application exists
    drv = L.SphinxDriver.get()
    _install_docinfo_listener(drv)
    _install_resolver_marks()
    # `show_authors` on for the duration of the case: codeauthor / moduleauthor / sectionauthor return nothing
    # otherwise (the shared driver is handed back as it was)
    from docutils.parsers.rst import roles as _roles_mod
    conf = drv.app.config
    saved_authors = conf.show_authors
    saved_roles = dict(_roles_mod._roles)      # `{role}` / `{default-role}` register process-wide: undo after the case
    conf.show_authors = True
    env_settings = drv.app.env.settings
    saved_settings = dict(env_settings)
    env_settings.update(case.get("settings") or {})       # what `docutils_settings`-like overrides would pass
    try:
        return _produce_sphinx(drv, text, cfg, case["stage"])
    finally:
        env_settings.clear()
        env_settings.update(saved_settings)
        conf.show_authors = saved_authors
        _roles_mod._roles.clear()
        _roles_mod._roles.update(saved_roles)


def _produce_sphinx(drv, text, cfg, stage):
    if stage == "parse":
        return drv.parse(text, cfg)
    # read phase, then what Builder.read_doc does before the write phase applies the post-transforms: the
    # per-document scratch state of the environment is dropped (`apply_post_transforms` deep-copies it; the C / C++
    # domains keep symbols there that refuse to be copied - in a real build they are gone by then)
    doc, _ = drv.publish(text, cfg, post=False)
    env = drv.app.env
    try:
        env.current_document = type(env.current_document)()
        env.ref_context.clear()
    except Exception as e:
        raise HarnessError(f"cannot reset the environment's per-document state: {e!r}") from e
    try:
        env.apply_post_transforms(doc, "index")
    finally:
        env.current_document.docname = ""
    return doc, drv.warnings_text()


def run_case(case, want_obs=False):
    """Run one case, return the list of failures (and the observations when asked)."""
    case = normalise_case(case)
    obs = []
    try:
        doc, warn = produce(case)
    except BaseException as exc:  # noqa: BLE001 - SystemMessage, AssertionError, RecursionError ... all count
        if isinstance(exc, (KeyboardInterrupt, SystemExit, MemoryError, HarnessError)):
            raise
        if isinstance(exc, FileNotFoundError) and str(getattr(exc, "filename", "")).endswith(".doctree"):
            # the in-process Sphinx driver never pickles doctrees; resolvers that re-read them (numref) cannot
            # run here: a limit of the harness, not an observation about the implementation
            return ([], ["harness-limit:doctree-pickle"]) if want_obs else []
        fails = [_exception_failure(exc, case["stage"])]
        return (fails, obs) if want_obs else fails
    fails = check_tree(doc, case["stage"], warn, history=lambda: trace_ids(case),
                       at_parse=lambda: {f["signature"] for f in run_case(dict(case, stage="parse"))})
    if want_obs:
        try:
            obs = observations(doc)
        except Exception:
            obs = []
        return fails, obs
    return fails


# ------------------------------------------------------------------------------------------------ generator

IDS = ["a", "b", "c", "l", "a-b", "id1", "id2", "A", "1", "x", "footnote-1", "equation-l"]
FN_LABELS = ["1", "2", "3", "10", "a", "b", "c", "A", "note", "l"]
HEAD_TEXTS = ["a", "b", "c", "a b", "A", "1", "note", "id1", "l", "x"]
WORDS = ["a", "b", "c", "foo", "bar", "x", "lorem", "A"]
ADMON = ["note", "tip", "warning", "important", "admonition T", "attention", "seealso"]
# rST originals of the constructs MyST re-implements in mocking.py (real docutils state, through eval-rst)
RST_MOCKED = [
    "| a\n|   b\n| c\n|   d\n|     e\n| f", ".. epigraph::\n\n   q\n\n   -- w *x*",
    ".. list-table:: T\n   :header-rows: 1\n\n   * - a\n     - b\n   * - c\n     - d",
    ".. csv-table:: C\n   :header: x, y\n\n   1, 2", ".. figure:: u.png\n   :target: x_\n\n   cap\n\n   leg",
    ".. role:: cr(emphasis)\n\n:cr:`t`", ".. |r| replace:: *x*\n\n|r|", ".. sidebar:: S\n   :subtitle: t\n\n   b",
    ".. topic:: T *t*\n\n   b", ".. parsed-literal::\n\n   a *b*", ".. header:: h", ".. image:: u.png\n   :target: a_",
]
RST_SNIPPETS = [
    "a\n\n----\n\nb", ".. _a:\n\npara", ".. [#a] rst note\n\nref [#a]_", "a\n=\n\nb", "`a`_ and a_",
    ".. [1] one\n\nsee [1]_", ".. _l:\n.. _b:\n\nx", "+---+---+\n| a | b |\n+---+---+\n| c     |\n+---+---+",
]


class DocGen:
    """Random markdown documents with real nesting: every generator returns a list of lines; containers re-prefix
    the lines of their children (\"> \" for quotes, indentation for list items / footnote and definition bodies,
    longer fences for outer directives)."""

    def __init__(self, rng, maxdepth, maxblocks, sphinx=False, structured=0.0):
        self.rng = rng
        self.maxdepth = maxdepth
        self.left = maxblocks
        self.tags = set()
        self.sphinx = sphinx          # the document is for the Sphinx back end: Sphinx-only directives make sense
        self.structured_p = structured    # share of blocks that are directives with structured bodies

    # ---- inline
    def pick(self, seq):
        return seq[self.rng.randrange(len(seq))]

    def atom(self):
        r = self.rng
        k = r.random()
        i = self.pick(IDS)
        if k < 0.28:
            return self.pick(WORDS)
        if k < 0.40:
            self.tags.add("fnref")
            return f"[^{self.pick(FN_LABELS)}]"
        if k < 0.52:
            self.tags.add("anchor-link")
            return self.pick([f"[t](#{i})", f"[](#{i})", f"<project:#{i}>", "[](#missing)", "[t](#no-such)",
                              f"[*e*](#{i})", f"[t](<#{i} b>)", "[t](#)", f"[t](#{i}%20x)"])
        if k < 0.60:
            self.tags.add("doc-link")
            return self.pick(["[x](other.md)", f"[x](other.md#{i})", f"[x](index.md#{i})", "[](index.md)",
                              "<path:other.md>", "<project:other.md>", f"<project:index.md#{i}>",
                              "[x](https://e.x)", "<https://e.x>", f"[x](inv:#{i})", "[x](./)", "[x](a.txt)"])
        if k < 0.70:
            self.tags.add("dupid")
            return self.pick([f"[x]{{#{i}}}", f"![i](u.png){{#{i}}}", f"`c`{{#{i}}}", f"[x]{{#{i} .k}}",
                              f"[t](#{i}){{#{i}}}", f"*e*{{#{i}}}", f"<span id=\"{i}\">s</span>"])
        if k < 0.75:
            self.tags.add("reflink")
            return self.pick([f"[x][{i}]", f"[{i}]", f"[{i}][]"])
        if k < 0.82:
            self.tags.add("role")
            return self.pick([f"{{ref}}`{i}`", f"{{eq}}`{i}`", "{math}`x`", f"{{ref}}`t <{i}>`",
                              "{abbr}`a (b)`", f"{{doc}}`{i}`", f"{{term}}`{i}`", "{unknownrole}`x`",
                              f"{{footcite}}`{i}`", f"{{any}}`{i}`", f"{{myst:ref}}`{i}`"])
        if k < 0.87:
            return self.pick(["$x$", "$$y$$", "*e*", "**s**", "`c`", "~~d~~", "<b>h</b>", "a\\\nb", "\"q\" -- (c)",
                              "![i](u.png)", "{{ s }}"])
        if k < 0.90:
            return self.pick(["[^missing]", "[^ a]", "^[inline note]", "[^1][^1]", "[^a]: x"])
        return self.pick(WORDS) + " " + self.pick(WORDS)

    def inline(self, n=None):
        n = n or self.pick([1, 1, 2, 2, 3, 4])
        return " ".join(self.atom() for _ in range(n))

    # ---- leaves
    def hr(self):
        self.tags.add("hr")
        return [self.pick(["---", "***", "___", "---", "* * *", "- - -", "_____", "  ***"])]

    def heading(self, depth):
        self.tags.add("heading" if depth == 0 else "heading-in-container")
        r = self.rng
        text = self.pick(HEAD_TEXTS) if r.random() < 0.75 else self.inline(2)
        if r.random() < 0.12:
            return [text, self.pick(["===", "---"])]
        lvl = self.pick([1, 1, 2, 2, 3, 3, 4, 5, 6])
        return ["#" * lvl + " " + text + self.pick(["", "", "", " #", ""])]

    def table(self):
        self.tags.add("table")
        r = self.rng
        ncol = self.pick([1, 2, 2, 3, 3, 4])

        def cell():
            return self.pick(["", " ", "x", self.atom(), self.atom(), "a b"]).replace("|", "/").replace("\n", " ")

        def row(n):
            cells = [cell() for _ in range(n)]
            style = r.randrange(4)
            body = " | ".join(cells)
            if style == 0 or n <= 1:
                return "| " + body + " |"
            if style == 1:
                return body if body.strip() else "| " + body + " |"
            if style == 2:
                return "| " + body
            return body + " |" if body.strip() else "| " + body + " |"

        lines = [row(ncol)]
        lines.append("|" + "|".join(self.pick(["---", ":--", "--:", ":-:", "-"]) for _ in range(ncol)) + "|")
        for _ in range(self.pick([0, 1, 2, 3, 4])):
            n = self.pick([ncol, ncol, ncol - 1, ncol + 1, ncol + 2, 1, 0, ncol])
            n = max(0, n)
            if n != ncol:
                self.tags.add("ragged-table")
            lines.append(row(n) if n else self.pick(["|", "||", "| |"]))
        return lines

    def target(self):
        self.tags.add("target")
        return [f"({self.pick(IDS)})="]

    def mathlabel(self):
        self.tags.add("mathlabel")
        lab = self.pick(["l", "l", "a", "b", "1"])
        return self.pick(["$$x$$ ({})", "$$\nx\n$$ ({})", "$$ y $$ ({})"]).format(lab).split("\n")

    def leafdirective(self, depth):
        self.tags.add("leaf-directive")
        i = self.pick(IDS)
        f = "`" * (3 + self.maxdepth - depth)
        body = self.pick([
            ["{math}", ":label: " + self.pick(["l", "a", i]), "", "x"],
            ["{figure} u.png", ":name: " + i, "", "cap " + self.atom()],
            ["{image} u.png", ":name: " + i],
            ["{code-block} python", ":name: " + i, "", "pass"],
            ["{rubric} " + self.pick(HEAD_TEXTS)],
            ["{table} T " + self.atom(), ":name: " + i, "", "|a|b|", "|-|-|", "|1|"],
            ["{list-table}", "", "* - a", "  - b", "* - c"],
            ["{contents}"],
            ["{glossary}", "", i, "  d"],
            ["{eval-rst}"] + self.pick(RST_SNIPPETS).split("\n"),
            ["{footbibliography}"],
            ["{toctree}", "", "other"],
            ["{py:function} " + self.pick(["f()", "a()", "f()"])],
            ["{option} -" + self.pick(["a", "b"])],
            ["{productionlist}", i + ": x"],
            ["{index} " + i],
            ["{sidebar} S", "", "x"],
            ["{topic} T", "", "# " + self.pick(HEAD_TEXTS)],
            ["{figure-md} " + i, "", "![i](u.png)", "", "cap"],
            ["{epigraph}", "", "q", "", "-- w"],
            ["{csv-table}", "", "a,b", "c"],
        ])
        return [f + body[0]] + body[1:] + [f]

    def misc_leaf(self, depth):
        i = self.pick(IDS)
        k = self.rng.randrange(10)
        if k == 0:
            return ["```", "code", "```"]
        if k == 1:
            self.tags.add("amsmath")
            return ["\\begin{equation}", "a", "\\end{equation}"]
        if k == 2:
            return ["+++ " + self.pick(["", "x"])]
        if k == 3:
            return ["% comment"]
        if k == 4:
            self.tags.add("linkdef")
            return [self.pick([f"[{i}]: #{i}", f"[{i}]: other.md", f"[{i}]: https://e.x 't'"])]
        if k == 5:
            self.tags.add("html")
            return self.pick([f"<div id=\"{i}\">h</div>", "<hr>", f"<img src=\"u.png\" id=\"{i}\">",
                              f"<div class=\"admonition note\" name=\"{i}\">\n<p>x</p>\n</div>"]).split("\n")
        if k == 6:
            return ["    indented code"]
        if k == 7:
            self.tags.add("tasklist")
            return ["- [ ] t", "- [x] u " + self.atom()]
        return self.leafdirective(depth)

    # ---- containers
    @staticmethod
    def indent(lines, first, rest):
        out = []
        for n, l in enumerate(lines):
            if n == 0:
                out.append(first + l)
            else:
                out.append((rest + l) if l else "")
        return out

    def quote(self, depth):
        self.tags.add("quote")
        inner = self.blocks(depth + 1, "quote")
        lazy = self.rng.random() < 0.08
        return [("> " + l if l else ">") if not (lazy and n and l and l[0].isalpha()) else l
                for n, l in enumerate(inner)]

    def listblock(self, depth, ordered):
        self.tags.add("olist" if ordered else "list")
        r = self.rng
        if ordered:
            start = self.pick([1, 1, 2, 9, 10])
            delim = self.pick([".", ")"])
        else:
            bullet = self.pick(["-", "-", "*", "+"])
        out = []
        nitems = self.pick([1, 1, 2, 3])
        loose = r.random() < 0.6
        for k in range(nitems):
            mark = f"{start + k}{delim} " if ordered else bullet + " "
            inner = self.blocks(depth + 1, "item")
            if out and (loose or out[-1] == ""):
                if out[-1] != "":
                    out.append("")
            out.extend(self.indent(inner, mark, " " * len(mark)))
        return out

    def footdef(self, depth):
        self.tags.add("footnote-def")
        lab = self.pick(FN_LABELS)
        inner = self.blocks(depth + 1, "footnote")
        return self.indent(inner, f"[^{lab}]: ", "    ")

    def deflist(self, depth):
        self.tags.add("deflist")
        out = []
        for _ in range(self.pick([1, 1, 2])):
            if out:
                out.append("")
            out.append(self.pick(HEAD_TEXTS) if self.rng.random() < 0.6 else self.inline(1))
            for _ in range(self.pick([1, 1, 2])):
                out.extend(self.indent(self.blocks(depth + 1, "definition"), ": ", "  "))
        return out

    def fieldlist(self, depth):
        self.tags.add("fieldlist")
        out = []
        for _ in range(self.pick([1, 1, 2])):
            name = self.pick(["f", "a", "param x", "l"])
            inner = self.blocks(depth + 1, "field")
            out.extend(self.indent(inner, f":{name}: ", "    "))
        return out

    def directive(self, depth, colon):
        self.tags.add("colon-directive" if colon else "directive")
        ch = ":" if colon else "`"
        f = ch * (3 + self.maxdepth - depth)
        name = self.pick(ADMON)
        inner = self.blocks(depth + 1, "directive")
        # a body starting with `---` or `:opt:` is read as an option block: start with a plain line then
        if inner and (inner[0].startswith(("---", ":", "{")) and self.rng.random() < 0.85):
            inner = [self.pick(WORDS), ""] + inner
        opts = self.pick([[], [], [], [":name: " + self.pick(IDS)], [":class: k"]])
        return [f + "{" + name.split()[0] + "}" + (" " + name.split(None, 1)[1] if " " in name else "")] + opts + \
            ([""] if opts else []) + inner + [f]

    def attrs_block(self, depth):
        self.tags.add("dupid")
        self.tags.add("attrs-block")
        i = self.pick(IDS)
        k = self.rng.randrange(7)
        if k == 0 or depth >= self.maxdepth:
            nxt = ["para " + self.atom()]
        elif k == 1:
            nxt = self.quote(depth)
        elif k == 2:
            nxt = self.listblock(depth, self.rng.random() < 0.4)
        elif k == 3:
            nxt = self.table()
        elif k == 4:
            nxt = self.heading(depth)
        elif k == 5:
            nxt = self.hr()
        else:
            nxt = self.deflist(depth)
        return [self.pick(["{{#{}}}", "{{#{} .k}}", "{{#{} #b}}", "{{.k #{}}}"]).format(i)] + nxt

    # ---- structured directive bodies: drive the node-building methods of MyST's mocked state (mocking.py)
    def fence(self, depth, first_line, body):
        """Wrap `body` lines as a directive; colon fence when the first line contains a backtick (a backtick fence
        cannot have one in its info string), else either."""
        colon = "`" in first_line or self.rng.random() < 0.3
        self.tags.add("colon-directive" if colon else "directive")
        f = (":" if colon else "`") * (3 + self.maxdepth - min(depth, self.maxdepth))
        return [f + first_line] + body + [f]

    def options(self, *cands):
        """Each candidate option line with probability 1/2, followed by a blank line when any was taken."""
        out = [c for c in cands if self.rng.random() < 0.5]
        return out + ([""] if out or self.rng.random() < 0.3 else [])

    def safe_body(self, lines):
        if lines and lines[0].startswith(("---", ":", "{")):
            return [self.pick(WORDS), ""] + lines
        return lines

    def line_block(self, depth):
        self.tags.add("mock:line-block")
        r = self.rng
        n = self.pick([2, 3, 4, 5, 6, 8, 10])
        ind, lines = self.pick([0, 0, 0, 2, 4]), []
        for k in range(n):
            if k and r.random() < 0.12:
                lines.append("")
            lines.append(" " * ind + (self.pick(WORDS) if r.random() < 0.75 else self.inline(2)))
            ind = max(0, ind + self.pick([-6, -4, -2, -2, 0, 0, 2, 2, 2, 4, 1]))
        return self.fence(depth, "{line-block}", lines)

    def quote_directive(self, depth):
        name = self.pick(["epigraph", "pull-quote", "highlights"])
        self.tags.add("mock:" + name)
        r = self.rng
        body = self.blocks(depth + 1, "directive") if depth < self.maxdepth and r.random() < 0.5 \
            else [self.inline()] + (["", self.inline(1)] if r.random() < 0.4 else [])
        body = self.safe_body(body)
        for _ in range(self.pick([0, 1, 1, 1, 2])):
            dash = self.pick(["-- ", "--- ", "— ", "--", "-- "])
            body += ["", dash + self.inline(self.pick([1, 2, 3]))]
            if r.random() < 0.3:
                body.append(self.pick(["", " " * len(dash), "  "]) + self.pick(WORDS))
        if r.random() < 0.1:
            body = ["", "-- " + self.pick(WORDS)]
        return self.fence(depth, "{" + name + "}", body)

    def list_table(self, depth):
        self.tags.add("mock:list-table")
        r = self.rng
        ncol, nrow = self.pick([1, 2, 2, 3]), self.pick([1, 2, 2, 3, 4])
        title = (" " + self.inline(2)) if r.random() < 0.5 else ""
        body = self.options(":header-rows: " + self.pick(["0", "1", "1", "2"]),
                            ":stub-columns: " + self.pick(["0", "1", "2"]),
                            ":widths: " + self.pick(["auto", " ".join(["1"] * ncol), "1 2", "10 20 30"]),
                            ":name: " + self.pick(IDS), ":align: " + self.pick(["left", "center"]))
        for _ in range(nrow):
            k = ncol if r.random() < 0.85 else self.pick([1, ncol + 1, max(1, ncol - 1)])
            for c in range(k):
                if depth < self.maxdepth and r.random() < 0.2:
                    cell = self.blocks(depth + 1, "item")
                else:
                    cell = [self.pick(["", "x", self.atom(), self.inline(2)])]
                mark = "* - " if c == 0 else "  - "
                body.extend(self.indent(cell, mark, "    "))
        if r.random() < 0.06:
            body = body[:-1] + ["para instead of list"]
        return self.fence(depth, "{list-table}" + title, body)

    def csv_table(self, depth):
        self.tags.add("mock:csv-table")
        r = self.rng
        ncol = self.pick([1, 2, 3])
        delim = self.pick([",", ",", ",", ";"])

        def cell():
            c = self.pick(["x", "a b", self.atom(), self.atom(), "", "*e*"]).replace("\"", "'").replace("\n", " ")
            return ("\"" + c + "\"") if (delim in c or r.random() < 0.2) else c

        title = (" " + self.inline(2)) if r.random() < 0.5 else ""
        body = self.options(":header: h, " + ", ".join(cell() for _ in range(ncol - 1)) if delim == "," and ncol > 1
                            else ":header-rows: 1",
                            ":header-rows: " + self.pick(["1", "2"]), ":stub-columns: " + self.pick(["1", "2"]),
                            ":widths: " + self.pick(["auto", ", ".join(["1"] * ncol), "1 2"]),
                            ":name: " + self.pick(IDS))
        if delim != ",":
            body = [":delim: " + delim] + (body or [""])
        for _ in range(self.pick([1, 2, 3])):
            k = ncol if r.random() < 0.8 else self.pick([1, ncol + 1])
            body.append((delim + " ").join(cell() for _ in range(k)))
        return self.fence(depth, "{csv-table}" + title, body)

    def table_directive(self, depth):
        self.tags.add("mock:table")
        title = (" " + self.inline(2)) if self.rng.random() < 0.7 else ""
        body = self.options(":name: " + self.pick(IDS), ":widths: " + self.pick(["auto", "1 2", "1 1 1"]),
                            ":align: center")
        return self.fence(depth, "{table}" + title, body + self.table())

    def figure(self, depth):
        r = self.rng
        i = self.pick(IDS)
        target = ":target: " + self.pick(["https://e.x", "https://e.x/a b", i + "_", "`" + i + " x`_", "#" + i,
                                          "other.md", "_"])
        if r.random() < 0.3:
            self.tags.add("mock:image")
            return self.fence(depth, "{image} u.png", self.options(target, ":name: " + i, ":alt: a")[:-1] or [target])
        self.tags.add("mock:figure")
        body = self.options(target, ":name: " + i, ":figclass: k", ":align: center")
        k = r.random()
        if k < 0.75:
            body.append(self.inline())                       # caption
        elif k < 0.85:
            body.append("%")                                 # empty comment: no caption, legend only
        else:
            body.extend(self.hr())                           # not a paragraph: error branch
        if r.random() < 0.6:                                  # legend
            body.append("")
            body.extend(self.blocks(depth + 1, "directive") if depth < self.maxdepth else [self.inline(1)])
        return self.fence(depth, "{figure} u.png", body)

    def titled(self, depth):
        name = self.pick(["admonition", "topic", "sidebar", "rubric", "contents", "admonition", "topic"])
        self.tags.add("mock:" + name)
        r = self.rng
        title = self.inline(self.pick([1, 2, 3, 4]))
        if name == "rubric":
            return self.fence(depth, "{rubric} " + title, self.options(":name: " + self.pick(IDS), ":class: k")[:-1])
        if name == "contents":
            return self.fence(depth, "{contents} " + title,
                              self.options(":depth: 2", ":local:", ":backlinks: " + self.pick(["entry", "top", "none"]))[:-1])
        opts = self.options(":name: " + self.pick(IDS), ":class: k",
                            *([":subtitle: " + self.inline(2)] if name == "sidebar" else []))
        inner = self.blocks(depth + 1, "directive") if depth < self.maxdepth else [self.inline()]
        return self.fence(depth, "{" + name + "} " + title, opts + self.safe_body(inner))

    def body_directive(self, depth):
        r = self.rng
        name = self.pick(["compound", "container k", "class k", "parsed-literal", "header", "footer", "role",
                          "meta", "replace x", "unicode 0xA9", "date", "title " + self.inline(2), "sectnum",
                          "target-notes", "raw html", "default-role " + self.pick(["emphasis", "strong", "nope"]),
                          "code python", "include"])
        key = name.split()[0]
        self.tags.add("mock:" + key)
        if key in ("compound", "container", "class", "header", "footer"):
            inner = self.blocks(depth + 1, "directive") if depth < self.maxdepth else [self.inline()]
            return self.fence(depth, "{" + name + "}", self.safe_body(inner) if r.random() < 0.9 else [])
        if key == "parsed-literal":
            return self.fence(depth, "{parsed-literal}", [self.inline(), "  " + self.inline(2)])
        if key == "role":
            base = self.pick(["emphasis", "strong", "raw", "code", "nope", "math", ""])
            rn = self.pick(["r1", "r2", "myrole"])
            opts = self.options(":class: k", *([":format: html"] if base == "raw" else []),
                                *([":language: python"] if base == "code" else []))[:-1]
            return self.fence(depth, "{role} " + rn + (f"({base})" if base else ""), opts) + \
                ["", "{" + rn + "}`x " + self.pick(WORDS) + "`"]
        if key == "meta":
            return self.fence(depth, "{meta}", [":description: " + self.pick(WORDS), ":keywords: a, b"])
        if key == "raw":
            return self.fence(depth, "{raw} html", ["<hr>"])
        if key == "code":
            return self.fence(depth, "{code} python", self.options(":number-lines:", ":name: " + self.pick(IDS)) + ["pass"])
        if key == "include":
            return self.fence(depth, "{include} " + INC_DIR + "/" + self.pick(["a.md", "b.md", "frag.md", "loop.md",
                                                                              "code.py", "nope.md"]),
                              self.options(":heading-offset: 1", ":literal:", ":start-after: S", ":start-line: 1",
                                           ":code: python")[:-1])
        return self.fence(depth, "{" + name + "}", [])

    def sphinx_directive(self, depth):
        r = self.rng
        i = self.pick(IDS)
        name = self.pick(["glossary", "glossary", "versionadded", "deprecated", "versionchanged", "seealso", "hlist",
                          "only", "only", "py:function", "py:function", "py:class", "option", "centered",
                          "code-block", "productionlist", "toctree", "acks", "describe", "c:function", "js:function",
                          "confval", "tabularcolumns", "rst-class", "math", "literalinclude", "codeauthor", "figure-md"])
        self.tags.add("mock:" + name)
        can = depth < self.maxdepth

        def inner():
            return self.safe_body(self.blocks(depth + 1, "directive") if can else [self.inline()])

        if name == "glossary":
            body = self.options(":sorted:")
            for _ in range(self.pick([1, 2, 3])):
                for _t in range(self.pick([1, 1, 2])):
                    body.append(self.pick([i, self.pick(HEAD_TEXTS), self.inline(1)]) +
                                self.pick(["", "", " : k", " : k1 : k2"]))
                if r.random() < 0.85:
                    body.extend(self.indent(self.blocks(depth + 1, "definition") if can else [self.inline()],
                                            "  ", "  "))
                body.append("")
            return self.fence(depth, "{glossary}", body[:-1])
        if name in ("versionadded", "deprecated", "versionchanged"):
            arg = " 1." + self.pick(["0", "1"]) + (" " + self.inline(2) if r.random() < 0.4 else "")
            return self.fence(depth, "{" + name + "}" + arg, inner() if r.random() < 0.7 else [])
        if name == "seealso":
            return self.fence(depth, "{seealso}" + (" " + self.inline(2) if r.random() < 0.3 else ""), inner())
        if name in ("hlist", "acks"):
            body = self.listblock(depth, False) if can and r.random() < 0.85 else [self.inline()]
            return self.fence(depth, "{" + name + "}", ([":columns: 3", ""] if name == "hlist" and r.random() < 0.5 else []) + body)
        if name == "only":
            body = inner()
            if r.random() < 0.6:
                body = self.heading(0) + [""] + body + [""] + self.heading(0) + ["", self.inline(1)]
            return self.fence(depth, "{only} " + self.pick(["html", "latex", "html or latex", "not html"]), body)
        if name in ("py:function", "py:class", "c:function", "js:function", "describe", "option", "confval"):
            sig = {"py:function": self.pick(["f(x, y=1)", "f()", "a(b: int) -> str"]), "py:class": "C(a)",
                   "c:function": "int " + self.pick(["f", "g"]) + "(int a)", "js:function": "jf(a)",
                   "describe": "thing " + self.inline(1), "option": "-" + self.pick(["a", "b"]) + " <x>",
                   "confval": "cv" + i}[name]
            body = self.options(":no-index:", *([":async:"] if name == "py:function" else []))
            body.append(self.inline())
            if r.random() < 0.8:
                body += [""] + [f for f in [":param x: " + self.inline(2), ":type x: int", ":param int y: " + self.atom(),
                                            ":returns: " + self.inline(1), ":rtype: str", ":raises E: " + self.atom(),
                                            ":var v: " + self.atom(), ":other: " + self.atom()] if r.random() < 0.5]
            if can and r.random() < 0.5:
                body += [""] + self.blocks(depth + 1, "directive")
            return self.fence(depth, "{" + name + "} " + sig, body)
        if name == "centered":
            return self.fence(depth, "{centered} " + self.inline(2), [])
        if name == "code-block":
            return self.fence(depth, "{code-block} python",
                              self.options(":caption: " + self.inline(2), ":name: " + i, ":linenos:") + ["pass"])
        if name == "productionlist":
            return self.fence(depth, "{productionlist} " + self.pick([i + ": x `" + i + "`", i + ": y", "grp"]), [])
        if name == "toctree":
            return self.fence(depth, "{toctree}", self.options(":caption: " + self.inline(1), ":hidden:") +
                              [self.pick(["index", "other", "T <index>", "https://e.x"])])
        if name == "math":
            return self.fence(depth, "{math}", [":label: " + self.pick(["l", "a", i]), "", "x"])
        if name == "literalinclude":
            return self.fence(depth, "{literalinclude} " + INC_DIR + "/code.py", self.options(":caption: " + self.inline(1),
                                                                                              ":lines: 1-2")[:-1])
        if name == "figure-md":
            return self.fence(depth, "{figure-md} " + i, ["![a](u.png)", "", self.inline()])
        if name == "rst-class":
            return self.fence(depth, "{rst-class} k", inner() if r.random() < 0.5 else [])
        return self.fence(depth, "{" + name + "} " + self.pick(["|l|l|", "A <a@b.c>"]), [])

    def structured(self, depth):
        """One directive with a structured body (see MOCK_USE_CORE / MOCK_USE_SPHINX)."""
        gens = [self.line_block, self.line_block, self.quote_directive, self.quote_directive, self.list_table,
                self.csv_table, self.table_directive, self.figure, self.titled, self.titled, self.body_directive]
        if self.sphinx:
            gens += [self.sphinx_directive] * 5
        out = self.pick(gens)(depth)
        if self.rng.random() < 0.1:                          # the rST original of a mocked construct next to it
            self.tags.add("mock:eval-rst")
            f = "`" * (3 + self.maxdepth - min(depth, self.maxdepth))
            out += ["", f + "{eval-rst}"] + self.pick(RST_MOCKED).split("\n") + [f]
        return out

    # ---- block sequence
    def block(self, depth, where):
        r = self.rng
        self.left -= 1
        if self.structured_p and r.random() < self.structured_p:
            return self.structured(depth)
        can_nest = depth < self.maxdepth and self.left > 0
        k = r.random()
        if can_nest and k < 0.42:
            j = r.random()
            if j < 0.20:
                return self.quote(depth)
            if j < 0.38:
                return self.listblock(depth, False)
            if j < 0.48:
                return self.listblock(depth, True)
            if j < 0.64:
                return self.footdef(depth)
            if j < 0.72:
                return self.deflist(depth)
            if j < 0.78:
                return self.fieldlist(depth)
            if j < 0.92:
                return self.directive(depth, False)
            return self.directive(depth, True)
        j = r.random()
        if j < 0.26:
            return [self.inline()] + ([self.inline()] if r.random() < 0.2 else [])
        if j < 0.42:
            return self.hr()
        if j < 0.54:
            return self.heading(depth)
        if j < 0.64:
            return self.table()
        if j < 0.71:
            return self.target()
        if j < 0.77:
            return self.mathlabel()
        if j < 0.84:
            return self.attrs_block(depth)
        if j < 0.90:
            self.tags.add("footnote-def")
            return [f"[^{self.pick(FN_LABELS)}]: " + self.inline(2)]
        return self.misc_leaf(depth)

    def blocks(self, depth, where):
        r = self.rng
        n = self.pick([1, 1, 2, 2, 3]) if depth else self.pick([2, 3, 4, 5, 6, 8])
        out = []
        for k in range(n):
            if k and self.left <= 0:
                break
            b = self.block(depth, where)
            if out and not (r.random() < 0.06):
                out.append("")
            out.extend(b)
        return out or [self.pick(WORDS)]

    # ---- deep chain: containers nested down to maxdepth around one interesting leaf
    def chain(self):
        self.tags.add("chain")
        depth_goal = self.rng.randint(2, self.maxdepth)
        leaf = self.pick([self.hr, self.table, lambda: self.heading(depth_goal), self.target, self.mathlabel,
                          lambda: [f"[^{self.pick(FN_LABELS)}]: x"], lambda: [self.inline(3)]])
        lines = ["p " + self.atom(), ""] + leaf() if self.rng.random() < 0.7 else leaf()
        if self.rng.random() < 0.4:
            lines += ["", self.inline(1)]
        for d in range(depth_goal - 1, -1, -1):
            k = self.rng.randrange(8)
            if k == 0:
                self.tags.add("quote")
                lines = ["> " + l if l else ">" for l in lines]
            elif k == 1:
                self.tags.add("list")
                lines = self.indent(lines, "- ", "  ")
            elif k == 2:
                self.tags.add("olist")
                lines = self.indent(lines, "1. ", "   ")
            elif k == 3:
                self.tags.add("footnote-def")
                lines = self.indent(lines, f"[^{self.pick(FN_LABELS)}]: ", "    ")
            elif k == 4:
                self.tags.add("deflist")
                lines = ["T"] + self.indent(lines, ": ", "  ")
            elif k == 5:
                self.tags.add("fieldlist")
                lines = self.indent(lines, ":f: ", "    ")
            else:
                colon = k == 7
                self.tags.add("colon-directive" if colon else "directive")
                f = (":" if colon else "`") * (3 + self.maxdepth - d)
                if lines[0].startswith(("---", ":", "{")):
                    lines = ["w", ""] + lines
                lines = [f + "{" + self.pick(["note", "tip", "warning"]) + "}"] + lines + [f]
            if self.rng.random() < 0.25:
                lines = [self.inline(1), ""] + lines
        return lines

    def document(self):
        r = self.rng
        lines = []
        if r.random() < 0.06:
            self.tags.add("front-matter")
            lines += self.pick([["---", "a: 1", "---"], ["---", "myst:", "  heading_anchors: 3", "---"],
                                ["---", "title: a", "---"], ["---", "---"]]) + [""]
        if r.random() < 0.18:
            lines += self.chain()
            if r.random() < 0.5:
                lines += [""] + self.blocks(0, "document")
        else:
            lines += self.blocks(0, "document")
        if r.random() < 0.35:                       # trailing footnote definitions / refs to provoke collisions
            lab = self.pick(FN_LABELS)
            lines += ["", f"[^{lab}]: " + self.inline(1)]
            if r.random() < 0.6:
                lines += ["", f"[^{lab}]"]
        text = "\n".join(lines)
        return text + ("\n" if r.random() < 0.9 else "")


KW_CHOICES = [
    ("footnote_sort", [True, True, False]),
    ("footnote_transition", [True, False]),
    ("heading_anchors", [0, 1, 2, 3, 6]),
    ("title_to_header", [True]),
    ("all_links_external", [True]),
    ("fence_as_directive", [["note"]]),
]


STRUCTURED_SHARE = 0.13


def gen_case(rng, tier, i, structured=0.0):
    """One generated base case (stage is filled in by the caller: every case is checked at both stages).
    `structured`: share of blocks that are directives with structured bodies (the search passes 0.13; the default
    keeps the documents - and the random stream - of the correspondence corpus of props/C03.py as they were)."""
    thorough = tier == "thorough"
    maxdepth = rng.choice([2, 3, 4, 6]) if not thorough else rng.choice([2, 3, 4, 6, 8, 10])
    maxblocks = rng.choice([4, 8, 12, 16]) if not thorough else rng.choice([4, 8, 12, 20, 28])
    backend = None
    if structured:
        backend = "sphinx" if rng.random() < 0.35 else "docutils"       # decided first: Sphinx-only directives
    g = DocGen(rng, maxdepth, maxblocks, sphinx=backend == "sphinx", structured=structured)
    text = g.document()
    m = rng.random()
    mode = "myst" if m < 0.82 else ("gfm" if m < 0.92 else "commonmark")
    e = rng.random()
    if e < 0.35:
        exts = list(ALL_EXTS)
    elif e < 0.45:
        exts = []
    else:
        exts = [x for x in ALL_EXTS if rng.random() < 0.65]
    if backend is None:
        backend = "sphinx" if rng.random() < 0.35 else "docutils"
    kw = {}
    for name, vals in KW_CHOICES:
        p = 0.45 if name in ("footnote_sort", "heading_anchors") else 0.07
        if rng.random() < p:
            kw[name] = rng.choice(vals)
    if kw.get("fence_as_directive") is not None and mode != "myst":
        kw.pop("fence_as_directive")
    return {"text": text, "mode": mode, "exts": exts, "backend": backend, "stage": "parse", "kw": kw,
            "tags": sorted(g.tags)}


# ---- round 5: two focused generators (their own share of the budget, drawn after the main loop)

NO_RAW = {"raw_enabled": False, "file_insertion_enabled": False}
RAW_INLINE = ["<b>h</b>", "~~d~~", "a\\\nb", "<span id=\"a\">s</span>", "<!-- c -->", "<i>j</i> k", "{raw-html}`<b>x</b>`",
              "*e* <br>", "[^1] <u>v</u>"]
RAW_BLOCK = [["<div>h</div>"], ["<hr>"], ["```{raw} html", "<hr>", "```"], ["<!-- c -->"],
             ["<div class=\"k\">", "<p>x</p>", "</div>"], ["```{include} " + INC_DIR + "/a.md", "```"],
             ["```{raw} latex", "\\x", "```"], ["|a|b|", "|-|-|", "|<b>x</b>|<i>y</i>|"]]
SETTINGS_CHOICES = [NO_RAW, NO_RAW, {"raw_enabled": False}, {"file_insertion_enabled": False}]


def gen_raw_case(rng):
    """Several raw-producing constructs, nested in containers, under raw_enabled / file_insertion_enabled off."""
    blocks = []
    for _ in range(rng.choice([2, 2, 3, 4, 6])):
        if rng.random() < 0.5:
            b = [" ".join(rng.choice(RAW_INLINE) for _ in range(rng.choice([1, 2, 3])))]
        else:
            b = list(rng.choice(RAW_BLOCK))
        w = rng.randrange(8)
        if w == 0:
            b = [("> " + l) if l else ">" for l in b]
        elif w == 1:
            first = rng.choice(["- ", "1. "])
            b = DocGen.indent(b, first, " " * len(first))
        elif w == 2:
            b = ["````{note}"] + b + ["````"]
        elif w == 3:
            b = DocGen.indent(b, "[^1]: ", "    ")
        elif w == 4:
            b = ["# h " + rng.choice(RAW_INLINE).replace("\n", " ")] + [""] + b
        blocks.append("\n".join(b))
    text = "```{role} raw-html(raw)\n:format: html\n```\n\n" if rng.random() < 0.3 else ""
    text += "\n\n".join(blocks) + "\n"
    return {"text": text, "mode": "myst" if rng.random() < 0.8 else rng.choice(["gfm", "commonmark"]),
            "exts": list(ALL_EXTS), "backend": "docutils" if rng.random() < 0.8 else "sphinx", "stage": "parse",
            "kw": {}, "settings": dict(rng.choice(SETTINGS_CHOICES))}


ODD_IDS = ["Setup_Notes", "X_y", "a_b", "In_list", "plain", "A", "Q_r", "x-y", "T_1"]
ODD_TARGETS = ["My Target", "t 2", "A.b", "x_y", "plain2"]
ODD_HEADS = ["Setup Notes", "A.b c", "x y", "Top", "a", "First", "Second one", "Setup Notes"]


def _slug(text):
    return re.sub(r"[^\w\- ]", "", text.lower()).replace(" ", "-")


def gen_anchor_case(rng):
    """Headings (and other blocks) carrying ids whose name differs from the docutils id, heading anchors on, and
    links by id name, by target name and by heading slug."""
    blocks, refs = [], ["nope"]
    for _ in range(rng.choice([1, 2, 3, 4])):
        pre = []
        k = rng.random()
        if k < 0.6:
            i = rng.choice(ODD_IDS)
            pre = [rng.choice(["{{#{}}}", "{{#{} .k}}", "{{.k #{}}}"]).format(i)]
            refs.append(i.lower())
        elif k < 0.8:
            t = rng.choice(ODD_TARGETS)
            pre = [f"({t})=", ""] if rng.random() < 0.5 else [f"({t})="]
            refs.append(t.lower().replace(" ", "%20"))
        j = rng.random()
        if j < 0.7:
            h = rng.choice(ODD_HEADS)
            b = pre + ["#" * rng.choice([1, 1, 2, 2, 3]) + " " + h]
            refs += [_slug(h), _slug(h) + "-1"][:rng.choice([1, 1, 2])]
            w = rng.randrange(8)
            if w == 0:
                b = ["> " + l for l in b]
            elif w == 1:
                b = DocGen.indent(b, "- ", "  ")
        elif j < 0.85:
            b = pre + ["> quote"]
        else:
            i = rng.choice(ODD_IDS)
            refs.append(i.lower())
            b = pre + [f"para [s]{{#{i}}}"]
        blocks.append("\n".join(b))
    rng.shuffle(refs)
    links = " ".join(rng.choice(["[t](#{})", "[](#{})", "<project:#{}>"]).format(x) for x in refs)
    blocks.insert(rng.randrange(len(blocks) + 1), links)
    return {"text": "\n\n".join(blocks) + "\n", "mode": "myst", "exts": list(ALL_EXTS),
            "backend": "sphinx" if rng.random() < 0.35 else "docutils", "stage": "parse",
            "kw": {"heading_anchors": rng.choice([1, 2, 3, 3, 6])}}


# ------------------------------------------------------------------------------------------------ witnesses

def _w(text, backends=("docutils", "sphinx"), stages=("parse", "full"), mode="myst", exts=None, **kw):
    out = []
    for b in backends:
        for s in stages:
            out.append({"text": text, "mode": mode, "exts": list(ALL_EXTS if exts is None else exts),
                        "backend": b, "stage": s, "kw": dict(kw)})
    return out


def _ws(text, settings_list=(NO_RAW, {"raw_enabled": False}, {"file_insertion_enabled": False}), **kw):
    """Witnesses run under non-default docutils settings."""
    return [dict(c, settings=dict(st)) for st in settings_list for c in _w(text, **kw)]


FIXED_WITNESSES = (
    # transitions inside containers
    _w("> ---\n")
    + _w("- a\n\n  ---\n")
    + _w("```{note}\n---\n```\n")
    + _w("```{note}\nx\n\n---\n\ny\n```\n")
    + _w("1. x\n\n   ***\n")
    + _w("[^1]: a\n\n    ---\n\n[^1]\n")
    + _w("> a\n>\n> ---\n>\n> b\n")
    + _w("T\n: a\n\n  ___\n\n  b\n")
    + _w(":::{note}\nx\n\n---\n\ny\n:::\n")
    + _w("> ---\n", mode="commonmark")
    + _w("> ---\n", mode="gfm")
    # duplicated identifiers
    + _w("$$a$$ (l)\n\n$$b$$ (l)\n", backends=("sphinx",))
    + _w("$$a$$ (l)\n\n$$b$$ (l)\n", backends=("docutils",))
    + _w("{#a}\n> q\n\n{#a}\n- x\n\n[x]{#a} ![i](u){#a}\n\n(a)=\n\n# a\n\n(a)=\n\n# a\n")
    # footnotes
    + _w("# a\n\n[^a]\n\n[^a]: note\n")
    + _w("[^a]\n\n[^b]: unreferenced\n\n[^a]: one\n\n[^a]: two\n\n[^1]: n\n\n[^1]\n", footnote_sort=True)
    + _w("[^a]\n\n[^b]: unreferenced\n\n[^a]: one\n\n[^a]: two\n\n[^1]: n\n\n[^1]\n", footnote_sort=False)
    + _w("[^x]: - a\n\n      # h\n\n    ---\n\n    z\n\n[^x]\n")
    # tables
    + _w("|a|b|\n|-|-|\n|1|\n|1|2|3|\n||\n")
    + _w("> |a|b|c|\n> |-|:-:|-|\n> |[^1]|\n\n- |a|\n  |-|\n  |1|2|\n", mode="gfm")
    # links
    + _w("[x](#nope)\n")
    + _w("# a\n\n[x](#a) [](#a) <project:#a> [x](other.md) [x](other.md#frag) [](#missing)\n")
    # id_link path (`[text](#name)` -> ResolveAnchorIds writes the refid): explicit targets whose NAME differs from
    # the ID docutils derives from it, on a block target, an attribute id, a definition term, and heading slugs
    # that differ from the section ids; a wrong refid shows as refid:dangling:reference:id_link:never-existed
    + _w("(My Target)=\n\n# Some Heading\n\n[x](#my%20target) [](#my%20target) <project:#my%20target> "
         "[z](#some-heading)\n\n[i]{#X_y} [k](#x_y)\n\n(t 2)=\nTerm Y\n: def\n\n[](#t%202)\n")
    + _w("# A.b c\n\n## A.b c\n\n[z](#ab-c) [](#ab-c-1) <project:#ab-c>\n", heading_anchors=2)
    # docutils Contents copies a section title into the table of contents together with an inline that carries an
    # id (only MyST's attrs_inline puts ids on inlines)
    + _w("```{contents}\n```\n\n# a\n\n## [x]{#l} b\n")
    # headings in containers / jumping levels
    + _w("# a\n\n### c\n\n## b\n\n> # q\n\n- ## r\n")
    # found by the generator on the unchanged tree (one minimal witness per signature, so that every run
    # reproduces them):
    # explicit id equal to an existing name: the duplicate-name system_message lands in front of the title
    + _w("# a\n\n{#a}\n# b\n")
    + _w("(x)=\n\n{#x}\n# h\n")       # the same, lone section: docutils DocTitle asserts on the missing title
    # eval-rst: a separately numbered scratch document is spliced into the current node
    + _w("- ```{eval-rst}\n  a\n  =\n  ```\n")
    + _w("[x]{#a}\n\n```{eval-rst}\n.. _a:\n```\n")
    + _w("```{eval-rst}\n.. [#] x\n```\n")
    + _w("> ```{eval-rst}\n> a\n>\n> ----\n>\n> b\n> ```\n")
    + _w("[^1]\n\n```{eval-rst}\n[#]_\n```\n")
    + _w("1. # A\n2. ```{eval-rst}\n   .. _a:\n   ```\n\n[x]{#A}\n")
    # Sphinx: empty block quote carrying an id (HandleCodeBlocks replaces it by its - no - children)
    + _w("{#l}\n>\n", backends=("sphinx",))
    # Sphinx: explicit id equal to a math label's equation id
    + _w("(equation-l)=\n\n$$a$$ (l)\n", backends=("sphinx",))
    # leading field list becomes docinfo (docutils) and is removed from the tree (Sphinx)
    + _w(":f: [^l]\n\n[^l]: x\n")
    + _w(":f: [x]{#l}\n\n[y](#l)\n")
    # docutils transforms that discard a node which had received a propagated target id (DocInfo rebuilds the
    # leading field list, Contents removes an empty table of contents)
    + _w("(b)=\n:x: y\n\n[x](#b)\n")
    + _w("(a)=\n```{contents}\n```\n\n[x](#a)\n")
    # id on an anchor link that Sphinx resolves to an equation: the id disappears with the replaced node
    + _w("[](#1){#1} [^1]\n\n> $$a$$ (1)\n", backends=("sphinx",))
    # (since 37bd485 that link resolves to itself; the cause needs a link that a Sphinx domain resolves with a
    # content node of its own: the math domain's "(1)")
    + _w("[t](#l){#k} [u](#k)\n\n$$a$$ (l)\n", backends=("sphinx",))
    + _w("[t](#l){#k} [^k]\n\n$$a$$ (l)\n\n[^k]: x\n", backends=("sphinx",))
    # an id on an anchor link that nothing resolves stays in the tree (ResolveAnchorIds moves ids/names to the
    # pending_xref's inner node, MystReferenceResolver keeps that node)
    + _w("[t](#nope){#k} [u](#k)\n")
    # round 5: explicit ids on headings whose NAME is not the docutils id, with heading anchors on, linked by
    # slug and by id (the slug table must hand ResolveAnchorIds an id that is in the tree)
    + _w("{#Setup_Notes}\n# Setup Notes\n\n[by slug](#setup-notes) [by id](#setup_notes) [](#setup-notes) "
         "<project:#setup-notes>\n", heading_anchors=1)
    + _w("{#X_y}\n# First\n\n(My Target)=\n## Second one\n\n{#plain}\n## Third\n\n{#Q_r}\n> q\n\n"
         "[a](#first) [b](#second-one) [c](#third) [d](#x_y) [e](#my%20target) [f](#plain) [g](#q_r) [h](#nope)\n",
         heading_anchors=2)
    + _w("- {#In_list}\n  # In a list\n\n> {#In_quote}\n> ## In a quote\n\n[a](#in-a-list) [b](#in-a-quote) "
         "[c](#in_list) [d](#in_quote)\n", heading_anchors=3)
    # round 5: the same well-formedness clauses with raw content / file insertion disabled (docutils settings):
    # every raw node is replaced by a warning node - several raw-producing constructs per document
    + _ws("<div>a</div>\n\n<div>b</div>\n")
    + _ws("<div>a</div>\n\nx <b>inline</b> html and ~~s~~ a\\\nb\n\n> <hr>\n\n- <span>i</span> <i>j</i>\n")
    + _ws("a\\\nb\\\nc\n\n~~x~~ ~~y~~\n")
    + _ws("```{raw} html\n<hr>\n```\n\n<div>a</div>\n\n```{include} @C03INC@/a.md\n```\n")
    + _ws("|a|\n|-|\n|<b>x</b> <i>y</i>|\n\n[^1]: <div>\n\n[^1] <b>z</b>\n")
)


# ---- structured bodies for every directive that reaches the mocked state (MOCK_USE_CORE / MOCK_USE_SPHINX)

def _d(*lines):
    return "\n".join(lines) + "\n"


# (key, backends, text): docutils-core directives run on both back ends (Sphinx overrides several of the classes)
MOCK_DOCS = [
    # -- {line-block}: MockState.nest_line_block_lines / _nest_line_block_segment
    # an indented group FOLLOWED by a less indented line, twice (a flushed group must not be reused)
    ("line-block:groups", None, _d(
        "```{line-block}", "one", "  two", "three", "  four", "  five", "six", "```")),
    # leading indented line, four levels, blank lines between groups, dedent by two levels, trailing group
    ("line-block:levels", None, _d(
        "```{line-block}", "  lead *in*", "a", "  b", "    c", "      d [^n]", "    e", "", "  f", "g", "",
        "    h", "  i", "j", "      k", "```", "", "[^n]: x")),
    # colon fence inside a block quote, backtick fence inside a list item, the rST construct through eval-rst
    ("line-block:nested", None, _d(
        "> :::{line-block}", "> x", ">   y", "> z", ">   w", ">     v", ">   u", "> :::", "",
        "- ```{line-block}", "  p", "    q", "  r", "    s", "  ```", "",
        "```{eval-rst}", "| a", "|   b", "| c", "|   d", "```")),
    # -- {epigraph} {pull-quote} {highlights}: MockState.block_quote (+ inline_text for the attribution)
    ("block-quote:attribution", None, _d(
        ":::{epigraph}", "Para *one*.", "", "Para two.", "", "-- Author **B** [^n] {pep}`x` `c`", ":::", "",
        "```{pull-quote}", "", "-- only an attribution", "```", "",
        ":::{highlights}", "- item", "", "text", "", "--- first *attr*", "", "-- second attr", "continued", ":::", "",
        "```{epigraph}", "no attribution", "-- not one (no blank line before)", "```", "",
        "[^n]: note")),
    ("block-quote:nested", None, _d(
        "> ```{epigraph}", "> q", ">", "> — em dash *w*", ">   more", "> ```", "",
        "1. ````{pull-quote}", "   ```{note}", "   n", "   ```", "", "   -- a *b*", "   ````", "",
        "```{eval-rst}", ".. epigraph::", "", "   q", "", "   -- w *x*", "```")),
    # -- tables: list-table (nested_parse + inline_text title), csv-table (build_table / build_table_row,
    #    get_source), table (nested markdown table)
    ("tables:full", None, _d(
        ":::{list-table} Title *em* `c`", ":header-rows: 1", ":stub-columns: 1", ":widths: 10 20 30", ":name: lt", "",
        "* - h1", "  - h2", "  - h3", "* - a", "  - b [x](#lt)", "  - - nested", "    - list",
        "* - ```{note}", "    in cell", "    ```", "  - $m$", "  - c", ":::", "",
        "```{csv-table} CSV **t**", ":header: A, \"B *x*\", C", ":widths: auto", ":stub-columns: 1",
        ":header-rows: 1", "", "h1, h2, h3", "\"a, b\", c, [^n]", "d, \"e", "", "f\", g", "```", "",
        "```{table} Table *title* [^n]", ":name: tb", ":align: center", ":widths: 1 2", "",
        "| a | b |", "|---|---|", "| 1 | 2 |", "```", "", "[^n]: x")),
    ("tables:shapes", None, _d(
        "```{csv-table}", "a,b", "c", "```", "",
        ":::{list-table}", ":widths: 1 2", "", "* - a", "* - b", "  - c", ":::", "",
        "```{list-table}", "* - a", "  - b", "* - c", "  - d", "```", "",
        "```{table}", "not a table", "```", "",
        "> ```{csv-table} T", "> :delim: ;", "> :widths: 1, 2", ">", "> a;b", "> c;*d*", "> ```", "",
        "- ```{list-table}", "  :header-rows: 1", "", "  * - x", "  * - y", "  ```", "",
        "```{eval-rst}", ".. list-table:: T", "   :header-rows: 1", "", "   * - a", "     - b", "   * - c", "     - d",
        "", ".. csv-table:: C", "   :header: x, y", "", "   1, 2", "```")),
    # -- {figure} (nested_parse: caption + legend; parse_target) and {image} :target: (URL and `name_` forms)
    ("figure:legend", None, _d(
        "```{figure} u.png", ":target: https://e.x/a b", ":name: fig", ":alt: alt", ":figclass: k", ":width: 50%", "",
        "Caption *em* [^n]", "", "Legend para one.", "", "- legend list", "", "| a |", "|---|", "| 1 |", "```", "",
        "```{image} u.png", ":target: https://e.x", "```", "",
        "```{image} u.png", ":target: fig_", ":name: img", "```", "",
        ":::{image} u.png", ":target: `some name`_", ":::", "",
        "```{figure} u.png", ":target: fig_", "", "- not a caption", "```", "", "[^n]: x")),
    ("figure:nested", None, _d(
        "- :::{figure} u.png", "  cap", "", "  leg", "  :::", "",
        "> ```{figure} u.png", "> :target: img_", ">", "> %", ">", "> legend only", "> ```", "",
        "```{eval-rst}", ".. figure:: u.png", "   :target: x_", "", "   cap", "", "   leg", "",
        ".. _x: https://e.x", "```")),
    # -- titles through MockState.inline_text -> MockInliner.parse / problematic
    ("titles:inline", None, _d(
        "# H", "",
        ":::{admonition} Title *em* **s** `c` [l](#h) {abbr}`a (b)` [^n] {pep}`x`", ":class: k", ":name: adm", "",
        "body", ":::", "",
        ":::{topic} Topic *t* $m$ {nope}`x`", "tbody", "", "- l", ":::", "",
        "```{sidebar} Side **s**", ":subtitle: Sub *t* [x](https://e.x)", "", "sbody", "```", "",
        "```{rubric} Rubric *r* [^n]", ":name: rub", "```", "",
        ":::{contents} Contents *c* {rfc}`y`", ":depth: 2", ":local:", ":backlinks: entry", ":::", "",
        "## H2", "",
        "::::{note}", ":class: x", "", "> :::{topic} In *q*", "> b", "> :::", "::::", "",
        "```{attention}", "a", "```", "```{caution}", "a", "```", "```{danger}", "a", "```", "```{error}", "a", "```",
        "```{hint}", "a", "```", "```{important}", "a", "```", "```{tip}", "a", "```", "```{warning}", "a", "```", "",
        "[^n]: note")),
    # -- bodies: parsed-literal (inline_text), compound / container / class (nested_parse), role
    #    (parse_directive_block), default-role
    ("bodies:misc", None, _d(
        ":::{parsed-literal}", "lit *em* [l](https://e.x) {pep}`8` {pep}`x`", "  second $m$", ":::", "",
        "```{compound}", "para", "", "    code", "", "- list", "```", "",
        "::::{container} k1 k2", ":name: cont", "para", "", ":::{note}", "inner", ":::", "::::", "",
        "```{class} klass", "```", "", "Para after class.", "",
        "```{class} k2", "> quoted", "```", "",
        "```{role} myrole(emphasis)", ":class: special", "```", "", "{myrole}`text` and {nope2}`x`", "",
        "```{role} raw-html(raw)", ":format: html", "```", "", "{raw-html}`<b>x</b>`", "",
        "```{role} bad(nonexistent)", "```", "",
        "```{role} plain", "```", "", "{plain}`p`", "",
        "```{default-role} emphasis", "```")),
    # -- document parts and leaves: title meta sectnum header footer target-notes raw replace unicode date code math
    ("parts:misc", None, _d(
        "```{title} Doc *title*", "```", "",
        "```{meta}", ":description: d", ":keywords: k1, k2", "```", "",
        "```{sectnum}", ":depth: 2", "```", "",
        "```{header}", "Header *h* [^n]", "```", "",
        "```{footer}", "Footer **f**", "", "- x", "```", "",
        "# A", "", "[x](https://e.x) [y](https://e.y)", "",
        "```{target-notes}", "```", "",
        "```{raw} html", "<hr>", "```", "", "```{raw} latex", "\\x", "```", "",
        "```{replace} text", "```", "", "```{unicode} 0xA9", "```", "", "```{date} %Y", "```", "",
        "```{code} python", ":number-lines: 2", ":name: c1", "", "def f(): pass", "```", "",
        "```{math}", ":label: eq1", ":name: m1", "", "a = b", "```", "",
        "```{restructuredtext-test-directive}", "x", "```", "",
        "## B", "", "[^n]: x")),
    # -- the rST originals of the same constructs (real docutils state) next to a MyST header
    ("rst:originals", None, _d(
        "```{eval-rst}", ".. |c| unicode:: 0xA9", ".. |d| date::", ".. |r| replace:: *x*",
        ".. |i| image:: u.png", "   :target: https://e.x", "", "|c| |d| |r| |i|", "",
        ".. role:: cr(emphasis)", "", ":cr:`t`", "", ".. header:: hh", "",
        ".. sidebar:: S *s*", "   :subtitle: sub", "", "   b", "", ".. topic:: T", "", "   b", "",
        ".. parsed-literal::", "", "   a *b*", "", ".. compound::", "", "   a", "", "   b", "",
        ".. container:: k", "", "   a", "```", "",
        "```{header}", "outer h", "```")),
    # -- directives run from a MyST substitution (front matter; rendered once per use, block and inline)
    ("substitution:directives", None, _d(
        "---", "myst:", "  substitutions:", "    u: |", "      ```{unicode} 0xA9", "      ```",
        "    r: |", "      ```{replace} *x*", "      ```", "    dt: |", "      ```{date} %Y", "      ```",
        "    lb: |", "      ```{line-block}", "      a", "        b", "      c", "      ```",
        "    ep: |", "      ```{epigraph}", "      q", "", "      -- w *x*", "      ```", "---",
        "{{ u }} {{ r }} {{ dt }} and {{ lb }}", "", "{{ lb }}", "", "{{ ep }}", "", "> {{ ep }}")),
    # -- {include}: MockIncludeDirective (nested render, literal, code, clipping, circular, nested include)
    ("include:files", None, _d(
        "# top", "",
        "```{include} " + INC_DIR + "/a.md", "```", "",
        "```{include} " + INC_DIR + "/b.md", ":heading-offset: 1", "```", "",
        "```{include} " + INC_DIR + "/loop.md", "```", "",
        "```{include} " + INC_DIR + "/frag.md", ":start-after: <!-- S -->", ":end-before: <!-- E -->", "```", "",
        "```{include} " + INC_DIR + "/code.py", ":literal:", ":number-lines: 3", ":name: lit", "```", "",
        "```{include} " + INC_DIR + "/code.py", ":code: python", ":start-after: START", ":end-before: END", "```", "",
        "> ```{include} " + INC_DIR + "/frag.md", "> :start-line: 2", "> :end-line: 6", "> ```", "",
        "```{include} " + INC_DIR + "/missing.md", "```")),
    # -- directives that validate the content they had parsed and drop it (only an error is returned): the
    #    document's registries keep the dropped footnote references (inherited from docutils / Sphinx; one open
    #    finding per directive: backref:dangling:dropped-by:directive:<name>)
    #    (a footnote reference inside: the footnote's backref dangles; an id inside that a footnote reference outside
    #    resolves to: its refid dangles)
    ("dropped-content:table", None, _d(
        "```{table} T [^a]", "not a table [^b] [i]{#l}", "```", "", "[^a]: x", "", "[^b]: y", "", "[^l]")),
    ("dropped-content:list-table", None, _d(
        "```{list-table} T [^a]", "not a list [^b] [i]{#l}", "```", "", "[^a]: x", "", "[^b]: y", "", "[^l]")),
    ("dropped-content:csv-table", None, _d(
        "```{csv-table} T [^a] [i]{#l}", ":header-rows: 5", "", "a, b", "```", "", "[^a]: x", "", "[^l]")),
    ("dropped-content:figure", None, _d(
        "````{figure} u.png", "- not a caption [^a] [i]{#l}", "", "```{warning}", "inner [^b]", "```", "````", "",
        "[^a]: x", "", "[^b]: y", "", "[^l]")),
    # ================= Sphinx only
    ("dropped-content:hlist", ("sphinx",), _d(
        "```{hlist}", "not a list [^a] [i]{#l}", "```", "", "[^a]: x", "", "[^l]")),
    ("dropped-content:acks", ("sphinx",), _d(
        "```{acks}", "not a list [^a] [i]{#l}", "```", "", "[^a]: x", "", "[^l]")),
    ("dropped-content:figure-md", ("sphinx",), _d(
        "```{figure-md}", "not an image [^a] [i]{#l}", "```", "", "[^a]: x", "", "[^l]")),
    # Sphinx' TypedField.make_field keeps a field's description only if it has text (`astext()`): a description that is
    # just a not yet numbered footnote reference is dropped
    ("dropped-content:object-description", ("sphinx",), _d(
        "```{py:function} f(n)", "", ":param n: [^a]", "```", "", "```{c:function} int g(int n)", "", ":param n: [^b]", "```", "",
        "[^a]: x", "", "[^b]: y")),
    # Sphinx' OnlyNodeTransform removes the content of an `{only}` whose expression is false for the builder,
    # targets inside included; references from outside keep their refid (inherited from Sphinx)
    ("only:removed-target", ("sphinx",), _d(
        "```{only} latex", "(c)=", "para [^a]", "```", "", "[x](#c)", "", "[^a]: x")),
    # docutils' Contents removes its pending node (with the title parsed by inline_text) when there is no section
    ("contents:removed-title", ("docutils",), _d("```{contents} T [^a]", "```", "", "[^a]: x")),
    # content / caption that is not empty but parses to NO node as Markdown (a link reference definition): docutils'
    # Figure.run takes node[0], Sphinx' container_wrapper takes parsed[0] (cannot happen in rST)
    ("empty-parse:figure", None, _d("```{figure} u.png", "", "[a]: b", "```")),
    ("empty-parse:code-caption", ("sphinx",), _d("```{code-block} python", ":caption: \"[a]: b\"", "", "pass", "```")),
    # a `{contents}` with :local: whose pending node is dropped with the content of an enclosing directive: the
    # Contents transform still runs on it
    ("dropped-content:pending", None, _d("````{list-table}", "not a list", "", "```{contents}", ":local:", "```", "````")),
    # Sphinx 8.2 ProductionList.run: max() of no productions (group name only); the same in rST
    ("productionlist:group-only", ("sphinx",), _d("```{productionlist} g", "```")),
    ("sphinx:glossary", ("sphinx",), _d(
        "```{glossary}", ":sorted:", "", "zeta : class1 : class2", "  def *z*", "", "alpha", "beta", "  shared def", "",
        "  - list", "", "gamma *g* [^n]", "  def with {term}`alpha`", "```", "",
        ":::{glossary}", "t1", "", "t2", "  d", "  # h", "", "alpha", "  again", ":::", "",
        "> ```{glossary}", "> q1 : k", ">   d", "> ```", "", "[^n]: x")),
    ("sphinx:productionlist", ("sphinx",), _d(
        ":::{productionlist} a: b `c` | d", ":::", "",
        ":::{productionlist} g: `a`", ":::", "", "{token}`a`")),
    ("sphinx:paragraph-level", ("sphinx",), _d(
        "```{versionadded} 1.0", "Added *text* [^n]", "", "- more", "```", "",
        "```{versionchanged} 2.0 inline *arg* [^n]", "body", "```", "",
        "```{versionchanged} 2.1", "```", "",
        "```{deprecated} 3.0 Gone *soon*", "```", "",
        "```{deprecated} 3.1", "Use *other*.", "", "Second para.", "```", "",
        "```{versionadded} 3.2 inline only", "```", "",
        "```{versionremoved} 3.3 inline", "- list body", "```", "",
        "```{versionremoved} 4.0", "> q", "```", "",
        "```{versionadded} 5.0", "- list first", "```", "",
        "```{seealso}", "{py:func}`f`", "", "t", ": d", "```", "",
        "```{seealso} inline *arg*", "```", "",
        "```{centered} Centered *c* [^n]", "```", "",
        "```{hlist}", ":columns: 3", "", "- a", "- b *x*", "- c", "- d", "```", "",
        "```{hlist}", "not a list", "```", "",
        "```{acks}", "- A", "- B", "```", "",
        "```{acks}", "no list", "```", "",
        "```{codeauthor} A *B* <a@b.c>", "```", "", "```{moduleauthor} M", "```", "", "```{sectionauthor} S", "```", "",
        "```{rubric} Sphinx rubric *r*", ":heading-level: 2", "```", "",
        "[^n]: x")),
    ("sphinx:structure", ("sphinx",), _d(
        "```{tabularcolumns} |l|l|", "```", "", "| a | b |", "|---|---|", "| 1 | 2 |", "",
        "```{highlight} python", ":linenothreshold: 2", "```", "",
        "```{index} single: a; b", ":name: ix", "```", "", "```{index} pair: x; y", "```", "",
        "# Top", "",
        "````{only} html", "## In only", "", "text", "", "### Deeper", "", "```{note}", "n", "```", "````", "",
        "````{only} latex or html", "para", "", "```{only} not html", "# H in nested only", "```", "````", "",
        "```{toctree}", ":caption: Cap *c*", ":maxdepth: 1", ":name: toc", "", "index", "Title <index>",
        "https://e.x", "missing", "```", "",
        "```{code-block} python", ":caption: Code *cap* [^n]", ":name: cb", ":linenos:", ":emphasize-lines: 1", "",
        "pass", "```", "",
        "```{sourcecode} c", ":caption: x", "", "int x;", "```", "",
        "```{literalinclude} " + INC_DIR + "/code.py", ":caption: Lit *c*", ":lines: 1-2", ":name: li", "```", "",
        "```{math}", ":label: eq1", ":nowrap:", "", "a", "```", "",
        "```{default-domain} py", "```", "",
        "```{rst-class} k", "```", "", "para", "",
        "```{rst-class} k3", "> q", "```", "",
        "```{cssclass} k2", "- l", "```", "",
        "```{figure-md} fm", ":class: c", "", "![alt](u.png){#im}", "", "Caption *c*", "```", "",
        "```{figure-md}", "not image", "```", "",
        "```{default-role} any", "```", "", "[^n]: x")),
    ("sphinx:py", ("sphinx",), _d(
        "```{py:module} mod", ":synopsis: syn", ":platform: p", ":deprecated:", "```", "",
        "```{py:currentmodule} mod", "```", "",
        "````{py:function} f(x: int, y=1) -> str", ":async:", "", "Desc *d* [^n].", "",
        ":param x: the x [^n]", ":type x: int", ":param int y: the y", ":returns: r", ":rtype: str",
        ":raises ValueError: bad", ":var v: v", ":unknownfield: u", "", "# heading in desc", "",
        "```{note}", "n", "```", "````", "",
        "`````{py:class} C(a)", ":final:", "", "doc", "",
        "````{py:method} m(self)", ":classmethod:", "", ":param self: s", "````", "",
        "````{py:attribute} attr", ":type: int", ":value: 1", "````", "",
        "```{py:property} p", "```", "", "```{py:staticmethod} sm()", "```", "", "```{py:classmethod} cm()", "```", "",
        "```{py:decoratormethod} dm", "```", "`````", "",
        "```{py:data} D", ":type: int", "```", "", "```{py:decorator} deco(x)", "```", "",
        "```{py:exception} E", "```", "", "```{py:type} T", ":canonical: int", "```", "",
        "```{function} g()", ":param a: b", "```", "", "[^n]: x")),
    ("sphinx:c-cpp", ("sphinx",), _d(
        "```{c:function} int f(int a)", ":param a: x", ":returns: r", "```", "",
        "````{c:struct} S", "```{c:member} int m", "```", "````", "",
        "```{c:macro} M(x)", "```", "", "````{c:enum} E", "```{c:enumerator} A", "```", "````", "",
        "```{c:type} T", "```", "", "```{c:union} U", "```", "", "```{c:var} int v", "```", "",
        "```{c:alias} f", "```", "",
        "```{c:namespace} ns", "```", "", "```{c:namespace-push} p", "```", "", "```{c:namespace-pop}", "```", "",
        "````{cpp:class} K", "```{cpp:function} void f(int a)", ":param a: x", ":tparam T: t", ":throws E: e", "```", "",
        "```{cpp:member} int m", "```", "", "```{cpp:var} int v", "```", "", "```{cpp:type} T = int", "```", "",
        "```{cpp:enum} E", "```", "", "```{cpp:enum-class} EC", "```", "", "```{cpp:enum-struct} ES", "```", "",
        "```{cpp:enumerator} EN", "```", "", "```{cpp:union} U", "```", "", "```{cpp:struct} S", "```", "",
        "```{cpp:concept} template<typename T> C", "```", "", "```{cpp:alias} K", "```", "````", "",
        "```{cpp:namespace} N", "```", "", "```{cpp:namespace-push} P", "```", "", "```{cpp:namespace-pop}", "```")),
    ("sphinx:js-rst-std", ("sphinx",), _d(
        "```{js:module} jm", "```", "",
        "````{js:class} JC(a)", ":param a: x", "", "```{js:method} m()", ":returns: r", "```", "",
        "```{js:attribute} at", "```", "````", "",
        "```{js:function} jf(a, b)", ":param a: x", ":throws E: e", "```", "", "```{js:data} jd", "```", "",
        "````{rst:directive} mydir", "desc", "", "```{rst:directive:option} opt", ":type: t", "```", "````", "",
        "```{rst:role} myr", "desc *r*", "```", "",
        "```{program} prog", "```", "",
        "```{option} -a <x>, --all", "Desc *o* [^n]", "```", "", "```{cmdoption} -b", "```", "",
        "```{envvar} EV", "d", "```", "",
        "```{confval} cv", ":type: int", ":default: 1", "", "d *x*", "```", "",
        "```{describe} thing *x*", "body", "", ":param a: b", "```", "", "```{object} obj", "```", "", "[^n]: x")),
]
MOCK_DOCS = [(d[0], d[1], d[2]) for d in MOCK_DOCS]

MOCK_WITNESSES = []
for _key, _backs, _text in MOCK_DOCS:
    MOCK_WITNESSES += _w(_text, backends=_backs or ("docutils", "sphinx"))

# FIXED_WITNESSES is also part of the correspondence corpus of props/C03.py (model vs implementation on the static
# grammar; its O_directive check assumes a directive only appends to the current node, which {header} / {footer} /
# {only} do not).  The structured directive bodies are search-only: `search` runs ALL_WITNESSES.
ALL_WITNESSES = FIXED_WITNESSES + MOCK_WITNESSES


# ------------------------------------------------------------------------------------------------ search / replay

_CLAUSE_TEXT = {
    "occurs-once": "every node occurs exactly once in the tree",
    "parent-pointer": "every child's parent pointer is the node that lists it",
    "section": "sections occur only directly under the document or another section and start with a title",
    "transition": "transitions occur only directly under the document or a section",
    "structure": "sections and transitions occur only directly under the document or a section",
    "ids": "all identifiers are unique",
    "refid": "every refid points at an identifier that exists in the tree unless a 'target not found' warning "
             "was issued for it",
    "backref": "every footnote backref points at an identifier that exists in the tree",
    "table": "every table row has exactly as many cells as the table declares columns",
    "footnote": "after processing every footnote starts with its label",
    "exception": "the implementation produces a document (no uncaught exception)",
}

_CONSTRUCT_RES = [
    ("table", re.compile(r"^\W*\|?[ :]*-+[ :]*\|", re.M)),
    ("hr", re.compile(r"^[ >\d.)\-*+:]*(?:-{3,}|\*{3,}|_{3,}|\* \* \*|- - -)\s*$", re.M)),
    ("footnote", re.compile(r"\[\^")),
    ("dupid", re.compile(r"\{#|\)=\s*$", re.M)),
    ("heading", re.compile(r"^[ >\-*+\d.)]*#{1,6} ", re.M)),
    ("mathlabel", re.compile(r"\$\$ *\(")),
    ("anchor-link", re.compile(r"\]\(<?#|<project:#")),
    ("directive", re.compile(r"^[ >]*(?:`{3,}|:{3,})\{", re.M)),
]


def _count_case(ctx, case):
    ctx.count("c03:mode:" + case["mode"])
    ctx.count("c03:backend:" + case["backend"])
    ctx.count("c03:stage:" + case["stage"])
    for name, rx in _CONSTRUCT_RES:
        if rx.search(case["text"]):
            ctx.count("c03:has:" + name)


def _witness(case):
    return {k: case[k] for k in ("text", "mode", "exts", "backend", "stage", "kw", "settings") if k in case}


class _Reporter:
    def __init__(self, ctx):
        self.ctx = ctx
        self.per_sig = {}

    def run(self, case):
        ctx = self.ctx
        case = normalise_case(case)
        ctx.search_cases += 1
        _count_case(ctx, case)
        fails, obs = run_case(case, want_obs=True)
        for o in obs:
            ctx.count("c03:obs:" + o)
        done = set()
        for f in fails:
            sig = f["signature"]
            ctx.count("c03:fail:" + sig)
            if sig in done:          # one report per signature per case
                continue
            done.add(sig)
            n = self.per_sig.get(sig, 0)
            self.per_sig[sig] = n + 1
            if n < MAX_FAIL_PER_SIGNATURE:
                ctx.fail(sig, witness=_witness(case), what=f["what"],
                         expected=_CLAUSE_TEXT.get(sig.split(":")[0], "well-formed docutils tree"),
                         observed=f["detail"])
        if not fails:
            ctx.count("c03:ok")
        return fails


def _suspect_variants(case, deep):
    base = normalise_case(case)
    explicit_backend = isinstance(case, dict) and "backend" in case
    explicit_stage = isinstance(case, dict) and "stage" in case
    out = []
    for b in ((base["backend"],) if explicit_backend and not deep else ("docutils", "sphinx")):
        for s in ((base["stage"],) if explicit_stage and not deep else ("parse", "full")):
            out.append(dict(base, backend=b, stage=s))
    if deep:
        lines = base["text"].split("\n")
        wraps = [
            "\n".join(("> " + l) if l else ">" for l in lines),
            "\n".join(DocGen.indent(lines, "- ", "  ")),
            "\n".join(["`````{note}", "w", ""] + lines + ["`````"]),
            "\n".join(DocGen.indent(lines, "[^1]: ", "    ")) + "\n\n[^1]",
            "# a\n\n" + base["text"] + "\n\n" + base["text"],
        ]
        for t in wraps:
            for b in ("docutils", "sphinx"):
                for s in ("parse", "full"):
                    out.append(dict(base, text=t + "\n", backend=b, stage=s))
    return out


def search(ctx):
    rep = _Reporter(ctx)
    for sus in list(getattr(ctx, "suspects", []) or []):
        try:
            for case in _suspect_variants(sus, getattr(ctx, "deep", False)):
                ctx.count("c03:source:suspect")
                rep.run(case)
        except (KeyboardInterrupt, SystemExit, MemoryError):
            raise
        except Exception:
            ctx.count("c03:suspect-not-understood")
    MOCK_HITS.clear()
    WALKED_TAGS.clear()
    for case in ALL_WITNESSES:
        ctx.count("c03:source:fixed")
        rep.run(case)
    selfcheck_mock_table(ctx)
    selfcheck_mock_reach(ctx)
    for (member, name), k in sorted(MOCK_HITS.items()):        # calls per member, summed over the directives
        ctx.count(f"c03:mock:{member}", k)
    n = ctx.budget(400, 6000, 6000)
    tier = getattr(ctx, "tier", "quick")
    for i in range(n):
        base = gen_case(ctx.rng, tier, i, structured=STRUCTURED_SHARE)
        for t in base.get("tags", ()):
            ctx.count("c03:gen:" + t)
        if i % max(1, n // 8) == 0:
            ctx.sample(_witness(base))
        for stage in ("parse", "full"):
            ctx.count("c03:source:generated")
            rep.run(dict(base, stage=stage))
    m = ctx.budget(30, 400, 400)
    for i in range(m):
        for kind, g in (("raw-disabled", gen_raw_case), ("odd-ids", gen_anchor_case)):
            base = g(ctx.rng)
            if i % max(1, m // 2) == 0:
                ctx.sample(_witness(base))
            for stage in ("parse", "full"):
                ctx.count("c03:source:generated:" + kind)
                rep.run(dict(base, stage=stage))
    return rep.per_sig


def replay(ctx, data):
    case = normalise_case(data.get("witness", data))
    fails = run_case(case)
    print(f"C03 replay: backend={case['backend']} stage={case['stage']} mode={case['mode']} "
          f"exts={','.join(case['exts']) or '-'} kw={case['kw']} settings={case.get('settings', {})}")
    print("input: " + repr(case["text"]))
    if not fails:
        print("property holds on this input")
        return 0
    for f in fails:
        print(f"FAIL {f['signature']}: {f['what']}")
        if f.get("detail") is not None:
            print("     " + str(f["detail"])[:600])
    return 1


# ------------------------------------------------------------------------------------------------ minimiser

def minimise(case, signature, max_runs=1500):
    """Greedy delta-debugging of a failing case's text (lines, then characters) keeping the same signature; also
    tries to drop extensions and extra configuration.  Development aid (used by __main__ only)."""
    case = normalise_case(case)
    runs = [0]

    def bad(c):
        runs[0] += 1
        try:
            return any(f["signature"] == signature for f in run_case(c))
        except HarnessError:
            return False

    if not bad(case):
        return case

    def shrink(units, join):
        n = 2
        while len(units) >= 1 and runs[0] < max_runs:
            chunk = max(1, len(units) // n)
            removed = False
            k = 0
            while k < len(units) and runs[0] < max_runs:
                cand = units[:k] + units[k + chunk:]
                if bad(dict(case, text=join(cand))):
                    units = cand
                    removed = True
                else:
                    k += chunk
            if chunk == 1 and not removed:
                break
            if not removed:
                n = min(len(units), n * 2) or 1
        return units

    lines = shrink(case["text"].split("\n"), "\n".join)
    case = dict(case, text="\n".join(lines))
    chars = shrink(list(case["text"]), "".join)
    case = dict(case, text="".join(chars))
    for e in list(case["exts"]):
        c = dict(case, exts=[x for x in case["exts"] if x != e])
        if bad(c):
            case = c
    for k in list(case["kw"]):
        c = dict(case, kw={a: b for a, b in case["kw"].items() if a != k})
        if bad(c):
            case = c
    if case["mode"] != "commonmark" and bad(dict(case, mode="commonmark")):
        case = dict(case, mode="commonmark")
    if case.get("settings") and bad({k: v for k, v in case.items() if k != "settings"}):
        case = {k: v for k, v in case.items() if k != "settings"}
    return case


# ------------------------------------------------------------------------------------------------ own test

class _DummyCtx:
    def __init__(self, seed=0, tier="quick"):
        import random
        self.rng = random.Random(seed)
        self.tier = tier
        self.deep = False
        self.suspects = []
        self.failures = []
        self.counts = {}
        self.samples = []
        self.search_cases = 0
        self._n = 0

    def budget(self, quick, thorough, deep=None):
        return self._n

    def count(self, key, n=1):
        self.counts[key] = self.counts.get(key, 0) + n

    def sample(self, x, limit=12):
        if len(self.samples) < limit:
            self.samples.append(x)

    def fail(self, signature, witness, what, expected=None, observed=None):
        self.failures.append({"signature": signature, "witness": witness, "what": what, "expected": expected,
                              "observed": observed})


def _main(argv):
    import time
    n = int(argv[1]) if len(argv) > 1 else 100
    seed = int(argv[2]) if len(argv) > 2 else 0
    tier = argv[3] if len(argv) > 3 else "quick"
    ctx = _DummyCtx(seed, tier)
    ctx._n = n
    t0 = time.time()
    per_sig = search(ctx)
    dt = time.time() - t0
    print(f"cases run: {ctx.search_cases} (fixed {len(ALL_WITNESSES)} + generated {n} x 2 stages) in {dt:.1f}s")
    best = {}
    for f in ctx.failures:
        w = f["witness"]
        cur = best.get(f["signature"])
        if cur is None or len(w["text"]) < len(cur["witness"]["text"]):
            best[f["signature"]] = f
    print(f"{'signature':<60} {'cases':>6}")
    for sig in sorted(per_sig):
        print(f"{sig:<60} {per_sig[sig]:>6}")
        f = best[sig]
        w = minimise(f["witness"], sig) if os.environ.get("C03_MINIMISE", "1") != "0" else f["witness"]
        print(f"      {w['backend']}/{w['stage']}/{w['mode']} kw={w['kw']} exts={w['exts']} text={w['text']!r}"[:600])
        print(f"      what: {f['what']}"[:300])
    print("histogram:")
    for k in sorted(ctx.counts):
        if not k.startswith("c03:fail:"):
            print(f"   {k:<40} {ctx.counts[k]}")
    return 0


if __name__ == "__main__":
    sys.exit(_main(sys.argv))
