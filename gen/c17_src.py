"""Regenerate coq/Gen/HtmlNodesSrc.v from myst_parser/mdit_to_docutils/html_to_nodes.py: option_line,
default_html and html_to_nodes statement by statement (gen/pysrc.py) over the store of the HTML-to-AST
model.  The domain mapping (TRUSTED) is the table below + coq/Html/SrcPrims.v / NodesPrims.v:
  renderer.md_config.gfm_only / "html_image" in ...enable_extensions / "html_admonition" in ...   -> gfm, img, adm : bool
  RE_FLOW.subn(lambda s: s.group(0).replace(a, b), text)                                          -> gfm_filter text (Gen tables)
  RE_OPTION_PLAIN.fullmatch(v) / RE_OPTION_ESCAPE.sub(lambda ..., v)                              -> plain_fullmatch / escape_value
  nodes.raw("", X, format="html") (+ source/line)                                                 -> ORaw X
  renderer.create_warning(...) + default_html                                                     -> OWarnRaw
  renderer.reporter.error(...)                                                                    -> OMissingSrc
  nodes_list.extend(renderer.run_directive(name, first, content, line))                            -> nodes_list ++ [mkdir name first content]
  tokenize_html(text)                                                                             -> tokenize_src parse text
  x.render() joined                                                                               -> render_join (model render)
"""
import ast
import hashlib
from pathlib import Path

from gen.pysrc import Fn, Untranslatable, bad
from gen.c16_html import coq_str
from gen import c16_src


def cs(s):
    return coq_str(s) + "%N" if s else "(@nil N)"


# ---------------------------------------------------------------- option_line (pure)

def ol_expr(e, fn):
    text = ast.unparse(e)
    if isinstance(e, ast.Name):
        return [], e.id
    if text == "value or ''":
        return [], "(ostr_or_empty value)"
    if text == "value and (not RE_OPTION_PLAIN.fullmatch(value))":
        return [], "(andb (truthy value) (negb (plain_fullmatch value)))"
    if text == "RE_OPTION_ESCAPE.sub(lambda m: f'\\\\u{ord(m.group(0)):04x}', value)":
        return [], "(escape_value value)"
    if isinstance(e, ast.JoinedStr):
        parts = []
        for v in e.values:
            if isinstance(v, ast.Constant) and isinstance(v.value, str):
                parts.append(cs(v.value))
            elif isinstance(v, ast.FormattedValue) and v.conversion == -1 and v.format_spec is None and isinstance(v.value, ast.Name):
                parts.append(v.value.id)
            else:
                bad(v, "f-string part")
        return [], "(" + " ++ ".join(parts) + ")"
    bad(e, "option_line expression")


# ---------------------------------------------------------------- html_to_nodes

def keys_join(e):
    """ "\\n".join(option_line(k, v) for k, v in sorted(child.attrs.items()) if k in KEYS) -> (obj, KEYS) """
    if not (isinstance(e, ast.Call) and isinstance(e.func, ast.Attribute) and e.func.attr == "join"
            and isinstance(e.func.value, ast.Constant) and e.func.value.value == "\n" and len(e.args) == 1
            and isinstance(e.args[0], ast.GeneratorExp)):
        return None
    g = e.args[0]
    if ast.unparse(g.elt) != "option_line(k, v)" or len(g.generators) != 1:
        return None
    c = g.generators[0]
    it = ast.unparse(c.iter)
    if ast.unparse(c.target) != "(k, v)" or not it.startswith("sorted(") or not it.endswith(".attrs.items())") or len(c.ifs) != 1:
        return None
    cond = ast.unparse(c.ifs[0])
    if not cond.startswith("k in OPTION_KEYS_"):
        return None
    return it[len("sorted("):-len(".attrs.items())")], {"OPTION_KEYS_IMAGE": "option_keys_image", "OPTION_KEYS_ADMONITION": "option_keys_admonition"}[cond[len("k in "):]]


def render_join(e):
    """ "".join(child.render() for child in X) -> X (expression) """
    if isinstance(e, ast.Call) and isinstance(e.func, ast.Attribute) and e.func.attr == "join" \
            and isinstance(e.func.value, ast.Constant) and e.func.value.value == "" and len(e.args) == 1 \
            and isinstance(e.args[0], ast.GeneratorExp) and len(e.args[0].generators) == 1:
        g = e.args[0]
        c = g.generators[0]
        if isinstance(c.target, ast.Name) and not c.ifs and ast.unparse(g.elt) == f"{c.target.id}.render()":
            return c.iter
    return None


TITLE_COND = ("children and children[0].name in ('div', 'p') and ('title' in children[0].attrs.classes or "
              "'admonition-title' in children[0].attrs.classes)")
ALL_COND = ("enable_html_img and child.name == 'img' or (enable_html_admonition and child.name == 'div' and "
            "('admonition' in child.attrs.classes))")


def h_expr(e, fn):
    st = fn.state
    text = ast.unparse(e)
    if isinstance(e, ast.Name) and e.id == "nodes_list":
        return [], "(ODirectives nodes_list)"          # the list of nodes returned = the directives run, in order
    if isinstance(e, ast.Name):
        return [], e.id
    if isinstance(e, ast.Constant) and isinstance(e.value, str):
        return [], cs(e.value)
    if isinstance(e, ast.List) and not e.elts:
        return [], "[]"
    if text == "renderer.md_config.gfm_only":
        return [], "gfm"
    if text == "'html_image' in renderer.md_config.enable_extensions":
        return [], "img"
    if text == "'html_admonition' in renderer.md_config.enable_extensions":
        return [], "adm"
    if text == "not (enable_html_img or enable_html_admonition)":
        return [], "(negb (orb enable_html_img enable_html_admonition))"
    if text == "default_html(text, renderer.document['source'], line_number)":
        return [], "(default_html_src text)"
    if text == "([msg_node] if msg_node else []) + default_html(text, renderer.document['source'], line_number)":
        return [], "(warn_raw (default_html_src text))"
    if text == "tokenize_html(text).strip(inplace=True, recurse=False)":
        r0, r1 = fn.fresh("r"), fn.fresh("r")
        return [f"do {r0} <- tokenize_src parse text;", f"let '(__root, {st}) := {r0} in",
                f"do {r1} <- strip_src (S (S (length {st}))) {st} __root true false;", f"let '(__v, {st}) := {r1} in"], "__v"
    if text == "len(root) < 1":
        c = fn.fresh("c")
        return [f"do {c} <- o_children {st} root;"], f"(Nat.ltb (length {c}) 1)"
    if text.startswith("not all(") and isinstance(e, ast.UnaryOp) and isinstance(e.operand, ast.Call) \
            and isinstance(e.operand.args[0], ast.GeneratorExp):
        g = e.operand.args[0]
        if ast.unparse(g.elt) != ALL_COND or ast.unparse(g.generators[0].iter) != "root" or ast.unparse(g.generators[0].target) != "child":
            bad(e, "all(...) test")
        c, acc = fn.fresh("c"), fn.fresh("all")
        body = (f"do __n <- o_name {st} child; do __a <- o_attrs {st} child;\n"
                f"if (orb (andb enable_html_img (str_eqb __n {cs('img')})) "
                f"(andb (andb enable_html_admonition (str_eqb __n {cs('div')})) (mem_str {cs('admonition')} (HtmlModel.classes __a))))\n"
                f"then Ok (false, true) else Ok (true, false)")
        return [f"do {c} <- o_children {st} root;",
                f"do {acc} <- for_break {c} (fun child (__ok : bool) =>\n{body}) true;"], f"(negb (snd {acc}))"
    if text == "child.name == 'img'" or text == "child.name == 'p'":
        n = fn.fresh("n")
        return [f"do {n} <- o_name {st} child;"], f"(str_eqb {n} {cs(e.comparators[0].value)})"
    if text == "child.attrs.get('src') is None":
        a = fn.fresh("a")
        return [f"do {a} <- o_attrs {st} child;"], f"(match dict_get {a} {cs('src')} with Some (Some _) => false | _ => true end)"
    if text == "[renderer.reporter.error(\"<img> missing 'src' attribute\", line=line_number)]":
        return [], "OMissingSrc"
    kj = keys_join(e)
    if kj is not None:
        a = fn.fresh("a")
        return [f"do {a} <- o_attrs {st} {kj[0]};"], f"(option_block_src {kj[1]} {a})"
    if isinstance(e, ast.Call) and isinstance(e.func, ast.Attribute) and e.func.attr == "rstrip" and not e.args:
        b, t = h_expr(e.func.value, fn)
        return b, f"(rstrip {t})"
    if text == "child.strip().children":
        r, c = fn.fresh("r"), fn.fresh("c")
        return [f"do {r} <- strip_src (S (S (length {st}))) {st} child false false;", f"let '(__e, {st}) := {r} in",
                f"do {c} <- o_children {st} __e;"], c
    if isinstance(e, ast.IfExp) and ast.unparse(e.test) == TITLE_COND and ast.unparse(e.orelse) == "'Note'" \
            and ast.unparse(e.body) == "''.join((child.render() for child in children.pop(0)))":
        # handled by the statement hook (it also rebinds `children`)
        bad(e, "title expression outside its assignment")
    if text == "nodes_list":
        return [], "(ODirectives nodes_list)"
    bad(e, "html_to_nodes expression")


def h_stmt(s, fn):
    st = fn.state
    text = ast.unparse(s)
    if text == "if renderer.md_config.gfm_only:\n    text, _ = RE_FLOW.subn(lambda s: s.group(0).replace('<', '&lt;'), text)":
        return ["let text := (if gfm then gfm_filter text else text) in"]
    if text.startswith("msg_node = renderer.create_warning("):
        return []
    # title = ... children.pop(0) ...
    if isinstance(s, ast.Assign) and ast.unparse(s.targets[0]) == "title" and isinstance(s.value, ast.IfExp) \
            and ast.unparse(s.value.test) == TITLE_COND and ast.unparse(s.value.orelse) == "'Note'" \
            and ast.unparse(s.value.body) == "''.join((child.render() for child in children.pop(0)))":
        if "title" not in fn.locals:
            fn.locals.append("title")
        t = s.value.test
        names_t = [c.value for c in t.values[1].comparators[0].elts]
        cls_t = [c.left.value for c in t.values[2].values]
        name_test = " ".join(f"(str_eqb __n {cs(n)})" for n in names_t)
        name_test = "(orb " + name_test + ")" if len(names_t) == 2 else bad(t, "title names")
        cls_test = " ".join(f"(mem_str {cs(c)} (HtmlModel.classes __a))" for c in cls_t)
        cls_test = "(orb " + cls_test + ")" if len(cls_t) == 2 else bad(t, "title classes")
        dflt = cs(s.value.orelse.value)
        return [f"do __tr <- (match children with",
                f"  | __first :: __rest => do __n <- o_name {st} __first; do __a <- o_attrs {st} __first;",
                f"      if (andb {name_test} {cls_test})",
                f"      then do __k <- o_children {st} __first; do __t <- render_join {st} __k; Ok (__t, __rest)",
                f"      else Ok ({dflt}, children)",
                f"  | [] => Ok ({dflt}, children) end);", "let '(title, children) := __tr in"]
    # nodes_list.extend(renderer.run_directive(name, first, content, line_number))
    if isinstance(s, ast.Expr) and text.startswith("nodes_list.extend(renderer.run_directive("):
        call = s.value.args[0]
        if len(call.args) != 4 or call.keywords or ast.unparse(call.args[3]) != "line_number":
            bad(s, "run_directive call")
        binds, terms = [], []
        for a in call.args[:3]:
            if ast.unparse(a) == "child.attrs['src']":
                v = fn.fresh("a")
                binds.append(f"do {v} <- o_attrs {st} child;")
                terms.append(f"(ostr_val (attr_getitem {v} {cs('src')}))")
            else:
                b, t = h_expr(a, fn)
                binds += b
                terms.append(t)
        return binds + [f"let nodes_list := nodes_list ++ [mkdir {terms[0]} {terms[1]} {terms[2]}] in"]
    # new_children.extend(child.children) / new_children.append(Data("\n\n")) / new_children.append(child)
    if text == "new_children.extend(child.children)":
        c = fn.fresh("c")
        return [f"do {c} <- o_children {st} child;", f"let new_children := new_children ++ {c} in"]
    if text == "new_children.append(Data('\\n\\n'))":
        v = fn.fresh("v")
        return [f"let '({v}, {st}) := st_new {st} (new_terminal KData {cs(chr(10) * 2)}) in", f"let new_children := new_children ++ [{v}] in"]
    if text == "new_children.append(child)":
        return ["let new_children := new_children ++ [child] in"]
    # content = options + ("\n\n" if options else "") + "".join(child.render() for child in new_children).lstrip()
    if text == "content = options + ('\\n\\n' if options else '') + ''.join((child.render() for child in new_children)).lstrip()":
        if "content" not in fn.locals:
            fn.locals.append("content")
        return [f"do __body <- render_join {st} new_children;",
                f"let content := options ++ (if truthy options then {cs(chr(10) * 2)} else []) ++ lstrip __body in"]
    return None


class HFn(Fn):
    listvars = {"nodes_list", "new_children", "children"}

    def carried(self, body):
        names_ = super().carried(body)
        for st_ in body:
            for n in ast.walk(st_):
                if isinstance(n, ast.Call) and isinstance(n.func, ast.Attribute) and n.func.attr in ("append", "extend") \
                        and isinstance(n.func.value, ast.Name) and n.func.value.id in self.listvars \
                        and n.func.value.id in self.locals and n.func.value.id not in names_:
                    names_.append(n.func.value.id)
        return names_

    def loop_iter(self, s):
        if isinstance(s.iter, ast.Name) and isinstance(s.target, ast.Name):
            if s.iter.id in self.listvars:
                return [], s.iter.id, s.target.id, [s.target.id]
            c = self.fresh("c")                      # iterating an element = its _children
            return [f"do {c} <- o_children {self.state} {s.iter.id};"], c, s.target.id, [s.target.id]
        bad(s, "loop")


def generate(repo):
    src = (Path(repo) / "myst_parser" / "mdit_to_docutils" / "html_to_nodes.py").read_text()
    tree = ast.parse(src)
    fns = {n.name: n for n in tree.body if isinstance(n, ast.FunctionDef)}
    out = ["(* GENERATED by gen/c17_src.py from myst_parser/mdit_to_docutils/html_to_nodes.py - do not edit *)",
           "From Coq Require Import List NArith Bool Arith.",
           "From MV Require Import Base.PyStr Base.Res Html.HtmlTypes Gen.Html Gen.HtmlNodes Html.HtmlModel Html.SrcPrims",
           "  Gen.HtmlSrc Html.HtmlToNodes Html.NodesPrims.",
           "Import ListNotations.", "Local Open Scope nat_scope.", ""]
    # option_line
    fn = fns.get("option_line")
    if fn is None or [a.arg for a in fn.args.args] != ["key", "value"]:
        raise Untranslatable("option_line signature")
    f = Fn(fn, "__nostate", ol_expr, lambda s, f_: None, ret_state=False)
    f.pure = True
    body = f.body()
    out.append("(* option_line *)")
    out.append("Definition option_line_src (key : str) (value : option str) : str :=\n" + body + ".\n")
    out.append("(* \"\\n\".join(option_line(k, v) for k, v in sorted(x.attrs.items()) if k in KEYS) *)")
    out.append("Definition option_block_src (keys : list str) (a : attrs) : str :=\n"
               "  join [10%N] (map (fun kv => option_line_src (fst kv) (snd kv))\n"
               "                   (filter (fun kv => mem_str (fst kv) keys) (sorted_items a))).\n")
    # default_html
    fn = fns.get("default_html")
    stmts = [s for s in fn.body if not (isinstance(s, ast.Expr) and isinstance(s.value, ast.Constant))]
    ok = (len(stmts) == 4 and isinstance(stmts[0], ast.Assign) and isinstance(stmts[0].value, ast.Call)
          and ast.unparse(stmts[0].value.func) == "nodes.raw" and len(stmts[0].value.args) == 2
          and ast.unparse(stmts[0].value.args[0]) == "''" and [(k.arg, ast.unparse(k.value)) for k in stmts[0].value.keywords] == [("format", "'html'")]
          and ast.unparse(stmts[1]) == "raw_html.source = source" and ast.unparse(stmts[2]) == "raw_html.line = line_number"
          and ast.unparse(stmts[3]) == "return [raw_html]" and [a.arg for a in fn.args.args] == ["text", "source", "line_number"])
    if not ok:
        raise Untranslatable("default_html has an unexpected shape")
    arg = stmts[0].value.args[1]
    if isinstance(arg, ast.Name) and arg.id == "text":
        raw = "text"
    elif ast.unparse(arg) == "text.strip()":
        raw = "(py_strip text)"
    else:
        bad(arg, "text of the raw node")
    out.append("(* default_html: one raw node (format html) holding the text *)")
    out.append(f"Definition default_html_src (text : str) : out := ORaw {raw}.\n")
    # html_to_nodes
    fn = fns.get("html_to_nodes")
    if [a.arg for a in fn.args.args] != ["text", "line_number", "renderer"]:
        raise Untranslatable("html_to_nodes signature")
    f = HFn(fn, "st", h_expr, h_stmt, ret_state=False, ret_type="out")
    f.locals = ["text"]
    f.extract = {"child": ("child_step_src", {"st": "store", "nodes_list": "list directive"})}
    f.extract_params, f.extract_args = "", ""
    body = f.body()
    if len(f.extra_defs) not in (1, 2) or len(set(f.extra_defs)) != 1:
        raise Untranslatable("expected exactly one per-child loop in html_to_nodes")
    out.append("(* the body of `for child in root:` - one img or div.admonition element *)")
    out.append(f.extra_defs[0])
    out.append("(* html_to_nodes: renderer flags as booleans, html.parser as [parse]; st = the objects created so far *)")
    out.append("Definition html_to_nodes_res (parse : str -> list event) (gfm img adm : bool) (text : str) : res out :=\n"
               "let st := (@nil cell) in\n" + body + ".\n")
    out.append("Definition html_to_nodes_src (parse : str -> list event) (gfm img adm : bool) (text : str) : out :=\n"
               "  match html_to_nodes_res parse gfm img adm text with Ok o => o | Raise e => OEscapes e end.\n")
    text = "\n".join(out) + "\n"
    return text, {"sha": hashlib.sha256(text.encode()).hexdigest()[:16]}


if __name__ == "__main__":
    import sys
    print(generate(sys.argv[1] if len(sys.argv) > 1 else "/repo")[0])
