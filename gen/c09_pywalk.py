"""Statement walker used by gen/c09_src.py and gen/c11_src.py (built beside gen/py2coq.py, which is frozen):
translates a restricted subset of Python method bodies, statement by statement, into Gallina terms over
the C09 / C11 model types.  Fail-closed: every statement and expression is either translated by a rule
below / by the caller's domain hooks, or `Untranslatable` is raised.

What is generic here
  * straight-line code is a chain of `let` (pure) or `do x <- e;` (Base.Res monad, for operations that
    can raise: d[k] -> KeyError, l[0] -> IndexError ...);
  * `if` duplicates the continuation into both branches (as py2coq does), so `continue`, `return` and
    fall-through need no join points; `if X is None: continue` refines X from `option T` to `T`
    (`match X with None => .. | Some X => .. end`);
  * `for x in L: body` becomes `fold_left` (pure) / `fold_res` (monadic) over the tuple of the variables
    the body assigns; `for x in L: if T: v = e; break` becomes a first-match (`find`);
  * a nested `def f(x): if ..: return a; return b` becomes `let f := fun x => if .. then a else b`.
The domain mapping (attribute access -> record fields, isinstance -> kind tests, registry methods -> model
operations, which statements are node bookkeeping with no counterpart in the model) is supplied by the
caller and is TRUSTED; it is listed in props/C09.py / props/C11.py."""
from __future__ import annotations

import ast
from typing import Callable


class Untranslatable(Exception):
    pass


def find_method(tree: ast.Module, cls: str, name: str) -> ast.FunctionDef:
    for node in tree.body:
        if isinstance(node, ast.ClassDef) and node.name == cls:
            for f in node.body:
                if isinstance(f, ast.FunctionDef) and f.name == name:
                    return f
    raise Untranslatable(f"{cls}.{name} not found")


def coq_str(s: str) -> str:
    return "[" + "; ".join(str(ord(c)) for c in s) + "]%N" if s else "(@nil N)"


class Env:
    """what the walker knows at a program point"""

    def __init__(self, types=None, truthy=None, optional=None, refined=None):
        self.types = dict(types or {})          # name -> short type tag chosen by the domain hook
        self.truthy = set(truthy or ())         # unparsed expressions known to be truthy here
        self.optional = set(optional or ())     # names holding an `option` (d.get(..), = None)
        self.refined = set(refined or ())       # names already refined by `is None: continue`

    def copy(self):
        return Env(self.types, self.truthy, self.optional, self.refined)


class Walker:
    def __init__(self, expr: Callable, effect: Callable | None = None, monadic: bool = False,
                 skip: Callable | None = None, loop: Callable | None = None):
        self.expr_hook = expr        # (ast.expr, Env, Walker) -> (term, raises: bool)
        self.effect_hook = effect    # (ast.stmt, Env, Walker) -> list[(name, term, raises)] | None
        self.skip_hook = skip        # (ast.stmt) -> bool : bookkeeping statements without model counterpart
        self.loop_hook = loop        # (ast.For, Env, Walker) -> (pattern, seq term) | None
        self.monadic = monadic

    # ------------------------------------------------------------ expressions
    def expr(self, e, env):
        t, raises = self.expr_hook(e, env, self)
        return t, raises

    def pure(self, e, env):
        t, raises = self.expr(e, env)
        if raises:
            raise Untranslatable(f"raising expression in a pure position: {ast.unparse(e)}")
        return t

    def test(self, t, env):
        """-> Gallina bool term.  Truthiness of non-boolean values is decided by the expr hook
        (it receives the node wrapped as ast.Call(Name('__truthy'), [t]))."""
        if isinstance(t, ast.UnaryOp) and isinstance(t.op, ast.Not):
            return f"(negb {self.test(t.operand, env)})"
        if isinstance(t, ast.BoolOp):
            op = "andb" if isinstance(t.op, ast.And) else "orb"
            e2 = env.copy()
            out = self.test(t.values[0], e2)
            if isinstance(t.op, ast.And):
                e2.truthy.add(ast.unparse(t.values[0]))
            for v in t.values[1:]:
                out = f"({op} {out} {self.test(v, e2)})"
                if isinstance(t.op, ast.And):
                    e2.truthy.add(ast.unparse(v))
            return out
        wrapped = ast.Call(func=ast.Name(id="__truthy", ctx=ast.Load()), args=[t], keywords=[])
        return self.pure(wrapped, env)

    # ------------------------------------------------------------ statements
    @staticmethod
    def assigned(stmts):
        """names assigned anywhere in the statements (not inside nested defs)"""
        out = []

        def visit(s):
            if isinstance(s, ast.FunctionDef):
                return
            if isinstance(s, (ast.Assign, ast.AnnAssign, ast.AugAssign)):
                tg = s.targets if isinstance(s, ast.Assign) else [s.target]
                for t in tg:
                    for n in ast.walk(t):
                        if isinstance(n, ast.Name) and n.id not in out:
                            out.append(n.id)
            for f in ("body", "orelse"):
                for c in getattr(s, f, []) or []:
                    if isinstance(c, ast.stmt):
                        visit(c)
        for s in stmts:
            visit(s)
        return out

    def bind(self, name, term, raises, rest):
        if raises:
            if not self.monadic:
                raise Untranslatable(f"raising operation assigned to {name} in a pure function")
            return f"do {name} <- {term};\n{rest}"
        return f"let {name} := {term} in\n{rest}"

    def block(self, stmts, env, k):
        """k: Env -> term for 'fell off the end of this block' (continue / end of loop body / return None)"""
        if not stmts:
            return k(env)
        s, rest = stmts[0], stmts[1:]
        if isinstance(s, ast.Expr) and isinstance(s.value, ast.Constant) and isinstance(s.value.value, str):
            return self.block(rest, env, k)
        if isinstance(s, ast.AnnAssign) and s.value is None:
            return self.block(rest, env, k)
        if self.skip_hook and self.skip_hook(s):
            return self.block(rest, env, k)
        if self.effect_hook:
            eff = self.effect_hook(s, env, self)
            if eff is not None:
                env = env.copy()
                tail = self.block(rest, env, k)
                for name, term, raises in reversed(eff):
                    tail = self.bind(name, term, raises, tail)
                return tail
        if isinstance(s, (ast.Assign, ast.AnnAssign)):
            targets = s.targets if isinstance(s, ast.Assign) else [s.target]
            if len(targets) != 1:
                raise Untranslatable("chained assignment")
            tgt = targets[0]
            env = env.copy()
            term, raises = self.expr(s.value, env)
            if isinstance(tgt, ast.Name):
                n = tgt.id
                env.refined.discard(n)
                env.optional.discard(n)
                if isinstance(s.value, ast.Constant) and s.value.value is None:
                    env.optional.add(n)
                kind = getattr(self, "_last_kind", None)
                if kind == "optional":
                    env.optional.add(n)
                self._last_kind = None
                env.types[n] = getattr(self, "_last_type", None) or env.types.get(n, "?")
                self._last_type = None
                return self.bind(n, term, raises, self.block(rest, env, k))
            if isinstance(tgt, ast.Tuple) and all(isinstance(x, ast.Name) for x in tgt.elts):
                names = [x.id for x in tgt.elts]
                pat = "'(" + ", ".join(names) + ")"
                for n in names:
                    env.refined.discard(n)
                    env.optional.discard(n)
                    env.types.setdefault(n, "?")
                for n, ty in (getattr(self, "_last_tuple_types", None) or {}).items():
                    if n == "__pat":
                        pat = ty           # the hook names an unused component (`_` is not a Gallina pattern variable in `do`)
                    else:
                        env.types[n] = ty
                self._last_tuple_types = None
                body = self.block(rest, env, k)
                if raises:
                    if not self.monadic:
                        raise Untranslatable("raising tuple assignment in a pure function")
                    return f"do {pat.lstrip(chr(39))} <- {term};\n{body}"
                return f"let {pat} := {term} in\n{body}"
            raise Untranslatable(f"assignment target {ast.unparse(tgt)}")
        if isinstance(s, ast.If):
            return self.if_stmt(s, rest, env, k)
        if isinstance(s, ast.Continue):
            return k(env)
        if isinstance(s, ast.Return):
            if s.value is None:
                return self.k_return(env, None)
            return self.k_return(env, s.value)
        if isinstance(s, ast.FunctionDef):
            return self.local_def(s, rest, env, k)
        if isinstance(s, ast.For):
            return self.for_stmt(s, rest, env, k)
        raise Untranslatable(f"statement: {ast.unparse(s)[:160]}")

    # return handling is set by the caller through these two attributes
    k_return = None

    def if_stmt(self, s, rest, env, k):
        t = s.test
        # `if X is None:` with X an option: refine by match
        if (isinstance(t, ast.Compare) and len(t.ops) == 1 and isinstance(t.ops[0], ast.Is)
                and isinstance(t.left, ast.Name) and isinstance(t.comparators[0], ast.Constant)
                and t.comparators[0].value is None):
            x = t.left.id
            if x in env.refined:
                # already known not to be None: the test is false, only the else branch remains
                return self.block(list(s.orelse) + rest, env, k)
            if x not in env.optional:
                raise Untranslatable(f"'is None' on {x}, which is not known to be optional")
            e_none = env.copy()
            e_some = env.copy()
            e_some.optional.discard(x)
            e_some.refined.add(x)
            a = self.block(list(s.body) + rest, e_none, k)
            b = self.block(list(s.orelse) + rest, e_some, k)
            return f"match {x} with\n| None =>\n({a})\n| Some {x} =>\n({b})\nend"
        e_then = env.copy()
        e_then.truthy.add(ast.unparse(t))
        if isinstance(t, ast.BoolOp) and isinstance(t.op, ast.And):
            for v in t.values:
                e_then.truthy.add(ast.unparse(v))
        a = self.block(list(s.body) + rest, e_then, k)
        b = self.block(list(s.orelse) + rest, env.copy(), k)
        return f"if {self.test(t, env)} then\n({a})\nelse\n({b})"

    def local_def(self, f, rest, env, k):
        """def f(x): <if/return chain>   ->   let f := fun x => expr"""
        args = [a.arg for a in f.args.args]
        if len(args) != 1:
            raise Untranslatable("local function arity")
        sub = Walker(self.expr_hook, None, False, self.skip_hook)
        sub.k_return = lambda env2, v: sub.pure(v, env2)
        e2 = env.copy()
        ty = self.expr_hook(ast.Call(func=ast.Name(id="__argtype", ctx=ast.Load()),
                                     args=[ast.Constant(f.name)], keywords=[]), e2, sub)[0]
        body = sub.block(list(f.body), e2, lambda _e: (_ for _ in ()).throw(Untranslatable("local function falls off the end")))
        return f"let {f.name} := (fun ({args[0]} : {ty}) =>\n{body}) in\n{self.block(rest, env, k)}"

    def for_stmt(self, s, rest, env, k):
        if s.orelse:
            raise Untranslatable("for/else")
        # first-match idiom:  for x in L: if T: v = e; break
        if (len(s.body) == 1 and isinstance(s.body[0], ast.If) and not s.body[0].orelse
                and isinstance(s.body[0].body[-1], ast.Break) and isinstance(s.target, ast.Name)):
            inner = s.body[0]
            assigns = inner.body[:-1]
            if len(assigns) == 1 and isinstance(assigns[0], ast.Assign) and isinstance(assigns[0].targets[0], ast.Name):
                v = assigns[0].targets[0].id
                x = s.target.id
                hook = self.loop_hook(s, env, self) if self.loop_hook else None
                seq = hook[1] if hook is not None else self.pure(s.iter, env)
                e2 = env.copy()
                tst = self.test(inner.test, e2)
                val = self.pure(assigns[0].value, e2)
                env = env.copy()
                if getattr(self, "_last_kind", None) == "optional":
                    env.optional.add(v)
                self._last_kind = None
                self._last_type = None
                return (f"let {v} := match find (fun {x} => {tst}) {seq} with\n"
                        f"| Some {x} => {val}\n| None => {v}\nend in\n{self.block(rest, env, k)}")
            raise Untranslatable("first-match loop shape")
        hook = self.loop_hook(s, env, self) if self.loop_hook else None
        if hook is not None:
            pat, seq = hook
        else:
            if isinstance(s.target, ast.Name):
                pat = s.target.id
            elif isinstance(s.target, ast.Tuple) and all(isinstance(x, ast.Name) for x in s.target.elts):
                pat = "'(" + ", ".join(x.id for x in s.target.elts) + ")"
            else:
                raise Untranslatable("for target")
            seq = self.pure(s.iter, env)
        st = self.loop_state(s, env)
        if not st:
            raise Untranslatable("loop without state")
        tup = st[0] if len(st) == 1 else "(" + ", ".join(st) + ")"
        tpat = st[0] if len(st) == 1 else "'(" + ", ".join(st) + ")"
        saved = self.k_return
        e_body = env.copy()
        if self.monadic:
            body = self.block(list(s.body), e_body, lambda _e: f"Ok {tup}")
            out = f"do {tpat} <- fold_res (fun {tpat} {pat} =>\n{body}) {seq} {tup};\n{self.block(rest, env.copy(), k)}"
        else:
            body = self.block(list(s.body), e_body, lambda _e: tup)
            out = f"let {tpat} := fold_left (fun {tpat} {pat} =>\n{body}) {seq} {tup} in\n{self.block(rest, env.copy(), k)}"
        self.k_return = saved
        return out

    # names a loop threads: assigned in the body (or changed by effects) and defined before it
    loop_state_hook = None

    def loop_state(self, s, env):
        names = [n for n in self.assigned(s.body) if n in env.types]
        if self.loop_state_hook:
            for n in self.loop_state_hook(s, env):
                if n not in names:
                    names.append(n)
        return names


# ---------------------------------------------------------------- canonical local names
class _Rename(ast.NodeTransformer):
    def __init__(self, mapping):
        self.mapping = mapping

    def visit_Name(self, node):
        if node.id in self.mapping:
            return ast.copy_location(ast.Name(id=self.mapping[node.id], ctx=node.ctx), node)
        return node

    def visit_FunctionDef(self, node):
        if node.name in self.mapping:
            node.name = self.mapping[node.name]
        self.generic_visit(node)
        return node

    def visit_arg(self, node):
        if node.arg in self.mapping:
            node.arg = self.mapping[node.arg]
        return node


def canonicalize(fn: ast.FunctionDef, rule: Callable) -> ast.FunctionDef:
    """Rename the locals of `fn` to canonical names chosen by what they are assigned from, so that the domain
    hooks (which know the locals by name) do not depend on the names the source happens to use.
    rule(kind, value_src, arity) -> tuple of canonical names | None, with kind in
    "assign" (value_src = the right-hand side, already renamed), "for" (value_src = the iterable), "def" (the
    nested function's position: value_src = its index among nested defs), "arg" (value_src = canonical def name)."""
    import copy
    fn = copy.deepcopy(fn)
    mapping: dict[str, str] = {}
    ndef = [0]

    def add(names, canon):
        if len(names) != len(canon):
            raise Untranslatable("canonical names: arity")
        for n, c in zip(names, canon):
            if n == c and mapping.get(n, c) == c:
                continue
            if mapping.get(n, c) != c:
                raise Untranslatable(f"local {n} is used for two different things ({mapping[n]}, {c})")
            if c in mapping.values() and mapping.get(n) != c:
                other = [k for k, v in mapping.items() if v == c]
                if other != [n]:
                    raise Untranslatable(f"two locals ({other[0]}, {n}) play the role of {c}")
            mapping[n] = c

    def targets_of(t):
        if isinstance(t, ast.Name):
            return [t.id]
        if isinstance(t, ast.Tuple) and all(isinstance(x, ast.Name) for x in t.elts):
            return [x.id for x in t.elts]
        return None

    def ren(e):
        return ast.unparse(_Rename(mapping).visit(copy.deepcopy(e)))

    def walk(stmts):
        for s in stmts:
            if isinstance(s, (ast.Assign, ast.AnnAssign)) and getattr(s, "value", None) is not None:
                tg = s.targets[0] if isinstance(s, ast.Assign) else s.target
                names = targets_of(tg)
                if names is not None:
                    canon = rule("assign", ren(s.value), len(names))
                    if canon is not None:
                        add(names, canon)
            elif isinstance(s, ast.For):
                names = targets_of(s.target)
                if names is not None:
                    canon = rule("for", ren(s.iter), len(names))
                    if canon is not None:
                        add(names, canon)
                walk(s.body)
            elif isinstance(s, ast.FunctionDef):
                canon = rule("def", str(ndef[0]), 1)
                ndef[0] += 1
                if canon is not None:
                    add([s.name], canon)
                    argc = rule("arg", canon[0], len(s.args.args))
                    if argc is not None:
                        add([a.arg for a in s.args.args], argc)
                walk(s.body)
            elif isinstance(s, ast.If):
                walk(s.body)
                walk(s.orelse)
            elif isinstance(s, ast.Try):
                walk(s.body)
                for h in s.handlers:
                    walk(h.body)
            elif isinstance(s, ast.With):
                walk(s.body)
    walk(fn.body)
    # comprehension / generator variables keep their names (they are bound inside one expression)
    return ast.fix_missing_locations(_Rename(mapping).visit(fn))
