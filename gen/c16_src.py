"""Regenerate coq/Gen/HtmlSrc.v from myst_parser/parsers/parse_html.py: the control code of class Tree,
the HtmlToAst handlers and the recursive Element methods, statement by statement (gen/pysrc.py), over
the store type of coq/Html/HtmlModel.v.  Domain mapping = the expression hooks below + coq/Html/SrcPrims.v."""
import ast
import hashlib
from pathlib import Path

from gen.pysrc import Fn, Untranslatable, bad

CLASS_KIND = {"Root": "KRoot", "Tag": "KTag", "XTag": "KXTag", "VoidTag": "KVoid", "Data": "KData",
              "Declaration": "KDecl", "Comment": "KComment", "Pi": "KPi", "Char": "KChar", "Entity": "KEntity"}


def is_attr(e, obj, attr):
    return isinstance(e, ast.Attribute) and e.attr == attr and isinstance(e.value, ast.Name) and e.value.id == obj


def is_self_stack(e):
    return is_attr(e, "self", "stack")


def names(args):
    return [a.id if isinstance(a, ast.Name) else None for a in args]


# ---------------------------------------------------------------- class Tree (state t : tree)

def tree_expr(e, fn):
    t = fn.state
    if isinstance(e, ast.Name):
        return [], e.id
    if isinstance(e, ast.Constant) and isinstance(e.value, int) and not isinstance(e.value, bool):
        return [], str(e.value)
    # self.stack.pop()
    if isinstance(e, ast.Call) and isinstance(e.func, ast.Attribute) and e.func.attr == "pop" and is_self_stack(e.func.value) and not e.args:
        r, v = fn.fresh("r"), fn.fresh("v")
        return [f"do {r} <- stack_pop {t};", f"let '({v}, {t}) := {r} in"], v
    # self.stack[-1]
    if isinstance(e, ast.Subscript) and is_self_stack(e.value) and ast.unparse(e.slice) == "-1":
        v = fn.fresh("v")
        return [f"do {v} <- stack_last {t};"], v
    # self.last()
    if isinstance(e, ast.Call) and is_attr(e.func, "self", "last") and not e.args:
        v = fn.fresh("v")
        return [f"do {v} <- last_src {t};"], v
    # Cls(name, attrs) / klass(data)
    if isinstance(e, ast.Call) and isinstance(e.func, ast.Name) and not e.keywords:
        if e.func.id in CLASS_KIND and len(e.args) == 2 and all(names(e.args)):
            v = fn.fresh("v")
            return [f"let '({v}, {t}) := t_new {t} (new_element {CLASS_KIND[e.func.id]} {e.args[0].id} {e.args[1].id}) in"], v
        if e.func.id in fn.locals and len(e.args) == 1 and all(names(e.args)):      # klass(data): klass is a class object
            v = fn.fresh("v")
            return [f"let '({v}, {t}) := t_new {t} (new_terminal {e.func.id} {e.args[0].id}) in"], v
    # reversed(self.stack)
    if isinstance(e, ast.Call) and getattr(e.func, "id", None) == "reversed" and len(e.args) == 1 and is_self_stack(e.args[0]):
        return [], f"(stack_reversed {t})"
    # x is self.outmost
    if isinstance(e, ast.Compare) and len(e.ops) == 1 and isinstance(e.ops[0], ast.Is) and isinstance(e.left, ast.Name) \
            and is_attr(e.comparators[0], "self", "outmost"):
        return [], f"(Nat.eqb {e.left.id} (t_outmost {t}))"
    # x.name == y
    if isinstance(e, ast.Compare) and len(e.ops) == 1 and isinstance(e.ops[0], ast.Eq) and isinstance(e.left, ast.Attribute) \
            and e.left.attr == "name" and isinstance(e.left.value, ast.Name) and isinstance(e.comparators[0], ast.Name):
        v = fn.fresh("n")
        return [f"do {v} <- o_name (t_cells {t}) {e.left.value.id};"], f"(str_eqb {v} {e.comparators[0].id})"
    # count + 1
    if isinstance(e, ast.BinOp) and isinstance(e.op, ast.Add) and isinstance(e.left, ast.Name) \
            and isinstance(e.right, ast.Constant) and e.right.value == 1:
        return [], f"({e.left.id} + 1)"
    bad(e, "Tree expression")


def tree_stmt(s, fn):
    t = fn.state
    if isinstance(s, ast.Expr) and isinstance(s.value, ast.Call) and isinstance(s.value.func, ast.Attribute):
        c = s.value
        f = c.func
        # self.stack.append(x)
        if f.attr == "append" and is_self_stack(f.value) and len(c.args) == 1 and isinstance(c.args[0], ast.Name):
            return [f"let {t} := stack_push {t} {c.args[0].id} in"]
        # self.stack.pop()  (value dropped)
        if f.attr == "pop" and is_self_stack(f.value) and not c.args:
            binds, _ = tree_expr(c, fn)
            return binds
        # x.append(item) on an element: MutableSequence.append = self.insert(len(self), item)
        if f.attr == "append" and isinstance(f.value, ast.Name) and len(c.args) == 1 and isinstance(c.args[0], ast.Name):
            s_ = fn.fresh("s")
            return [f"do {s_} <- append_src (t_cells {t}) {f.value.id} {c.args[0].id};", f"let {t} := with_cells {t} {s_} in"]
    return None


# ---------------------------------------------------------------- class HtmlToAst (state t : tree = self.struct)

def handler_expr(e, fn):
    if isinstance(e, ast.Name):
        return [], e.id
    if isinstance(e, ast.Compare) and len(e.ops) == 1 and isinstance(e.ops[0], (ast.In, ast.NotIn)) \
            and isinstance(e.left, ast.Name) and is_attr(e.comparators[0], "self", "void_elements"):
        term = f"(mem_str {e.left.id} void_elements)"
        return [], term if isinstance(e.ops[0], ast.In) else f"(negb {term})"
    bad(e, "handler expression")


def handler_stmt(s, fn):
    t = fn.state
    # self.struct.<method>(args)
    if isinstance(s, ast.Expr) and isinstance(s.value, ast.Call) and isinstance(s.value.func, ast.Attribute) \
            and is_attr(s.value.func.value, "self", "struct") and not s.value.keywords:
        m = s.value.func.attr
        args = []
        for a in s.value.args:
            if not isinstance(a, ast.Name):
                bad(a, "handler argument")
            args.append(CLASS_KIND.get(a.id, a.id))
        return [f"do {t} <- {m}_src {t} {' '.join(args)};"]
    return None


# ---------------------------------------------------------------- class Element (state st : store)

def elem_expr(e, fn):
    st = fn.state
    if isinstance(e, ast.Name):
        return [], ("self" if e.id == "self" else e.id)
    if isinstance(e, ast.Constant) and e.value is None:
        return [], "None"
    if isinstance(e, ast.Constant) and isinstance(e.value, bool):
        return [], "true" if e.value else "false"
    if isinstance(e, ast.Constant) and e.value == "":
        return [], "(@nil N)"
    # attribute reads x._parent / x._children / x.name / x.attrs / x.data
    if isinstance(e, ast.Attribute) and isinstance(e.value, ast.Name) and e.attr in ("_parent", "_children", "name", "attrs", "data", "children"):
        v = fn.fresh("a")
        prim = {"_parent": "o_parent", "_children": "o_children", "children": "o_children", "name": "o_name", "attrs": "o_attrs", "data": "o_data"}[e.attr]
        return [f"do {v} <- {prim} {st} {e.value.id};"], v
    # x is None / x is not None  (optional object)
    if isinstance(e, ast.Compare) and len(e.ops) == 1 and isinstance(e.ops[0], (ast.Is, ast.IsNot)) \
            and isinstance(e.comparators[0], ast.Constant) and e.comparators[0].value is None:
        b, a = elem_expr(e.left, fn)
        term = f"(match {a} with None => true | Some _ => false end)"
        return b, term if isinstance(e.ops[0], ast.Is) else f"(negb {term})"
    # x._parent != self   (identity on objects)
    if isinstance(e, ast.Compare) and len(e.ops) == 1 and isinstance(e.ops[0], ast.NotEq) and isinstance(e.comparators[0], ast.Name):
        b, a = elem_expr(e.left, fn)
        return b, f"(opt_nat_neq {a} {e.comparators[0].id})"
    if isinstance(e, ast.BoolOp):
        binds, terms = [], []
        for v in e.values:
            b, a = elem_expr(v, fn)
            binds += b
            terms.append(a)
        op = "andb" if isinstance(e.op, ast.And) else "orb"
        out = terms[0]
        for a in terms[1:]:
            out = f"({op} {out} {a})"
        return binds, out
    if isinstance(e, ast.UnaryOp) and isinstance(e.op, ast.Not):
        b, a = elem_expr(e.operand, fn)
        return b, f"(negb {a})"
    # self._children.insert(index, item)  -> new children list (statement hook stores it)
    # len(self)
    if isinstance(e, ast.Call) and getattr(e.func, "id", None) == "len" and len(e.args) == 1 and isinstance(e.args[0], ast.Name):
        v = fn.fresh("c")
        return [f"do {v} <- o_children {st} {e.args[0].id};"], f"(length {v})"
    # [] (a new python list)
    if isinstance(e, ast.List) and not e.elts:
        return [], "(@nil nat)"
    # self.__class__(self.name, self.attrs) / self.__class__(self.data)
    if isinstance(e, ast.Call) and is_attr(e.func, "self", "__class__") and not e.keywords:
        k = fn.fresh("k")
        binds = [f"do {k} <- o_kind {st} self;"]
        argterms = []
        for a in e.args:
            b, t = elem_expr(a, fn)
            binds += b
            argterms.append(t)
        v = fn.fresh("v")
        if [getattr(a, "attr", None) for a in e.args] == ["name", "attrs"]:
            binds.append(f"let '({v}, {st}) := st_new {st} (new_element {k} {argterms[0]} {argterms[1]}) in")
        elif [getattr(a, "attr", None) for a in e.args] == ["data"]:
            binds.append(f"let '({v}, {st}) := st_new {st} (new_terminal {k} {argterms[0]}) in")
        else:
            bad(e, "constructor call")
        return binds, v
    # recursive / sibling method calls that return a value
    if isinstance(e, ast.Call) and isinstance(e.func, ast.Attribute) and isinstance(e.func.value, ast.Name):
        obj, m = e.func.value.id, e.func.attr
        if m == "walk" and not e.args and not e.keywords:
            v = fn.fresh("w")
            return [f"do {v} <- walk_src fuel {st} {obj} false;"], v
        if m == "deepcopy" and not e.args and not e.keywords:
            r, v = fn.fresh("r"), fn.fresh("v")
            return [f"do {r} <- deepcopy_src fuel {st} {obj};", f"let '({v}, {st}) := {r} in"], v
    # [e for e in X if not (isinstance(e, Data) and e.data.strip() == "")]
    if isinstance(e, ast.ListComp) and len(e.generators) == 1 and isinstance(e.elt, ast.Name) \
            and isinstance(e.generators[0].target, ast.Name) and e.elt.id == e.generators[0].target.id \
            and len(e.generators[0].ifs) == 1:
        g = e.generators[0]
        var = g.target.id
        b_seq, seq = elem_expr(g.iter, fn)
        b_c, cond = elem_expr(g.ifs[0], fn)
        acc = fn.fresh("l")
        body = "\n".join(b_c + [f"Ok (if {cond} then {acc} ++ [{var}] else {acc})"])
        v = fn.fresh("f")
        return b_seq + [f"do {v} <- for_res {seq} (fun {var} {acc} =>\n{body}) [];"], v
    # isinstance(e, Data)
    if isinstance(e, ast.Call) and getattr(e.func, "id", None) == "isinstance" and len(e.args) == 2 \
            and isinstance(e.args[0], ast.Name) and isinstance(e.args[1], ast.Name) and e.args[1].id in CLASS_KIND:
        k = fn.fresh("k")
        return [f"do {k} <- o_kind {st} {e.args[0].id};"], f"(kind_eqb {k} {CLASS_KIND[e.args[1].id]})"
    # x.data.strip() == ""
    if isinstance(e, ast.Compare) and len(e.ops) == 1 and isinstance(e.ops[0], ast.Eq) \
            and isinstance(e.comparators[0], ast.Constant) and e.comparators[0].value == "" \
            and isinstance(e.left, ast.Call) and isinstance(e.left.func, ast.Attribute) and e.left.func.attr == "strip" \
            and not e.left.args:
        b, a = elem_expr(e.left.func.value, fn)
        return b, f"(str_eqb (py_strip {a}) [])"
    bad(e, "Element expression")


def elem_iter(e, fn):
    """sequence expression of a for loop"""
    st = fn.state
    if isinstance(e, ast.Name):
        if e.id in fn.listvars:
            return [], e.id
        v = fn.fresh("c")                                    # iterating an element = its _children
        return [f"do {v} <- o_children {st} {e.id};"], v
    if isinstance(e, ast.Call) and getattr(e.func, "id", None) == "enumerate" and len(e.args) == 1 and isinstance(e.args[0], ast.Name):
        return [], f"(combine (seq 0 (length {e.args[0].id})) {e.args[0].id})"
    return elem_expr(e, fn)


def elem_stmt(s, fn):
    st = fn.state
    # x._parent = y
    if isinstance(s, ast.Assign) and len(s.targets) == 1 and isinstance(s.targets[0], ast.Attribute) \
            and isinstance(s.targets[0].value, ast.Name) and isinstance(s.value, ast.Name):
        tgt = s.targets[0]
        if tgt.attr == "_parent":
            return [f"do {st} <- set_o_parent {st} {tgt.value.id} (Some {s.value.id});"]
        if tgt.attr == "_children":
            return [f"do {st} <- set_o_children {st} {tgt.value.id} {s.value.id};"]
    if isinstance(s, ast.Expr) and isinstance(s.value, ast.Call) and isinstance(s.value.func, ast.Attribute) \
            and isinstance(s.value.func.value, ast.Name):
        c = s.value
        obj, m = c.func.value.id, c.func.attr
        # python list: lst.append(x)
        if m == "append" and obj in fn.listvars and len(c.args) == 1 and isinstance(c.args[0], ast.Name):
            return [f"let {obj} := {obj} ++ [{c.args[0].id}] in"]
        # element: x.append(item)
        if m == "append" and len(c.args) == 1 and isinstance(c.args[0], ast.Name) and not c.keywords:
            return [f"do {st} <- append_src {st} {obj} {c.args[0].id};"]
        # element.reset_children(list)
        if m == "reset_children" and len(c.args) == 1 and not c.keywords:
            b, l = elem_expr(c.args[0], fn)
            return b + [f"do {st} <- reset_children_src fuel {st} {obj} {l} false;"]
        # child.strip(inplace=True, recurse=True)   (result dropped)
        if m == "strip" and not c.args and [k.arg for k in c.keywords] == ["inplace", "recurse"]:
            vals = []
            for k in c.keywords:
                b, v = elem_expr(k.value, fn)
                if b:
                    bad(k, "keyword value")
                vals.append(v)
            r = fn.fresh("r")
            return [f"do {r} <- strip_src fuel {st} {obj} {vals[0]} {vals[1]};", f"let {st} := snd {r} in"]
    # item = item.deepcopy()  etc. are ordinary assignments
    # return self._children.insert(index, item)
    if isinstance(s, ast.Return) and isinstance(s.value, ast.Call) and isinstance(s.value.func, ast.Attribute) \
            and s.value.func.attr == "insert" and is_attr(s.value.func.value, "self", "_children") \
            and all(names(s.value.args)) and len(s.value.args) == 2:
        c = fn.fresh("c")
        i, x = s.value.args
        return [f"do {c} <- o_children {st} self;", f"do {st} <- set_o_children {st} self (list_insert {c} {i.id} {x.id});"]
    return None


# ---- Element.find: the few expression forms that only occur there

TEST_FUNC = "test_func = (lambda c: isinstance(c, identifier)) if inspect.isclass(identifier) else lambda c: c.name == identifier"
CLASSES_SET = "classes = set(classes) if classes is not None else classes"


def find_expr(e, fn):
    st = fn.state
    text = ast.unparse(e)
    if text == "self.walk() if recurse else self":
        v = fn.fresh("it")
        return [f"do {v} <- (if recurse then walk_src fuel {st} self false else o_children {st} self);"], v
    if text == "itertools.chain([self], iterator)":
        return [], "(self :: iterator)"
    if text == "test_func(child)":
        v = fn.fresh("b")
        return [f"do {v} <- test_func {st} child;"], v        # the lambda sees the objects as they are when it is called
    if text == "classes is not None and (not classes.issubset(child.attrs.classes))":
        a = fn.fresh("a")
        return [f"do {a} <- o_attrs {st} child;"], \
            f"(match classes with Some __cl => negb (forallb (fun __x => mem_str __x (HtmlModel.classes {a})) __cl) | None => false end)"
    if text == "child.attrs[key] != value":
        a = fn.fresh("a")
        return [f"do {a} <- o_attrs {st} child;"], f"(negb (ostr_eqb (attr_getitem {a} key) value))"
    if text == "(attrs or {}).items()":
        return [], "(match attrs with Some __d => __d | None => [] end)"
    return elem_expr(e, fn)


def find_stmt(s, fn):
    text = ast.unparse(s)
    if text == TEST_FUNC:
        return ["let test_func := (fun __s __c => ident_test __s identifier __c) in"]
    if text == CLASSES_SET:
        return ["let classes := classes in"]
    return elem_stmt(s, fn)


class ElemFn(Fn):
    def __init__(self, *a, listvars=(), **kw):
        super().__init__(*a, **kw)
        self.listvars = set(listvars)

    def carried(self, body):
        names_ = super().carried(body)
        for st_ in body:
            for n in ast.walk(st_):
                if isinstance(n, ast.Call) and isinstance(n.func, ast.Attribute) and n.func.attr == "append" \
                        and isinstance(n.func.value, ast.Name) and n.func.value.id in self.listvars \
                        and n.func.value.id not in names_:
                    names_.append(n.func.value.id)
        return names_

    def block(self, stmts, k, loop=None):
        # a local assigned [] is a python list
        if stmts and isinstance(stmts[0], ast.Assign) and isinstance(stmts[0].value, ast.List) and not stmts[0].value.elts \
                and isinstance(stmts[0].targets[0], ast.Name):
            self.listvars.add(stmts[0].targets[0].id)
        return super().block(stmts, k, loop)

    def loop_iter(self, s):
        it = s.iter
        # for i, item in enumerate(xs): the index is only used in the message of a raise
        if isinstance(it, ast.Call) and getattr(it.func, "id", None) == "enumerate" and len(it.args) == 1 \
                and isinstance(it.args[0], ast.Name) and isinstance(s.target, ast.Tuple) and len(s.target.elts) == 2:
            idx, var = s.target.elts[0].id, s.target.elts[1].id
            for st_ in s.body:
                for n in ast.walk(st_):
                    if isinstance(n, ast.Name) and n.id == idx:
                        inside_raise = any(isinstance(r, ast.Raise) and any(x is n for x in ast.walk(r))
                                           for b in s.body for r in ast.walk(b))
                        if not inside_raise:
                            bad(s, "enumerate index used outside an error message")
            return [], it.args[0].id, var, [var]
        if isinstance(it, ast.Call) and getattr(it.func, "id", None) == "range":
            return super().loop_iter(s)
        if ast.unparse(it) == "(attrs or {}).items()":
            binds, seq = find_expr(it, self)
        else:
            binds, seq = elem_iter(it, self)
        if isinstance(s.target, ast.Name):
            return binds, seq, s.target.id, [s.target.id]
        if isinstance(s.target, ast.Tuple) and all(isinstance(x, ast.Name) for x in s.target.elts):
            ns = [x.id for x in s.target.elts]
            return binds, seq, "'(" + ", ".join(ns) + ")", ns
        bad(s, "loop target")


# ---------------------------------------------------------------- main

# ---------------------------------------------------------------- Tree.__init__ / Tree.clear, class Attribute

def lit_str(v):
    return "[" + "; ".join(str(ord(c)) for c in v) + "]%N" if v else "(@nil N)"


def is_self_attr(e, attr):
    return is_attr(e, "self", attr)


def tree_ctor(m, is_init):
    """__init__(self, name) / clear(self): straight-line code over self.name / self.outmost / self.stack"""
    stmts = [s for s in m.body if not (isinstance(s, ast.Expr) and isinstance(s.value, ast.Constant))]
    lines = []
    name_src = "name" if is_init else "self.name"
    if is_init:
        lines.append("let t := t_empty in")
    else:
        # ids restart only if everything allocated before becomes unreachable: outmost overwritten, stack emptied
        txt = [ast.unparse(s) for s in stmts]
        if not any(t.startswith("self.outmost = ") for t in txt) or "self.stack.clear()" not in txt:
            raise Untranslatable("Tree.clear does not overwrite self.outmost and empty self.stack")
        lines.append("let t := t_forget t in")
    seen_name = not is_init
    for s in stmts:
        u = ast.unparse(s)
        if is_init and u == "self.name = name":
            seen_name = True
            continue
        if isinstance(s, ast.Assign) and len(s.targets) == 1 and is_self_attr(s.targets[0], "outmost") \
                and isinstance(s.value, ast.Call) and getattr(s.value.func, "id", None) == "Root" and len(s.value.args) == 1 \
                and not s.value.keywords and ast.unparse(s.value.args[0]) == name_src and seen_name:
            lines.append("let '(__v, t) := t_new t (new_element KRoot name []) in")
            lines.append("let t := set_outmost t __v in")
            continue
        if isinstance(s, (ast.Assign, ast.AnnAssign)) and s.value is not None and ast.unparse(s.value) == "deque()" \
                and is_self_attr(s.targets[0] if isinstance(s, ast.Assign) else s.target, "stack"):
            lines.append("let t := set_stack t [] in")
            continue
        if u == "self.stack.clear()":
            lines.append("let t := set_stack t [] in")
            continue
        if u == "self.stack.append(self.outmost)":
            lines.append("let t := stack_push t (t_outmost t) in")
            continue
        bad(s, "Tree.__init__/clear statement")
    return "\n".join(lines) + "\nt"


def attribute_defs(classes):
    """Attribute.__getitem__ and Attribute.classes (pure functions of the dict)"""
    out = []
    g = method(classes, "Attribute", "__getitem__")
    body = [s for s in g.body if not (isinstance(s, ast.Expr) and isinstance(s.value, ast.Constant))]
    r = body[0].value if len(body) == 1 and isinstance(body[0], ast.Return) else None
    if not (isinstance(r, ast.Call) and is_attr(r.func, "self", "get") and len(r.args) == 2 and not r.keywords
            and [a.arg for a in g.args.args] == ["self", "key"] and getattr(r.args[0], "id", None) == "key"
            and isinstance(r.args[1], ast.Constant) and isinstance(r.args[1].value, (str, type(None)))):
        raise Untranslatable("Attribute.__getitem__: " + ast.unparse(g)[:200])
    default = "None" if r.args[1].value is None else f"(Some {lit_str(r.args[1].value)})"
    out.append("(* Attribute.__getitem__ *)")
    out.append(f"Definition attr_getitem_src (self : attrs) (key : str) : option str :=\npy_get self key {default}.\n")
    c = method(classes, "Attribute", "classes")
    if [getattr(d, "id", None) for d in c.decorator_list] != ["property"]:
        raise Untranslatable("Attribute.classes is not a plain property")
    body = [s for s in c.body if not (isinstance(s, ast.Expr) and isinstance(s.value, ast.Constant))]
    r = body[0].value if len(body) == 1 and isinstance(body[0], ast.Return) else None
    # (self[K] or D).split()
    ok = (isinstance(r, ast.Call) and isinstance(r.func, ast.Attribute) and r.func.attr == "split" and not r.args and not r.keywords
          and isinstance(r.func.value, ast.BoolOp) and isinstance(r.func.value.op, ast.Or) and len(r.func.value.values) == 2)
    if ok:
        a, d = r.func.value.values
        ok = (isinstance(a, ast.Subscript) and getattr(a.value, "id", None) == "self" and isinstance(a.slice, ast.Constant)
              and isinstance(a.slice.value, str) and isinstance(d, ast.Constant) and isinstance(d.value, str))
    if not ok:
        raise Untranslatable("Attribute.classes: " + ast.unparse(c)[:200])
    out.append("(* Attribute.classes *)")
    out.append(f"Definition classes_src (self : attrs) : list str :=\nsplit_ws (ostr_or (attr_getitem_src self {lit_str(a.slice.value)}) {lit_str(d.value)}).\n")
    return out


# ---------------------------------------------------------------- <Class>.render (tag_overrides = None)

OVERRIDE_GUARDS = ("tag_overrides and self.name in tag_overrides", "tag_overrides is not None and self.name in tag_overrides")


def render_expr(e, binds):
    """str-valued expression of a render method over the cell __c of self -> Gallina term; the join over the
    children becomes a loop bound in `binds`"""
    if isinstance(e, ast.BinOp) and isinstance(e.op, ast.Add):
        return f"({render_expr(e.left, binds)}) ++ ({render_expr(e.right, binds)})"
    if isinstance(e, ast.Constant) and isinstance(e.value, str):
        return lit_str(e.value)
    if is_self_attr(e, "data"):
        return "(c_data __c)"
    if is_self_attr(e, "name"):
        return "(c_name __c)"
    if is_self_attr(e, "attrs"):                       # only inside an f-string: str(self.attrs) = Attribute.__str__
        return "(render_attrs (c_attrs __c))"
    if isinstance(e, ast.IfExp) and is_self_attr(e.test, "attrs") and isinstance(e.body, ast.Constant) and isinstance(e.orelse, ast.Constant):
        return f"(if truthy (c_attrs __c) then {lit_str(e.body.value)} else {lit_str(e.orelse.value)})"
    if isinstance(e, ast.JoinedStr):
        parts = []
        for v in e.values:
            if isinstance(v, ast.Constant):
                parts.append(lit_str(v.value))
            elif isinstance(v, ast.FormattedValue) and v.conversion == -1 and v.format_spec is None:
                parts.append(render_expr(v.value, binds))
            else:
                bad(v, "f-string piece")
        return " ++ ".join(parts) if parts else "(@nil N)"
    # "".join(child.render(...) for child in self)
    if isinstance(e, ast.Call) and isinstance(e.func, ast.Attribute) and e.func.attr == "join" and isinstance(e.func.value, ast.Constant) \
            and e.func.value.value == "" and len(e.args) == 1 and isinstance(e.args[0], ast.GeneratorExp):
        g = e.args[0]
        c = g.elt
        ok = (len(g.generators) == 1 and not g.generators[0].ifs and getattr(g.generators[0].iter, "id", None) == "self"
              and isinstance(g.generators[0].target, ast.Name) and isinstance(c, ast.Call) and isinstance(c.func, ast.Attribute)
              and c.func.attr == "render" and getattr(c.func.value, "id", None) == g.generators[0].target.id and not c.args
              and all((k.arg is None and getattr(k.value, "id", None) == "kwargs")
                      or (k.arg == "tag_overrides" and getattr(k.value, "id", None) == "tag_overrides") for k in c.keywords))
        if not ok or binds:
            bad(e, "join over the children")
        v = g.generators[0].target.id
        binds.append(f"do __ks <- for_res (c_children __c) (fun {v} __acc => do __r <- render_src fuel st {v}; Ok (__acc ++ __r)) (@nil N);")
        return "__ks"
    bad(e, "render expression")


def render_defs(classes):
    arms = []
    for cls, kind in CLASS_KIND.items():
        m = method(classes, cls, "render")
        body = [s for s in m.body if not (isinstance(s, ast.Expr) and isinstance(s.value, ast.Constant))]
        if body and isinstance(body[0], ast.If) and ast.unparse(body[0].test) in OVERRIDE_GUARDS and not body[0].orelse \
                and len(body[0].body) == 1 and isinstance(body[0].body[0], ast.Return):
            body = body[1:]                      # render() is translated for tag_overrides = None (every call in html_to_nodes.py)
        if len(body) != 1 or not isinstance(body[0], ast.Return):
            raise Untranslatable(f"{cls}.render: " + ast.unparse(m)[:200])
        binds = []
        term = render_expr(body[0].value, binds)
        arms.append(f"| {kind} => (* {cls}.render *)\n" + "\n".join(binds + [f"Ok ({term})"]))
    return ("(* <Class>.render, dispatch on the class of self; tag_overrides = None *)\n"
            "Fixpoint render_src (fuel : nat) (st : store) (self : nat) {struct fuel} : res str :=\n"
            "match fuel with O => Raise OutOfFuel | S fuel =>\ndo __c <- get st self;\nmatch c_kind __c with\n"
            + "\n".join(arms) + "\nend\nend.\n")


def method(classes, cls, name):
    for n in classes[cls].body:
        if isinstance(n, ast.FunctionDef) and n.name == name:
            return n
    raise Untranslatable(f"{cls}.{name} not found")


def params(fn, types):
    ps = [a.arg for a in fn.args.args if a.arg != "self"]
    if len(ps) != len(types):
        raise Untranslatable(f"{fn.name}: parameters {ps} do not match the expected {types}")
    return " ".join(f"({p} : {t})" for p, t in zip(ps, types))


def generate(repo):
    src = (Path(repo) / "myst_parser" / "parsers" / "parse_html.py").read_text()
    tree = ast.parse(src)
    classes = {n.name: n for n in tree.body if isinstance(n, ast.ClassDef)}
    out = ["(* GENERATED by gen/c16_src.py from myst_parser/parsers/parse_html.py - do not edit *)",
           "From Coq Require Import List NArith Bool Arith.",
           "From MV Require Import Base.PyStr Base.Res Html.HtmlTypes Gen.Html Html.HtmlModel Html.SrcPrims.",
           "Import ListNotations.", "Local Open Scope nat_scope.", ""]

    def emit(comment, head, body):
        out.append(f"(* {comment} *)")
        out.append(f"{head} :=\n{body}.\n")

    # Element.insert; MutableSequence.append(item) = self.insert(len(self), item)  (collections.abc)
    m = method(classes, "Element", "insert")
    f = ElemFn(m, "st", elem_expr, elem_stmt, ret_state=True)
    emit("Element.insert", f"Definition insert_src (st : store) (self : nat) {params(m, ['nat', 'nat'])} : res store", f.body())
    out.append("(* collections.abc.MutableSequence.append: self.insert(len(self), value) *)")
    out.append("Definition append_src (st : store) (self item : nat) : res store :=\n"
               "do __c <- o_children st self;\ninsert_src st self (length __c) item.\n")

    # Element.walk (generator -> list, fuel recursion)
    m = method(classes, "Element", "walk")
    f = ElemFn(m, "st", elem_expr, elem_stmt, gen=True, fuel="fuel")
    emit("Element.walk", f"Fixpoint walk_src (fuel : nat) (st : store) (self : nat) {params(m, ['bool'])} {{struct fuel}} : res (list nat)", f.body())

    # deepcopy: TerminalElement overrides Element.deepcopy (method resolution by class)
    terminal = sorted(c for c in CLASS_KIND if any(getattr(b, "id", None) == "TerminalElement" for b in classes[c].bases))
    if [CLASS_KIND[c] for c in terminal] != sorted(["KData", "KDecl", "KComment", "KPi", "KChar", "KEntity"], key=lambda k: [c for c in CLASS_KIND if CLASS_KIND[c] == k][0]):
        raise Untranslatable(f"TerminalElement subclasses changed: {terminal}")
    for c in CLASS_KIND:
        if any(isinstance(n, ast.FunctionDef) and n.name in ("deepcopy", "walk", "strip", "find", "insert", "reset_children") for n in classes[c].body):
            raise Untranslatable(f"{c} overrides a translated method")
    me = method(classes, "Element", "deepcopy")
    mt = method(classes, "TerminalElement", "deepcopy")
    fe = ElemFn(me, "st", elem_expr, elem_stmt)
    ft = ElemFn(mt, "st", elem_expr, elem_stmt)
    body_e, body_t = fe.block(list(me.body), lambda: fe.ret()), ft.block(list(mt.body), lambda: ft.ret())
    emit("Element.deepcopy / TerminalElement.deepcopy (dispatch on the class of self)",
         "Fixpoint deepcopy_src (fuel : nat) (st : store) (self : nat) {struct fuel} : res (nat * store)",
         "match fuel with O => Raise OutOfFuel | S fuel =>\ndo __k0 <- o_kind st self;\nif is_terminal __k0 then (\n"
         + body_t + "\n) else (\n" + body_e + "\n)\nend")

    m = method(classes, "Element", "reset_children")
    f = ElemFn(m, "st", elem_expr, elem_stmt, listvars=["children"])
    emit("Element.reset_children", f"Definition reset_children_src (fuel : nat) (st : store) (self : nat) {params(m, ['list nat', 'bool'])} : res store", f.body())

    m = method(classes, "Element", "strip")
    f = ElemFn(m, "st", elem_expr, elem_stmt, fuel="fuel")
    emit("Element.strip", f"Fixpoint strip_src (fuel : nat) (st : store) (self : nat) {params(m, ['bool', 'bool'])} {{struct fuel}} : res (nat * store)", f.body())

    m = method(classes, "Element", "find")
    f = ElemFn(m, "st", find_expr, find_stmt, gen=True, listvars=["iterator"])
    f.locals.append("iterator")
    emit("Element.find", "Definition find_src (fuel : nat) (st : store) (self : nat) "
         + params(m, ["ident", "option attrs", "option (list str)", "bool", "bool"]) + " : res (list nat)", f.body())

    # class Attribute
    out.extend(attribute_defs(classes))

    # render
    out.append(render_defs(classes))

    # class Tree
    if any(isinstance(n, ast.FunctionDef) and n.name == "__init__" for n in classes["Root"].body):
        raise Untranslatable("Root overrides __init__")
    m = method(classes, "Tree", "__init__")
    if [a.arg for a in m.args.args] != ["self", "name"]:
        raise Untranslatable("Tree.__init__ parameters")
    emit("Tree.__init__", "Definition tree_init_src (name : str) : tree", tree_ctor(m, True))
    m = method(classes, "Tree", "clear")
    if [a.arg for a in m.args.args] != ["self"]:
        raise Untranslatable("Tree.clear parameters")
    emit("Tree.clear (name = self.name, stored by __init__)", "Definition clear_src (t : tree) (name : str) : tree", tree_ctor(m, False))

    m = method(classes, "Tree", "last")
    f = Fn(m, "t", tree_expr, tree_stmt, ret_state=False)
    emit("Tree.last", "Definition last_src (t : tree) : res nat", f.body())
    for name, types in (("nest_tag", ["str", "attrs"]), ("nest_xtag", ["str", "attrs"]), ("nest_vtag", ["str", "attrs"]),
                        ("nest_terminal", ["kind", "str"]), ("enclose", ["str"])):
        m = method(classes, "Tree", name)
        f = Fn(m, "t", tree_expr, tree_stmt)
        emit(f"Tree.{name}", f"Definition {name}_src (t : tree) {params(m, types)} : res tree", f.body())

    # class HtmlToAst: handlers act on self.struct
    handlers = [("handle_starttag", ["str", "attrs"]), ("handle_startendtag", ["str", "attrs"]), ("handle_endtag", ["str"]),
                ("handle_data", ["str"]), ("handle_decl", ["str"]), ("unknown_decl", ["str"]), ("handle_charref", ["str"]),
                ("handle_entityref", ["str"]), ("handle_pi", ["str"]), ("handle_comment", ["str"])]
    for name, types in handlers:
        m = method(classes, "HtmlToAst", name)
        f = Fn(m, "t", handler_expr, handler_stmt)
        emit(f"HtmlToAst.{name}", f"Definition {name}_src (t : tree) {params(m, types)} : res tree", f.body())
    out.append("(* html.parser calls one handler per event *)")
    out.append("""Definition handle_src (t : tree) (e : event) : res tree :=
  match e with
  | EStart n a => handle_starttag_src t n a
  | EStartEnd n a => handle_startendtag_src t n a
  | EEnd n => handle_endtag_src t n
  | EData s => handle_data_src t s
  | EDecl s => handle_decl_src t s
  | EUnknownDecl s => unknown_decl_src t s
  | EComment s => handle_comment_src t s
  | EPi s => handle_pi_src t s
  | ECharRef s => handle_charref_src t s
  | EEntityRef s => handle_entityref_src t s
  end.
""")
    text = "\n".join(out) + "\n"
    return text, {"sha": hashlib.sha256(text.encode()).hexdigest()[:16]}


if __name__ == "__main__":
    import sys
    print(generate(sys.argv[1] if len(sys.argv) > 1 else "/repo")[0])
