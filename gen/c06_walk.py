"""Statement walker on top of gen/py2coq.py for methods that mutate `self.<attr>` state
(C06 / C20 source-translation tie).

A method body is translated statement by statement into a Gallina term in continuation style over a
state variable (default `s`).  Control flow comes from the Python AST: `if` (CPS duplication of the rest,
or if-conversion of a straight-line body without else), `with` (context-manager rule or a local
@contextmanager generator function that is split at its `yield`), `try/finally`, `return`.  Atomic
statements - and compound statements the caller wants to treat as one step (a try/except around one call,
a for loop that maps over a list) - are translated through the caller's RULES: (regex on the normalised
`ast.unparse` text, kind, payload).  This table is the domain mapping (TRUSTED, listed in props).  Anything
that matches no rule and is not one of the structural forms raises Untranslatable (fail-closed).

Normalisation before matching: docstrings, bare annotations and `assert` statements are dropped; every
f-string becomes the constant 'F' and the message argument of reporter/create_warning calls is ignored by
the rules through `.*`, so rewording a message does not change the generated code.

Rule kinds
  ("skip",)                      no modelled effect (must be listed explicitly)
  ("let", var, expr[, default])  let var := expr in ...     (default: value when if-converted branch is not taken)
  ("state", expr)                let s := expr in ...
  ("bind", pat, expr)            do pat <- expr; ...
  ("raw", template)              template with {K} = the translated rest; may use regex groups {g1}...
  ("ret", expr)                  terminal
"""
from __future__ import annotations

import ast
import re

from gen.py2coq import Untranslatable


def normalise(node: ast.AST) -> ast.AST:
    class N(ast.NodeTransformer):
        def visit_JoinedStr(self, n):
            return ast.copy_location(ast.Constant("F"), n)
    return ast.fix_missing_locations(N().visit(node))


def text_of(s: ast.stmt) -> str:
    return ast.unparse(s)


class Walker:
    def __init__(self, rules, tests, state="s", final="Ok s", with_rules=(), inner_final=None):
        self.rules = [(re.compile(rx, re.S), kind) for rx, kind in rules]
        self.tests = [(re.compile(rx, re.S), t) for rx, t in tests]
        self.state = state
        self.final = final
        self.with_rules = [(re.compile(rx, re.S), t) for rx, t in with_rules]
        self.inner_final = inner_final or final     # how a with/try body ends
        self.ncond = 0
        self.ctx_managers = {}      # local @contextmanager functions: name -> (enter stmts, exit stmts)
        self.used = set()

    # ---- lookup
    def rule(self, s: ast.stmt):
        t = text_of(s)
        for i, (rx, kind) in enumerate(self.rules):
            m = rx.fullmatch(t)
            if m:
                self.used.add(i)
                return kind, m
        return None, None

    def test(self, e: ast.expr) -> str:
        t = ast.unparse(e)
        for rx, out in self.tests:
            m = rx.fullmatch(t)
            if m:
                return out.format(*m.groups())
        if isinstance(e, ast.UnaryOp) and isinstance(e.op, ast.Not):
            return f"(negb {self.test(e.operand)})"
        if isinstance(e, ast.BoolOp):
            op = "andb" if isinstance(e.op, ast.And) else "orb"
            out = self.test(e.values[0])
            for v in e.values[1:]:
                out = f"({op} {out} {self.test(v)})"
            return out
        raise Untranslatable(f"test not in the mapping: {t}")

    # ---- statements
    @staticmethod
    def droppable(s):
        return (isinstance(s, ast.Expr) and isinstance(s.value, ast.Constant) and isinstance(s.value.value, str)) \
            or (isinstance(s, ast.AnnAssign) and s.value is None) or isinstance(s, ast.Assert)

    def simple(self, kind, m, k, cond=None):
        """emit one rule-translated statement in front of k; cond: if-conversion test"""
        def fmt(x):
            if callable(x):
                return x(m, k)
            return x.format(*m.groups(), K=k) if "{K}" in x else x.format(*m.groups())
        if kind[0] == "skip":
            return k
        if kind[0] == "let":
            expr = fmt(kind[2])
            if cond is not None:
                if len(kind) < 4:
                    raise Untranslatable(f"if-conversion needs a default for {kind[1]}")
                expr = f"(if {cond} then {expr} else {fmt(kind[3])})"
            return f"let {kind[1]} := {expr} in\n{k}"
        if kind[0] == "state":
            expr = fmt(kind[1])
            if cond is not None:
                expr = f"(if {cond} then {expr} else {self.state})"
            return f"let {self.state} := {expr} in\n{k}"
        if kind[0] == "bind":
            if cond is not None:
                raise Untranslatable("bind inside an if-converted branch")
            return f"do {kind[1]} <- {fmt(kind[2])};\n{k}"
        if kind[0] == "raw":
            if cond is not None:
                raise Untranslatable("raw rule inside an if-converted branch")
            return fmt(kind[1])
        if kind[0] == "ret":
            return fmt(kind[1])
        raise Untranslatable(f"rule kind {kind[0]}")

    def straight(self, body):
        """all statements have let/state/skip rules"""
        out = []
        for s in body:
            if self.droppable(s):
                continue
            kind, m = self.rule(s)
            if kind is None or kind[0] not in ("let", "state", "skip"):
                return None
            out.append((kind, m))
        return out

    def block(self, stmts, k=None) -> str:
        k = self.final if k is None else k
        if not stmts:
            return k
        s, rest = stmts[0], list(stmts[1:])
        if self.droppable(s):
            return self.block(rest, k)
        kind, m = self.rule(s)
        if kind is not None:
            if kind[0] == "ret":
                return self.simple(kind, m, k)
            return self.simple(kind, m, self.block(rest, k))
        if isinstance(s, ast.FunctionDef) and any(ast.unparse(d) == "contextmanager" for d in s.decorator_list):
            body = [x for x in s.body if not self.droppable(x)]
            idx = [i for i, x in enumerate(body) if isinstance(x, ast.Expr) and isinstance(x.value, ast.Yield)]
            if len(idx) != 1 or s.args.args:
                raise Untranslatable(f"contextmanager {s.name}: expected exactly one top-level yield")
            self.ctx_managers[s.name] = (body[:idx[0]], body[idx[0] + 1:])
            return self.block(rest, k)
        if isinstance(s, ast.If):
            cond = self.test(s.test)
            sl = self.straight(s.body) if not s.orelse else None
            if sl is not None:
                self.ncond += 1
                cv = f"__c{self.ncond}"       # the test is evaluated once, before the branch body
                term = self.block(rest, k)
                for kind2, m2 in reversed(sl):
                    term = self.simple(kind2, m2, term, cond=cv)
                return f"let {cv} := {cond} in\n{term}"
            a = self.block(list(s.body) + rest, k)
            b = self.block(list(s.orelse) + rest, k)
            return f"if {cond} then\n({a})\nelse\n({b})"
        if isinstance(s, ast.With) and len(s.items) == 1 and s.items[0].optional_vars is None:
            ce = s.items[0].context_expr
            if isinstance(ce, ast.Call) and isinstance(ce.func, ast.Name) and ce.func.id in self.ctx_managers \
                    and not ce.args and not ce.keywords:
                enter, exit_ = self.ctx_managers[ce.func.id]
                # no try/finally in the generator: the exit part only runs when the body did not raise,
                # which is what the sequential `do` chain says
                return self.block(list(enter) + list(s.body) + list(exit_) + rest, k)
            t = ast.unparse(ce)
            for rx, tmpl in self.with_rules:
                if rx.fullmatch(t):
                    body = self.block(list(s.body), self.inner_final)
                    return tmpl.replace("{BODY}", body).replace("{K}", self.block(rest, k))
            raise Untranslatable(f"with-statement not in the mapping: {t}")
        if isinstance(s, ast.Try) and s.finalbody and not s.handlers and not s.orelse:
            # state changes of a body that raises are lost with the exception (res carries no state):
            # body; finally; rest
            inner = self.block(list(s.body), self.inner_final)
            return f"do {self.state} <- ({inner});\n{self.block(list(s.finalbody) + rest, k)}"
        if isinstance(s, ast.Return) and s.value is None:
            return self.final
        raise Untranslatable(f"statement not in the mapping: {text_of(s)[:200]}")

    def unused_rules(self):
        return [self.rules[i][0].pattern for i in range(len(self.rules)) if i not in self.used]


def local_names(fn: ast.FunctionDef) -> list[str]:
    """the locals of fn in order of first binding (assignment targets, for targets, comprehension variables,
    `except ... as x`, nested function names); parameters are not locals"""
    ps = set(params(fn))
    found = []
    for n in ast.walk(fn):
        if isinstance(n, ast.Name) and isinstance(n.ctx, ast.Store):
            found.append((n.lineno, n.col_offset, n.id))
        elif isinstance(n, ast.ExceptHandler) and n.name:
            found.append((n.lineno, n.col_offset, n.name))
        elif isinstance(n, (ast.FunctionDef, ast.ClassDef)) and n is not fn:
            found.append((n.lineno, n.col_offset, n.name))
    out = []
    for _, _, name in sorted(found):
        if name not in ps and name not in out:
            out.append(name)
    return out


def canonicalise(fn: ast.FunctionDef, canon: list[str]) -> ast.FunctionDef:
    """alpha-normalisation: the i-th local (by first binding) is renamed to canon[i], the name the RULES use;
    renaming a local in the source therefore does not change the generated code.  A different number of locals is a
    structural change (fail-closed)."""
    names = local_names(fn)
    if len(names) != len(canon):
        raise Untranslatable(f"{fn.name}: {len(names)} locals {names}, the mapping knows {len(canon)}")
    ren = dict(zip(names, canon))
    clash = [c for n, c in ren.items() if c != n and c in names and ren.get(c) != c and names.index(c) != canon.index(c)]

    class R(ast.NodeTransformer):
        def visit_Name(self, n):
            if n.id in ren:
                n.id = ren[n.id]
            return n

        def visit_ExceptHandler(self, n):
            if n.name in ren:
                n.name = ren[n.name]
            self.generic_visit(n)
            return n

        def visit_FunctionDef(self, n):
            if n is not fn and n.name in ren:
                n.name = ren[n.name]
            self.generic_visit(n)
            return n

        def visit_ClassDef(self, n):
            if n.name in ren:
                n.name = ren[n.name]
            self.generic_visit(n)
            return n
    return ast.fix_missing_locations(R().visit(fn))


def canonicalise_by_value(fn: ast.FunctionDef, value_rules) -> ast.FunctionDef:
    """alpha-normalisation for long methods that other edits keep touching: a local is renamed to the canonical
    name of the first rule (regex on the unparsed right-hand side / for-iterable, after the renames made so far) that
    its first binding matches; every `except ... as x` name becomes `error`; other locals keep their names."""
    rules = [(re.compile(rx, re.S), nm) for rx, nm in value_rules]
    ren: dict[str, str] = {}

    def rename(node):
        class R(ast.NodeTransformer):
            def visit_Name(self, n):
                if n.id in ren:
                    n.id = ren[n.id]
                return n

            def visit_ExceptHandler(self, n):
                if n.name:
                    n.name = ren.get(n.name, n.name)
                self.generic_visit(n)
                return n
        return R().visit(node)

    binds = []
    for n in ast.walk(fn):
        if isinstance(n, (ast.Assign, ast.AnnAssign)) and n.value is not None:
            tg = n.targets[0] if isinstance(n, ast.Assign) else n.target
            if isinstance(tg, ast.Name):
                binds.append((n.lineno, n.col_offset, tg.id, n.value))
        elif isinstance(n, ast.For) and isinstance(n.target, ast.Name):
            binds.append((n.lineno, n.col_offset, n.target.id, n.iter))
        elif isinstance(n, ast.ExceptHandler) and n.name:
            binds.append((n.lineno, n.col_offset, n.name, None))
    seen = set()
    for _, _, name, value in sorted(binds, key=lambda b: (b[0], b[1])):
        if name in seen:
            continue
        seen.add(name)
        if value is None:
            if name != "error":
                ren[name] = "error"
            continue
        import copy
        t = ast.unparse(rename(copy.deepcopy(value)))
        for rx, nm in rules:
            if rx.fullmatch(t):
                if nm != name:
                    ren[name] = nm
                break
    return ast.fix_missing_locations(rename(fn))


def find_method(tree: ast.Module, cls: str, name: str, canon: list[str] | None = None) -> ast.FunctionDef:
    for node in ast.walk(tree):
        if isinstance(node, ast.ClassDef) and node.name == cls:
            for m in node.body:
                if isinstance(m, ast.FunctionDef) and m.name == name:
                    m = normalise(m)
                    return canonicalise(m, canon) if canon is not None else m
    raise Untranslatable(f"{cls}.{name} not found")


def params(fn: ast.FunctionDef):
    a = fn.args
    return [x.arg for x in a.posonlyargs + a.args + a.kwonlyargs]


def coq_str(s: str) -> str:
    return "[" + "; ".join(str(ord(c)) for c in s) + "]" if s else "[]"
