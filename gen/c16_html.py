"""Translator parse_html.py -> coq/Gen/Html.v (fail-closed).

Read with `ast` from myst_parser/parsers/parse_html.py:
  * HtmlToAst.void_elements                       -> void_elements : list str
  * Attribute.__str__                             -> attr_sep, render_attr
  * <Class>.render for every Element subclass     -> render_<Class> name has_attrs attrs_s data children_s
  * Tree.nest_tag/nest_xtag/nest_vtag             -> the class each one instantiates
  * HtmlToAst.handle_* / unknown_decl             -> which Tree method / class each handler uses
and from the running interpreter: html.parser.HTMLParser.CDATA_CONTENT_ELEMENTS, str.isspace.
Anything outside the accepted grammar raises GenError (=> the tie is broken)."""
import ast
import hashlib
import sys
from pathlib import Path


class GenError(Exception):
    pass


CLASS_KIND = {"Root": "KRoot", "Tag": "KTag", "XTag": "KXTag", "VoidTag": "KVoid", "Data": "KData",
              "Declaration": "KDecl", "Comment": "KComment", "Pi": "KPi", "Char": "KChar", "Entity": "KEntity"}


def coq_str(s: str) -> str:
    return "[" + "; ".join(str(ord(c)) for c in s) + "]"


def cat(parts):
    parts = [p for p in parts if p != "[]"]
    if not parts:
        return "[]"
    return " ++ ".join(parts)


def fail(node, why):
    raise GenError(f"parse_html.py line {getattr(node, 'lineno', '?')}: {why}: {ast.dump(node)[:300]}")


def strip_doc(body):
    if body and isinstance(body[0], ast.Expr) and isinstance(body[0].value, ast.Constant) and isinstance(body[0].value.value, str):
        return body[1:]
    return body


def is_self_attr(e, name):
    return isinstance(e, ast.Attribute) and isinstance(e.value, ast.Name) and e.value.id == "self" and e.attr == name


# ---------------------------------------------------------------- render() templates

def tr_fvalue(e):
    """Expression inside {...} of a render f-string."""
    if is_self_attr(e, "name"):
        return "name"
    if is_self_attr(e, "attrs"):
        return "attrs_s"
    if is_self_attr(e, "data"):
        return "data"
    if isinstance(e, ast.IfExp) and is_self_attr(e.test, "attrs") and all(
            isinstance(x, ast.Constant) and isinstance(x.value, str) for x in (e.body, e.orelse)):
        return f"(if has_attrs then {coq_str(e.body.value)} else {coq_str(e.orelse.value)})"
    fail(e, "unsupported expression in a render() f-string")


def tr_joined(e):
    parts = []
    for v in e.values:
        if isinstance(v, ast.Constant) and isinstance(v.value, str):
            parts.append(coq_str(v.value))
        elif isinstance(v, ast.FormattedValue) and v.conversion == -1 and v.format_spec is None:
            parts.append(tr_fvalue(v.value))
        else:
            fail(v, "unsupported f-string part")
    return parts


def is_children_join(e):
    """ "".join(child.render(...) for child in self) """
    if not (isinstance(e, ast.Call) and isinstance(e.func, ast.Attribute) and e.func.attr == "join"
            and isinstance(e.func.value, ast.Constant) and e.func.value.value == "" and len(e.args) == 1):
        return False
    g = e.args[0]
    if not (isinstance(g, ast.GeneratorExp) and len(g.generators) == 1):
        return False
    c = g.generators[0]
    if not (isinstance(c.target, ast.Name) and isinstance(c.iter, ast.Name) and c.iter.id == "self" and not c.ifs):
        return False
    call = g.elt
    return (isinstance(call, ast.Call) and isinstance(call.func, ast.Attribute) and call.func.attr == "render"
            and isinstance(call.func.value, ast.Name) and call.func.value.id == c.target.id and not call.args
            and all(k.arg in (None, "tag_overrides") for k in call.keywords))


def tr_render_expr(e):
    if isinstance(e, ast.BinOp) and isinstance(e.op, ast.Add):
        return tr_render_expr(e.left) + tr_render_expr(e.right)
    if isinstance(e, ast.JoinedStr):
        return tr_joined(e)
    if isinstance(e, ast.Constant) and isinstance(e.value, str):
        return [coq_str(e.value)]
    if is_children_join(e):
        return ["children_s"]
    if is_self_attr(e, "data"):
        return ["data"]
    fail(e, "unsupported expression in render()")


def mentions(node, name):
    return any(isinstance(n, ast.Name) and n.id == name for n in ast.walk(node))


def tr_render(fn):
    body = strip_doc(fn.body)
    # optional:  if tag_overrides ... and self.name in tag_overrides: return tag_overrides[self.name](self, tag_overrides)
    if body and isinstance(body[0], ast.If):
        i = body[0]
        if not (mentions(i.test, "tag_overrides") and not i.orelse and len(i.body) == 1
                and isinstance(i.body[0], ast.Return) and mentions(i.body[0].value, "tag_overrides")):
            fail(i, "unsupported if-statement in render()")
        body = body[1:]
    if len(body) != 1 or not isinstance(body[0], ast.Return) or body[0].value is None:
        fail(fn, "render() body is not a single return")
    return cat(tr_render_expr(body[0].value))


# ---------------------------------------------------------------- Attribute.__str__

def tr_attr_elt(e, known):
    """element of the generator in Attribute.__str__; `known`: None | 'none' | 'some' (what is known about value)."""
    if isinstance(e, ast.Name) and e.id == "key":
        return ["key"]
    if isinstance(e, ast.Name) and e.id == "value":
        return ["value" if known == "some" else coq_str("None") if known == "none" else "(py_str_opt value)"]
    if isinstance(e, ast.Constant) and isinstance(e.value, str):
        return [coq_str(e.value)]
    if isinstance(e, ast.Call) and isinstance(e.func, ast.Name) and e.func.id in ESCAPE_FUNCS and not e.keywords \
            and len(e.args) == 1 and isinstance(e.args[0], ast.Name) and e.args[0].id == "value" and known == "some":
        return [f"({e.func.id} value)"]
    if isinstance(e, ast.JoinedStr):
        parts = []
        for v in e.values:
            if isinstance(v, ast.Constant) and isinstance(v.value, str):
                parts.append(coq_str(v.value))
            elif isinstance(v, ast.FormattedValue) and v.conversion == -1 and v.format_spec is None:
                parts += tr_attr_elt(v.value, known)
            else:
                fail(v, "unsupported f-string part in Attribute.__str__")
        return parts
    fail(e, "unsupported expression in Attribute.__str__")


ESCAPE_FUNCS = set()


def tr_escape_func(fn):
    """def f(value): return value.replace(a, b).replace(c, d)...  with one-character a, c"""
    body = strip_doc(fn.body)
    args = arg_names(fn)
    if len(args) != 1 or len(body) != 1 or not isinstance(body[0], ast.Return):
        fail(fn, "escape function is not a single return over one parameter")
    chain = []
    e = body[0].value
    while isinstance(e, ast.Call) and isinstance(e.func, ast.Attribute) and e.func.attr == "replace":
        if not (len(e.args) == 2 and not e.keywords and all(isinstance(a, ast.Constant) and isinstance(a.value, str) for a in e.args)
                and len(e.args[0].value) == 1):
            fail(e, "unsupported replace() in escape function")
        chain.append((e.args[0].value, e.args[1].value))
        e = e.func.value
    if not (isinstance(e, ast.Name) and e.id == args[0]) or not chain:
        fail(fn, "escape function is not a chain of replace() calls on its parameter")
    term = "value"
    for a, b in reversed(chain):          # innermost call is applied first
        term = f"(replace_char {ord(a)} {coq_str(b)} {term})"
    return term


def tr_attr_str(fn):
    body = strip_doc(fn.body)
    if len(body) != 1 or not isinstance(body[0], ast.Return):
        fail(fn, "Attribute.__str__ is not a single return")
    e = body[0].value
    if not (isinstance(e, ast.Call) and isinstance(e.func, ast.Attribute) and e.func.attr == "join"
            and isinstance(e.func.value, ast.Constant) and isinstance(e.func.value.value, str) and len(e.args) == 1
            and isinstance(e.args[0], ast.GeneratorExp) and len(e.args[0].generators) == 1):
        fail(e, "Attribute.__str__ is not sep.join(generator)")
    sep = e.func.value.value
    g = e.args[0]
    c = g.generators[0]
    if not (isinstance(c.target, ast.Tuple) and [getattr(x, "id", None) for x in c.target.elts] == ["key", "value"]
            and isinstance(c.iter, ast.Call) and is_self_attr(c.iter.func, "items") and not c.iter.args and not c.ifs):
        fail(c, "Attribute.__str__ generator is not `for key, value in self.items()`")
    elt = g.elt
    if isinstance(elt, ast.IfExp):
        t = elt.test
        if not (isinstance(t, ast.Compare) and isinstance(t.left, ast.Name) and t.left.id == "value" and len(t.ops) == 1
                and isinstance(t.ops[0], (ast.Is, ast.IsNot)) and isinstance(t.comparators[0], ast.Constant)
                and t.comparators[0].value is None):
            fail(t, "unsupported test in Attribute.__str__")
        none_e, some_e = (elt.body, elt.orelse) if isinstance(t.ops[0], ast.Is) else (elt.orelse, elt.body)
        body_c = (f"match value with\n  | None => {cat(tr_attr_elt(none_e, 'none'))}\n"
                  f"  | Some value => {cat(tr_attr_elt(some_e, 'some'))}\n  end")
    else:
        body_c = cat(tr_attr_elt(elt, None))
    return sep, body_c


# ---------------------------------------------------------------- handler table

def single_call(stmt):
    """self.struct.<method>(args...) as an expression statement -> (method, [arg dumps])"""
    if not (isinstance(stmt, ast.Expr) and isinstance(stmt.value, ast.Call)):
        return None
    f = stmt.value.func
    if not (isinstance(f, ast.Attribute) and is_self_attr(f.value, "struct") and not stmt.value.keywords):
        return None
    return f.attr, stmt.value.args


def arg_names(fn):
    return [a.arg for a in fn.args.args]


def tr_terminal_handler(fn):
    body = strip_doc(fn.body)
    if len(body) != 1:
        fail(fn, "handler body is not a single statement")
    sc = single_call(body[0])
    if not sc or sc[0] != "nest_terminal" or len(sc[1]) != 2:
        fail(fn, "handler does not call self.struct.nest_terminal(Class, data)")
    cls, data = sc[1]
    if not (isinstance(cls, ast.Name) and cls.id in CLASS_KIND and isinstance(data, ast.Name) and data.id == arg_names(fn)[1]):
        fail(fn, "unsupported nest_terminal arguments")
    return CLASS_KIND[cls.id]


def check_start(fn):
    """if name in self.void_elements: self.struct.nest_vtag(name, attr) else: self.struct.nest_tag(name, attr)"""
    body = strip_doc(fn.body)
    a = arg_names(fn)
    ok = len(body) == 1 and isinstance(body[0], ast.If)
    if ok:
        i = body[0]
        t = i.test
        ok = (isinstance(t, ast.Compare) and isinstance(t.left, ast.Name) and t.left.id == a[1] and len(t.ops) == 1
              and isinstance(t.ops[0], ast.In) and is_self_attr(t.comparators[0], "void_elements")
              and len(i.body) == 1 and len(i.orelse) == 1)
        if ok:
            c1, c2 = single_call(i.body[0]), single_call(i.orelse[0])
            ok = bool(c1 and c2 and c1[0] == "nest_vtag" and c2[0] == "nest_tag"
                      and all([getattr(x, "id", None) for x in c[1]] == a[1:3] for c in (c1, c2)))
    if not ok:
        fail(fn, "handle_starttag has an unexpected shape")


def check_startend(fn):
    body = strip_doc(fn.body)
    a = arg_names(fn)
    sc = single_call(body[0]) if len(body) == 1 else None
    if not (sc and sc[0] == "nest_xtag" and [getattr(x, "id", None) for x in sc[1]] == a[1:3]):
        fail(fn, "handle_startendtag has an unexpected shape")


def check_end(fn):
    """if name not in self.void_elements: self.struct.enclose(name)"""
    body = strip_doc(fn.body)
    a = arg_names(fn)
    ok = len(body) == 1 and isinstance(body[0], ast.If) and not body[0].orelse and len(body[0].body) == 1
    if ok:
        t = body[0].test
        sc = single_call(body[0].body[0])
        ok = (isinstance(t, ast.Compare) and isinstance(t.left, ast.Name) and t.left.id == a[1] and len(t.ops) == 1
              and isinstance(t.ops[0], ast.NotIn) and is_self_attr(t.comparators[0], "void_elements")
              and bool(sc) and sc[0] == "enclose" and [getattr(x, "id", None) for x in sc[1]] == a[1:2])
    if not ok:
        fail(fn, "handle_endtag has an unexpected shape")


def check_marked_section(fn):
    """try: return super().parse_marked_section(i, report)  except AssertionError: return self.parse_bogus_comment(i)
    (parser internals: which events html.parser emits is the oracle's business; only the shape is pinned)"""
    body = strip_doc(fn.body)
    ok = len(body) == 1 and isinstance(body[0], ast.Try) and len(body[0].body) == 1 and isinstance(body[0].body[0], ast.Return) \
        and len(body[0].handlers) == 1 and not body[0].orelse and not body[0].finalbody
    if ok:
        h = body[0].handlers[0]
        ok = (isinstance(h.type, ast.Name) and h.type.id == "AssertionError" and len(h.body) == 1
              and isinstance(h.body[0], ast.Return) and isinstance(h.body[0].value, ast.Call)
              and is_self_attr(h.body[0].value.func, "parse_bogus_comment"))
    if not ok:
        fail(fn, "parse_marked_section has an unexpected shape")


def check_fresh_instance(tree, hs):
    """The history tie: tokenize_html builds a new HtmlToAst per call, __init__ builds a new Tree,
    feed() clears the tree before feeding.  (Model: Html/HtmlModel.v `tokenize` starts from init_tree and
    a fresh parser state.)"""
    fn = next((n for n in tree.body if isinstance(n, ast.FunctionDef) and n.name == "tokenize_html"), None)
    if fn is None:
        raise GenError("tokenize_html not found")
    body = strip_doc(fn.body)
    a = arg_names(fn)
    if fn.decorator_list or hs["feed"].decorator_list or hs["__init__"].decorator_list:
        fail(fn, "decorated entry point (caching?)")
    ok = len(body) == 2 and isinstance(body[0], ast.Assign) and len(body[0].targets) == 1 \
        and isinstance(body[0].targets[0], ast.Name) and isinstance(body[0].value, ast.Call) \
        and getattr(body[0].value.func, "id", None) == "HtmlToAst" \
        and [getattr(x, "id", None) for x in body[0].value.args] == a[1:2] and isinstance(body[1], ast.Return)
    if ok:
        local = body[0].targets[0].id
        r = body[1].value
        ok = (isinstance(r, ast.Call) and isinstance(r.func, ast.Attribute) and r.func.attr == "feed"
              and getattr(r.func.value, "id", None) == local and [getattr(x, "id", None) for x in r.args] == a[0:1])
    if not ok:
        fail(fn, "tokenize_html does not create a new HtmlToAst and feed it the text")
    init = strip_doc(hs["__init__"].body)
    ia = arg_names(hs["__init__"])
    ok = len(init) == 2 and isinstance(init[1], ast.Assign) and is_self_attr(init[1].targets[0], "struct") \
        and isinstance(init[1].value, ast.Call) and getattr(init[1].value.func, "id", None) == "Tree" \
        and [getattr(x, "id", None) for x in init[1].value.args] == ia[1:2]
    if not ok:
        fail(hs["__init__"], "HtmlToAst.__init__ does not build a new Tree(name)")
    feed = strip_doc(hs["feed"].body)
    fa = arg_names(hs["feed"])
    ok = len(feed) == 3
    if ok:
        c1 = feed[0]
        ok = (isinstance(c1, ast.Expr) and isinstance(c1.value, ast.Call) and isinstance(c1.value.func, ast.Attribute)
              and c1.value.func.attr == "clear" and is_self_attr(c1.value.func.value, "struct")
              and isinstance(feed[1], ast.Expr) and isinstance(feed[1].value, ast.Call)
              and isinstance(feed[1].value.func, ast.Attribute) and feed[1].value.func.attr == "feed"
              and isinstance(feed[1].value.func.value, ast.Call) and getattr(feed[1].value.func.value.func, "id", None) == "super"
              and [getattr(x, "id", None) for x in feed[1].value.args] == fa[1:2]
              and isinstance(feed[2], ast.Return) and isinstance(feed[2].value, ast.Attribute) and feed[2].value.attr == "outmost"
              and is_self_attr(feed[2].value.value, "struct"))
    if not ok:
        fail(hs["feed"], "HtmlToAst.feed is not clear(); super().feed(source); return self.struct.outmost")
    # no module-level parser instance
    for n in tree.body:
        if isinstance(n, (ast.Assign, ast.AnnAssign)) and any(
                isinstance(x, ast.Call) and getattr(x.func, "id", None) in ("HtmlToAst", "Tree") for x in ast.walk(n)):
            fail(n, "module-level HtmlToAst/Tree instance (state shared between calls)")


def nest_class(fn):
    """the class instantiated as `item = Cls(name, attrs)` in Tree.nest_*tag"""
    found = []
    for n in ast.walk(fn):
        if isinstance(n, ast.Assign) and isinstance(n.value, ast.Call) and isinstance(n.value.func, ast.Name) \
                and n.value.func.id in CLASS_KIND:
            a = arg_names(fn)
            if [getattr(x, "id", None) for x in n.value.args] != a[1:3] or n.value.keywords:
                fail(n, "unexpected constructor arguments")
            found.append(n.value.func.id)
    if len(found) != 1:
        fail(fn, "expected exactly one element construction")
    return CLASS_KIND[found[0]]


# ---------------------------------------------------------------- main

def generate(repo):
    src_path = Path(repo) / "myst_parser" / "parsers" / "parse_html.py"
    src = src_path.read_text()
    tree = ast.parse(src)
    classes = {n.name: n for n in tree.body if isinstance(n, ast.ClassDef)}

    def method(cls, name):
        if cls not in classes:
            raise GenError(f"class {cls} not found")
        for n in classes[cls].body:
            if isinstance(n, ast.FunctionDef) and n.name == name:
                return n
        return None

    out = ["(* GENERATED by gen/c16_html.py from myst_parser/parsers/parse_html.py - do not edit *)",
           "From Coq Require Import List NArith Bool.",
           "From MV Require Import Base.PyStr Html.HtmlTypes.",
           "Import ListNotations.", "Open Scope N_scope.", ""]

    # void_elements
    void = None
    for n in classes["HtmlToAst"].body:
        if isinstance(n, ast.Assign) and len(n.targets) == 1 and getattr(n.targets[0], "id", None) == "void_elements":
            if not (isinstance(n.value, ast.Set) and all(isinstance(e, ast.Constant) and isinstance(e.value, str) for e in n.value.elts)):
                fail(n, "void_elements is not a set of string constants")
            void = sorted({e.value for e in n.value.elts})
    if void is None:
        raise GenError("HtmlToAst.void_elements not found")
    out.append("(* HtmlToAst.void_elements *)")
    out.append("Definition void_elements : list str :=\n  [" + ";\n   ".join(coq_str(v) for v in void) + "].")
    out.append("")

    # interpreter tables
    from html.parser import HTMLParser
    cdata = sorted(HTMLParser.CDATA_CONTENT_ELEMENTS)
    out.append(f"(* html.parser.HTMLParser.CDATA_CONTENT_ELEMENTS of the running interpreter ({sys.version.split()[0]}) *)")
    out.append("Definition cdata_elements : list str := [" + "; ".join(coq_str(v) for v in cdata) + "].")
    spaces = [c for c in range(sys.maxunicode + 1) if chr(c).isspace()]
    out.append("(* code points with str.isspace() *)")
    out.append("Definition py_isspace : list N := [" + "; ".join(str(c) for c in spaces) + "].")
    out.append("")

    # module-level escape helpers used by Attribute.__str__
    ESCAPE_FUNCS.clear()
    for n in tree.body:
        if isinstance(n, ast.FunctionDef) and n.name == "escape_attr":
            out.append(f"(* {n.name} *)")
            out.append(f"Definition {n.name} (value : str) : str :=\n  {tr_escape_func(n)}.")
            ESCAPE_FUNCS.add(n.name)
    # Attribute.__str__
    fn = method("Attribute", "__str__")
    if fn is None:
        raise GenError("Attribute.__str__ not found")
    sep, body = tr_attr_str(fn)
    out.append("(* Attribute.__str__ *)")
    out.append(f"Definition attr_sep : str := {coq_str(sep)}.")
    out.append(f"Definition render_attr (key : str) (value : option str) : str :=\n  {body}.")
    out.append("")

    # render templates: every class deriving (transitively) from Element that is instantiable by the parser
    for cls in CLASS_KIND:
        fn = method(cls, "render")
        if fn is None:
            raise GenError(f"{cls}.render not found")
        out.append(f"(* {cls}.render *)")
        out.append(f"Definition render_{cls} (name : str) (has_attrs : bool) (attrs_s : str) (data : str) (children_s : str) : str :=\n  {tr_render(fn)}.")
    out.append("")

    # Tree.nest_*: the class constructed
    for m in ("nest_tag", "nest_xtag", "nest_vtag"):
        fn = method("Tree", m)
        if fn is None:
            raise GenError(f"Tree.{m} not found")
        out.append(f"Definition k_{m} : kind := {nest_class(fn)}.")
    # handlers
    hs = {n.name: n for n in classes["HtmlToAst"].body if isinstance(n, ast.FunctionDef)}
    if "parse_marked_section" in hs:
        check_marked_section(hs.pop("parse_marked_section"))
    expected = {"__init__", "feed", "handle_starttag", "handle_startendtag", "handle_endtag", "handle_data", "handle_decl",
                "unknown_decl", "handle_charref", "handle_entityref", "handle_pi", "handle_comment"}
    if set(hs) != expected:
        raise GenError(f"HtmlToAst methods differ from the modelled set: {sorted(set(hs) ^ expected)}")
    check_fresh_instance(tree, hs)
    check_start(hs["handle_starttag"])
    check_startend(hs["handle_startendtag"])
    check_end(hs["handle_endtag"])
    for h in ("handle_data", "handle_decl", "unknown_decl", "handle_charref", "handle_entityref", "handle_pi", "handle_comment"):
        out.append(f"Definition k_{h} : kind := {tr_terminal_handler(hs[h])}.")
    out.append("")
    text = "\n".join(out) + "\n"
    info = {"sha": hashlib.sha256(text.encode()).hexdigest()[:16], "void": len(void), "isspace": len(spaces), "cdata": cdata}
    return text, info


if __name__ == "__main__":
    t, i = generate(sys.argv[1] if len(sys.argv) > 1 else "/repo")
    print(t)
    print(i, file=sys.stderr)
