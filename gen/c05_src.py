"""Round 3: regenerate CODE for C05 from myst_parser/mdit_to_docutils/base.py -> coq/Gen/SectSrc.v

  update_section_level_state   every statement translated (max over the comprehension -> res, lookup -> res, the warning
                               condition, parent.append, the dict store, the pruning dict comprehension)
  render_heading               level expression, parent_of_temp_root, the section-or-rubric test, the rubric node's level,
                               the call of update_section_level_state and the final current_node assignment; the statements
                               in RH_SKIP (line/source, attributes, classes, title node, inline children, heading target) are
                               dropped: they do not touch the observation of C05
  nested_render_text._restore  the save / set / restore statements around `yield`

Domain mapping (TRUSTED): the renderer is the record `st` of Sect/Sections.v: self._level_to_section = lvl (association list
in dict order), self._heading_offset = hoff, self.current_node = cur, md_env['temp_root_node'] = troot; a docutils node is an
`nref`; `x.append(y)` / create_warning(append_to=x) append an entry to the log; heading / section number i is a label of the
model; iteration over a dict = its keys; `max` of an empty generator = ValueError, d[k] of a missing key = KeyError;
isinstance(node, nodes.document | nodes.section) = is_doc_or_section (any other class set is refused: the model does not know
the classes of container nodes); `dict(d.items())` = d; reads hoisted out of `if temp_root_node is not None` are pure."""
from __future__ import annotations

import ast
from pathlib import Path

from gen.py2coq import Untranslatable, find_function


def u(n):
    return ast.unparse(n)


# ---------------------------------------------------------------- integer / boolean expressions over nat

def iexpr(e, env):
    if isinstance(e, ast.Name) and e.id in env:
        return env[e.id]
    if isinstance(e, ast.Constant) and isinstance(e.value, int) and not isinstance(e.value, bool) and e.value >= 0:
        return str(e.value)
    if isinstance(e, ast.BinOp) and isinstance(e.op, ast.Add):
        return f"({iexpr(e.left, env)} + {iexpr(e.right, env)})"
    if u(e) == "self._heading_offset":
        return "hoff s"
    if u(e) == "int(token.tag[1])":
        return "tag"
    raise Untranslatable("integer expression " + u(e))


def btest(t, env, extra=None):
    if extra is not None:
        r = extra(t)
        if r is not None:
            return r
    if isinstance(t, ast.BoolOp):
        op = "andb" if isinstance(t.op, ast.And) else "orb"
        out = btest(t.values[0], env, extra)
        for v in t.values[1:]:
            out = f"({op} {out} {btest(v, env, extra)})"
        return out
    if isinstance(t, ast.UnaryOp) and isinstance(t.op, ast.Not):
        return f"(negb {btest(t.operand, env, extra)})"
    if isinstance(t, ast.Compare) and len(t.ops) == 1:
        a, b = iexpr(t.left, env), iexpr(t.comparators[0], env)
        op = t.ops[0]
        if isinstance(op, ast.Gt):
            return f"({b} <? {a})"
        if isinstance(op, ast.Lt):
            return f"({a} <? {b})"
        if isinstance(op, ast.LtE):
            return f"({a} <=? {b})"
        if isinstance(op, ast.GtE):
            return f"({b} <=? {a})"
        if isinstance(op, ast.Eq):
            return f"({a} =? {b})"
        if isinstance(op, ast.NotEq):
            return f"(negb ({a} =? {b}))"
    if isinstance(t, ast.Name) and t.id in env:
        return env[t.id]
    raise Untranslatable("test " + u(t))


# ---------------------------------------------------------------- update_section_level_state

def gen_update(fn):
    if [a.arg for a in fn.args.args] != ["self", "section", "level"]:
        raise Untranslatable("update_section_level_state signature")
    env = {"level": "level"}
    body = [s for s in fn.body if not (isinstance(s, ast.Expr) and isinstance(s.value, ast.Constant))]
    out = []
    closers = []
    nodes_known = {}
    for s in body:
        # parent_level = max(v for v in self._level_to_section if TEST)
        if isinstance(s, ast.Assign) and len(s.targets) == 1 and isinstance(s.targets[0], ast.Name) \
                and isinstance(s.value, ast.Call) and u(s.value.func) == "max" and len(s.value.args) == 1 \
                and isinstance(s.value.args[0], ast.GeneratorExp) and not s.value.keywords:
            g = s.value.args[0]
            if len(g.generators) != 1:
                raise Untranslatable("max comprehension")
            c = g.generators[0]
            if not isinstance(c.target, ast.Name) or u(g.elt) != c.target.id or u(c.iter) != "self._level_to_section" or len(c.ifs) != 1:
                raise Untranslatable("max comprehension shape: " + u(g))
            v = c.target.id
            test = btest(c.ifs[0], dict(env, **{v: v}))
            name = s.targets[0].id
            out.append(f"match py_max (filter (fun {v} => {test}) (map fst (lvl s))) with Raise __e => Raise __e | Ok {name} =>")
            closers.append("end")
            env[name] = name
            continue
        # parent = self._level_to_section[parent_level]      (several targets allowed: a = b = d[k])
        if isinstance(s, ast.Assign) and all(isinstance(t, ast.Name) for t in s.targets) \
                and isinstance(s.value, ast.Subscript) and u(s.value.value) == "self._level_to_section":
            names = [t.id for t in s.targets]
            out.append(f"match dict_get (lvl s) {iexpr(s.value.slice, env)} with Raise __e => Raise __e | Ok {names[0]} =>")
            for n in names[1:]:
                out.append(f"let {n} := {names[0]} in")
            closers.append("end")
            for n in names:
                nodes_known[n] = n
            continue
        # if TEST: (message text ...) self.create_warning(msg, MystWarnings.MD_HEADING_NON_CONSECUTIVE, line=..., append_to=self.current_node)
        if isinstance(s, ast.If) and not s.orelse:
            calls = []
            for b in s.body:
                if isinstance(b, ast.Assign) and u(b.targets[0]) == "msg":
                    continue                                     # message text: not modelled
                if isinstance(b, ast.If) and not b.orelse and all(isinstance(x, ast.Assign) and u(x.targets[0]) == "msg" for x in b.body):
                    continue
                if isinstance(b, ast.Expr) and isinstance(b.value, ast.Call) and u(b.value.func) == "self.create_warning":
                    calls.append(b.value)
                    continue
                raise Untranslatable("statement under the warning condition: " + u(b)[:80])
            if len(calls) != 1:
                raise Untranslatable("expected exactly one create_warning under the condition")
            call = calls[0]
            kw = {k.arg: u(k.value) for k in call.keywords}
            if len(call.args) != 2 or u(call.args[1]) != "MystWarnings.MD_HEADING_NON_CONSECUTIVE" or kw.get("append_to") != "self.current_node":
                raise Untranslatable("create_warning arguments: " + u(call))
            out.append(f"let s := if {btest(s.test, env)} then append s (cur s) (IWarn section parent_level level) else s in")
            if "parent_level" not in env:
                raise Untranslatable("warning before parent_level is known")
            continue
        # parent.append(section)
        if isinstance(s, ast.Expr) and isinstance(s.value, ast.Call) and isinstance(s.value.func, ast.Attribute) \
                and s.value.func.attr == "append" and u(s.value.func.value) in nodes_known and [u(a) for a in s.value.args] == ["section"]:
            out.append(f"let s := append s {u(s.value.func.value)} (ISec section) in")
            continue
        # self._level_to_section[level] = section
        if isinstance(s, ast.Assign) and len(s.targets) == 1 and isinstance(s.targets[0], ast.Subscript) \
                and u(s.targets[0].value) == "self._level_to_section" and u(s.value) == "section":
            out.append(f"let s := set_lvl s (dict_set (lvl s) {iexpr(s.targets[0].slice, env)} (Sec section)) in")
            continue
        # self._level_to_section = {k: v for k, v in self._level_to_section.items() if TEST}
        if isinstance(s, ast.Assign) and u(s.targets[0]) == "self._level_to_section" and isinstance(s.value, ast.DictComp):
            d = s.value
            if len(d.generators) != 1:
                raise Untranslatable("dict comprehension")
            c = d.generators[0]
            if not (isinstance(c.target, ast.Tuple) and len(c.target.elts) == 2 and all(isinstance(x, ast.Name) for x in c.target.elts)) \
                    or u(c.iter) != "self._level_to_section.items()" or len(c.ifs) != 1 \
                    or u(d.key) != c.target.elts[0].id or u(d.value) != c.target.elts[1].id:
                raise Untranslatable("dict comprehension shape: " + u(d))
            k = c.target.elts[0].id
            test = btest(c.ifs[0], dict(env, **{k: k}))
            out.append(f"let s := set_lvl s (filter (fun __e => let {k} := fst __e in {test}) (lvl s)) in")
            continue
        raise Untranslatable("statement of update_section_level_state: " + u(s)[:100])
    return ("Definition update_section_level_state_src (s : st) (section level : nat) : res st :=\n"
            + "\n".join(out) + "\nOk s\n" + "\n".join(closers) + ".\n")


# ---------------------------------------------------------------- render_heading

RH_SKIP = {
    "self.add_line_and_source_path(rubric, token)",
    "self.copy_attributes(token, rubric, ('class', 'id'))",
    "self.generate_heading_target(token, level, rubric, rubric)",
    "self.add_line_and_source_path(new_section, token)",
    "title_node = nodes.title(token.children[0].content if token.children else '')",
    "self.add_line_and_source_path(title_node, token)",
    "new_section.append(title_node)",
    "self.copy_attributes(token, new_section, ('class', 'id'))",
    "if level == 1 and self.blocks_mathjax_processing:\n    new_section['classes'].extend(['tex2jax_ignore', 'mathjax_ignore'])",
    "with self.current_node_context(title_node):\n    self.render_children(token)",
    "self.generate_heading_target(token, level, new_section, title_node)",
}

POTR = ("self.md_env.get('temp_root_node', None) is not None and self.current_node == self.md_env['temp_root_node']")


def isinstance_test(t):
    # isinstance(self.current_node, nodes.document | nodes.section)
    if isinstance(t, ast.Call) and u(t.func) == "isinstance" and len(t.args) == 2 and u(t.args[0]) == "self.current_node":
        classes = set()

        def collect(e):
            if isinstance(e, ast.BinOp) and isinstance(e.op, ast.BitOr):
                collect(e.left); collect(e.right)
            elif isinstance(e, ast.Tuple):
                for x in e.elts:
                    collect(x)
            else:
                classes.add(u(e))
        collect(t.args[1])
        if classes != {"nodes.document", "nodes.section"}:
            raise Untranslatable("isinstance against %s: the model only knows document/section vs. other nodes" % sorted(classes))
        return "(is_doc_or_section (cur s))"
    return None


def gen_render_heading(fn):
    if [a.arg for a in fn.args.args] != ["self", "token"]:
        raise Untranslatable("render_heading signature")
    body = [s for s in fn.body if not (isinstance(s, ast.Expr) and isinstance(s.value, ast.Constant))]
    env = {}
    out = ["let i := nh s0 in", "let s := set_nh s0 (S i) in"]
    closers = []
    done = False
    for s in body:
        if done:
            raise Untranslatable("statement after the current_node assignment: " + u(s)[:80])
        src = u(s)
        if src in RH_SKIP:
            continue
        if isinstance(s, ast.Assign) and u(s.targets[0]) == "level":
            out.append(f"let level := {iexpr(s.value, env)} in")
            env["level"] = "level"
            continue
        if isinstance(s, ast.Assign) and u(s.targets[0]) == "parent_of_temp_root":
            if u(s.value) != POTR:
                raise Untranslatable("parent_of_temp_root = " + u(s.value))
            out.append("let parent_of_temp_root := match troot s with Some __r => nref_eqb (cur s) __r | None => false end in")
            env["parent_of_temp_root"] = "parent_of_temp_root"
            continue
        if isinstance(s, ast.If) and not s.orelse and isinstance(s.body[-1], ast.Return) and s.body[-1].value is None:
            test = btest(s.test, env, extra=isinstance_test)
            lvl_expr = None
            appended = False
            for b in s.body[:-1]:
                bs = u(b)
                if bs in RH_SKIP:
                    continue
                if isinstance(b, ast.Assign) and u(b.targets[0]) == "rubric" and isinstance(b.value, ast.Call) and u(b.value.func) == "nodes.rubric":
                    kw = {k.arg: k.value for k in b.value.keywords}
                    if set(kw) != {"level"}:
                        raise Untranslatable("rubric keywords " + bs)
                    lvl_expr = iexpr(kw["level"], env)
                    continue
                if bs == "with self.current_node_context(rubric, append=True):\n    self.render_children(token)":
                    appended = True
                    continue
                raise Untranslatable("statement of the rubric branch: " + bs[:80])
            if lvl_expr is None or not appended:
                raise Untranslatable("rubric branch incomplete")
            out.append(f"if {test} then Ok (append s (cur s) (IRub i {lvl_expr})) else")
            continue
        if src == "new_section = nodes.section()":
            continue
        if src == "self.update_section_level_state(new_section, level)":
            out.append("match update_section_level_state_src s i level with Raise __e => Raise __e | Ok s =>")
            closers.append("end")
            continue
        if src == "self.current_node = new_section":
            out.append("Ok (set_cur s (Sec i))")
            done = True
            continue
        raise Untranslatable("statement of render_heading: " + src[:100])
    if not done:
        raise Untranslatable("render_heading does not end with the current_node assignment")
    return ("Definition render_heading_src (tag : nat) (s0 : st) : res st :=\n" + "\n".join(out) + "\n" + "\n".join(closers) + ".\n")


# ---------------------------------------------------------------- nested_render_text / _restore

def gen_restore(fn):
    inner = [n for n in fn.body if isinstance(n, ast.FunctionDef) and n.name == "_restore"]
    if len(inner) != 1 or u(fn.body[-1]) != "with _restore():\n    self._render_tokens(tokens)":
        raise Untranslatable("nested_render_text shape")
    names = [a.arg for a in fn.args.args]
    if names != ["self", "text", "lineno", "inline", "temp_root_node", "heading_offset"]:
        raise Untranslatable("nested_render_text signature")
    env = {"heading_offset": "heading_offset"}
    out, closers = [], []
    seen_yield = False

    def stmt(s, cond):
        """cond: None, or the option-typed name the statement is guarded by (`if X is not None`)"""
        nonlocal seen_yield
        src = u(s)
        if isinstance(s, ast.Assign) and isinstance(s.targets[0], ast.Name):
            n, v = s.targets[0].id, u(s.value)
            if v == "self._heading_offset":
                out.append(f"let {n} := hoff s in"); env[n] = n
            elif v == "dict(self._level_to_section.items())":
                out.append(f"let {n} := lvl s in")
            elif v == "self.md_env.get('temp_root_node', None)":
                out.append(f"let {n} := troot s in")
            else:
                raise Untranslatable("_restore: " + src)
            return
        if isinstance(s, ast.Assign):
            t, v = u(s.targets[0]), s.value
            if t == "self._heading_offset":
                upd = f"set_hoff s {iexpr(v, env)}"
            elif t == "self.md_env['temp_root_node']" and isinstance(v, ast.Name):
                upd = f"set_troot s {v.id}"
            elif t == "self._level_to_section" and isinstance(v, ast.Name):
                upd = f"set_lvl s {v.id}"
            else:
                raise Untranslatable("_restore: " + src)
            if cond:
                out.append(f"let s := match {cond} with Some _ => {upd} | None => s end in")
            else:
                out.append(f"let s := {upd} in")
            return
        if isinstance(s, ast.If) and not s.orelse and isinstance(s.test, ast.Compare) and u(s.test).endswith(" is not None") \
                and isinstance(s.test.left, ast.Name) and cond is None:
            for b in s.body:
                stmt(b, s.test.left.id)
            return
        if isinstance(s, ast.Expr) and isinstance(s.value, ast.Yield) and s.value.value is None and cond is None and not seen_yield:
            seen_yield = True
            out.append("match rend s with Raise __e => Raise __e | Ok s =>")
            closers.append("end")
            return
        raise Untranslatable("_restore: " + src[:100])
    for s in inner[0].body:
        stmt(s, None)
    if not seen_yield:
        raise Untranslatable("_restore has no yield")
    return ("Definition nested_render_text_src (rend : st -> res st) (temp_root_node : option nref) (heading_offset : nat)\n"
            "  (s : st) : res st :=\n" + "\n".join(out) + "\nOk s\n" + "\n".join(closers) + ".\n")


def generate(repo: Path) -> str:
    tree = ast.parse((repo / "myst_parser/mdit_to_docutils/base.py").read_text())
    return "\n".join([
        "(* GENERATED by gen/c05_src.py from myst_parser/mdit_to_docutils/base.py - do not edit *)",
        "From Coq Require Import List Arith Bool.",
        "From MV Require Import Base.Res Sect.Sections.",
        "Import ListNotations.",
        "",
        "(* update_section_level_state *)",
        gen_update(find_function(tree, "update_section_level_state")),
        "(* render_heading: what matters for sections / rubrics *)",
        gen_render_heading(find_function(tree, "render_heading")),
        "(* nested_render_text: the _restore context manager around the rendering of the tokens *)",
        gen_restore(find_function(tree, "nested_render_text")),
    ])
