"""C13 translator: myst_parser/config/main.py -> coq/Gen/Config.v (fail-closed).

Read on every run with Python's ``ast``:

* every dataclass field of ``MdParserConfig`` (``name: annotation = dc.field(...)``): the annotation as a
  type descriptor, the ``metadata["validator"]`` expression as a validator tree, the metadata flags
  ``merge_topmatter`` / ``global_only`` / ``omit``, the default (``default=`` constant or
  ``default_factory=`` set / list / dict / ``lambda: {..constants..}``);
* the list literal of known extension names in ``check_extensions``.

Accepted grammar (anything else stops the run):

  annotation := bool | int | str | Any | None | Name | set[a] | Iterable[a] | Sequence[a] | dict[a, a]
              | tuple[a, a] | a "|" a | Callable[...]
  validator  := any_ | instance_of(T) | instance_of((T, ...)) | optional(v) | in_([int, ...])
              | deep_iterable(v[, v]) | deep_mapping(v, v, instance_of(dict)) | <name of a def check_* in the module>
  T          := bool | int | float | str | list | tuple | set | dict
  metadata keys: validator help extension omit global_only merge_topmatter repr_func doc_type deprecated

The semantics of the combinators and the bodies of the ``check_*`` functions are modelled by hand in
coq/Cfg/Cfg.v and tied by the correspondence check; this file only carries the declarative table.
"""
from __future__ import annotations

import ast
import hashlib
from pathlib import Path

SRC = "myst_parser/config/main.py"
PYTY = ["bool", "int", "float", "str", "list", "tuple", "set", "dict"]
PYTY_COQ = {"bool": "PyBool", "int": "PyInt", "float": "PyFloat", "str": "PyStr", "list": "PyList",
            "tuple": "PyTuple", "set": "PySet", "dict": "PyDict"}
META_KEYS = {"validator", "help", "extension", "omit", "global_only", "merge_topmatter", "repr_func", "doc_type",
             "deprecated"}


class Untranslatable(Exception):
    pass


def err(node, msg):
    raise Untranslatable(f"{SRC}:{getattr(node, 'lineno', '?')}: {msg}: {ast.unparse(node)[:100] if isinstance(node, ast.AST) else node}")


def coq_str(s: str) -> str:
    if not s:
        return "([] : str)"
    return "[" + ";".join(str(ord(c)) for c in s) + "]"


def cmt(s: str) -> str:
    return s.replace("(*", "( *").replace("*)", "* )").replace('"', "'")


# ---- annotations
def ann(e):
    if isinstance(e, ast.Constant) and e.value is None:
        return "ANone"
    if isinstance(e, ast.Name):
        return {"bool": "ABool", "int": "AInt", "str": "AStr", "Any": "AAny"}.get(e.id) or f"(AName {coq_str(e.id)})"
    if isinstance(e, ast.BinOp) and isinstance(e.op, ast.BitOr):
        return f"(AOr {ann(e.left)} {ann(e.right)})"
    if isinstance(e, ast.Subscript) and isinstance(e.value, ast.Name):
        base = e.value.id
        args = e.slice.elts if isinstance(e.slice, ast.Tuple) else [e.slice]
        if base == "Callable":
            return "ACallable"
        if base in ("set", "Iterable", "Sequence") and len(args) == 1:
            return f"({ {'set': 'ASet', 'Iterable': 'AIterable', 'Sequence': 'ASequence'}[base]} {ann(args[0])})"
        if base == "dict" and len(args) == 2:
            return f"(ADict {ann(args[0])} {ann(args[1])})"
        if base == "tuple" and len(args) == 2:
            return f"(ATuple2 {ann(args[0])} {ann(args[1])})"
    err(e, "annotation not understood")


# ---- validators
def pytys(e):
    if isinstance(e, ast.Name):
        if e.id not in PYTY:
            err(e, "instance_of of an unknown class")
        return [e.id], False
    if isinstance(e, ast.Tuple) and e.elts and all(isinstance(x, ast.Name) for x in e.elts):
        names = [x.id for x in e.elts]
        for n in names:
            if n not in PYTY:
                err(e, "instance_of of an unknown class")
        return sorted(set(names), key=PYTY.index), True
    err(e, "instance_of argument not understood")


def vexpr(e, customs):
    if isinstance(e, ast.Name):
        if e.id == "any_":
            return "VAny"
        if e.id in customs:
            return f"(VCustom {coq_str(e.id)})"
        err(e, "validator name is neither any_ nor a check_* function of the module")
    if isinstance(e, ast.Call) and isinstance(e.func, ast.Name) and not e.keywords:
        f, a = e.func.id, e.args
        if f == "instance_of" and len(a) == 1:
            ts, tup = pytys(a[0])
            return f"(VInstanceOf [{'; '.join(PYTY_COQ[t] for t in ts)}] {'true' if tup else 'false'})"
        if f == "optional" and len(a) == 1:
            return f"(VOptional {vexpr(a[0], customs)})"
        if f == "in_" and len(a) == 1 and isinstance(a[0], (ast.List, ast.Tuple)):
            vals = []
            for x in a[0].elts:
                if not (isinstance(x, ast.Constant) and type(x.value) is int):
                    err(x, "in_ option is not an int constant")
                vals.append(x.value)
            return "(VIn [" + "; ".join(f"({v})%Z" for v in vals) + "])"
        if f == "deep_iterable" and len(a) in (1, 2):
            it = vexpr(a[1], customs) if len(a) == 2 and not (isinstance(a[1], ast.Constant) and a[1].value is None) else "VAny"
            return f"(VDeepIterable {vexpr(a[0], customs)} {it})"
        if f == "deep_mapping" and len(a) == 3:
            m = vexpr(a[2], customs)
            if m != "(VInstanceOf [PyDict] false)":
                err(e, "deep_mapping whose mapping validator is not instance_of(dict) (the model iterates dict items)")
            return f"(VDeepMapping {vexpr(a[0], customs)} {vexpr(a[1], customs)} {m})"
    err(e, "validator expression not understood")


# ---- default values
def jv(e):
    if isinstance(e, ast.Constant):
        v = e.value
        if v is None:
            return "JNull"
        if v is True or v is False:
            return f"(JBool {'true' if v else 'false'})"
        if type(v) is int:
            return f"(JInt ({v})%Z)"
        if type(v) is str:
            return f"(JStr {coq_str(v)})"
    if isinstance(e, (ast.Tuple, ast.List, ast.Set)):
        k = {"Tuple": "JTuple", "List": "JList", "Set": "JSet"}[type(e).__name__]
        return f"({k} [{'; '.join(jv(x) for x in e.elts)}])"
    if isinstance(e, ast.Dict) and all(k is not None for k in e.keys):
        return "(JDict [" + "; ".join(f"({jv(k)}, {jv(v)})" for k, v in zip(e.keys, e.values)) + "])"
    err(e, "default value not understood")


def default_of(call):
    kws = {k.arg: k.value for k in call.keywords}
    if "default" in kws and "default_factory" in kws:
        err(call, "both default and default_factory")
    if "default" in kws:
        return jv(kws["default"])
    if "default_factory" in kws:
        f = kws["default_factory"]
        if isinstance(f, ast.Name) and f.id in ("set", "list", "dict"):
            return {"set": "(JSet [])", "list": "(JList [])", "dict": "(JDict [])"}[f.id]
        if isinstance(f, ast.Lambda) and not f.args.args:
            return jv(f.body)
        err(f, "default_factory not understood")
    err(call, "field without default")


# ---- _attr_to_optparse_option (parsers/docutils_.py)
OPT_SRC = "myst_parser/parsers/docutils_.py"
VALIDATOR_KIND = {
    "_validate_url_schemes": "KUrlSchemes", "_validate_int": "KInt", "frontend.validate_boolean": "KBool",
    "frontend.validate_comma_separated_list": "KCommaList", "_validate_comma_separated_set": "KCommaSet",
}


def opt_type(e):
    """a type expression in a test of the if-chain: like an annotation, with type(None) for None"""
    if isinstance(e, ast.Call) and ast.unparse(e) == "type(None)":
        return "ANone"
    if isinstance(e, ast.BinOp) and isinstance(e.op, ast.BitOr):
        return f"(AOr {opt_type(e.left)} {opt_type(e.right)})"
    return ann(e)


def opt_cond(e):
    if isinstance(e, ast.BoolOp) and isinstance(e.op, ast.Or) and len(e.values) == 2:
        return f"(COr {opt_cond(e.values[0])} {opt_cond(e.values[1])})"
    src = ast.unparse(e)
    if isinstance(e, ast.Compare) and len(e.ops) == 1 and len(e.comparators) == 1:
        left, op, right = ast.unparse(e.left), e.ops[0], e.comparators[0]
        if left == "at.name" and isinstance(op, ast.Eq) and isinstance(right, ast.Constant) and isinstance(right.value, str):
            return f"(CNameIs {coq_str(right.value)})"
        if left == "at.type" and isinstance(op, (ast.Is, ast.Eq)):
            return f"(CTypeIs {opt_type(right)})"
        if left == "at.type" and isinstance(op, ast.In) and isinstance(right, ast.Tuple):
            return "(CTypeIn [" + "; ".join(opt_type(x) for x in right.elts) + "])"
        if left == "get_origin(at.type)" and isinstance(op, ast.Is) and ast.unparse(right) == "dict":
            return "COriginDict"
    if src == "get_origin(at.type) is Literal and all((isinstance(a, str) for a in get_args(at.type)))":
        return "CLiteralStr"
    raise Untranslatable(f"{OPT_SRC}:{e.lineno}: test of _attr_to_optparse_option not understood: {src[:100]}")


def opt_kind(ret):
    """the returned ({...optparse kwargs...}, default_str): which validator decodes the string"""
    if not (isinstance(ret, ast.Return) and isinstance(ret.value, ast.Tuple) and len(ret.value.elts) == 2
            and isinstance(ret.value.elts[0], ast.Dict)):
        raise Untranslatable(f"{OPT_SRC}:{ret.lineno}: return of _attr_to_optparse_option not understood")
    d = ret.value.elts[0]
    kw = {}
    for k, v in zip(d.keys, d.values):
        if not (isinstance(k, ast.Constant) and isinstance(k.value, str)):
            raise Untranslatable(f"{OPT_SRC}:{ret.lineno}: optparse kwargs key not a literal")
        kw[k.value] = v
    if set(kw) - {"metavar", "validator", "type", "choices"}:
        raise Untranslatable(f"{OPT_SRC}:{ret.lineno}: unknown optparse kwargs {sorted(kw)}")
    if "type" in kw:
        if not (isinstance(kw["type"], ast.Constant) and kw["type"].value == "choice" and "validator" not in kw):
            raise Untranslatable(f"{OPT_SRC}:{ret.lineno}: optparse type not understood")
        return "KChoice"
    if "validator" not in kw:
        return "KStrRaw"
    v = kw["validator"]
    src = ast.unparse(v)
    if src in VALIDATOR_KIND:
        return VALIDATOR_KIND[src]
    if isinstance(v, ast.Call) and ast.unparse(v.func) == "_create_validate_tuple" and len(v.args) == 1 \
            and isinstance(v.args[0], ast.Constant) and type(v.args[0].value) is int and v.args[0].value >= 0:
        return f"(KTuple {v.args[0].value})"
    if isinstance(v, ast.Call) and ast.unparse(v.func) == "_create_validate_yaml":
        return "KYamlDict"
    raise Untranslatable(f"{OPT_SRC}:{ret.lineno}: option validator not understood: {src[:80]}")


def optparse_rules(repo: Path):
    src = (repo / OPT_SRC).read_text()
    tree = ast.parse(src)
    fn = [n for n in tree.body if isinstance(n, ast.FunctionDef) and n.name == "_attr_to_optparse_option"]
    if len(fn) != 1:
        raise Untranslatable(f"{OPT_SRC}: _attr_to_optparse_option not found")
    fn = fn[0]
    if [a.arg for a in fn.args.args] != ["at", "default"]:
        raise Untranslatable(f"{OPT_SRC}: signature of _attr_to_optparse_option changed")
    rules = []
    body = [st for st in fn.body if not (isinstance(st, ast.Expr) and isinstance(st.value, ast.Constant))]
    for st in body[:-1]:
        if not (isinstance(st, ast.If) and not st.orelse and len(st.body) in (1, 2)):
            raise Untranslatable(f"{OPT_SRC}:{st.lineno}: statement of the if-chain not understood")
        stmts = st.body
        if len(stmts) == 2:      # args = get_args(at.type); return {...}
            if ast.unparse(stmts[0]) != "args = get_args(at.type)":
                raise Untranslatable(f"{OPT_SRC}:{st.lineno}: statement before the return not understood")
        rules.append({"cond": opt_cond(st.test), "kind": opt_kind(stmts[-1]),
                      "src": " ".join(ast.unparse(st.test).split())})
    last = body[-1]
    if not (isinstance(last, ast.Raise) and "AssertionError" in ast.unparse(last)):
        raise Untranslatable(f"{OPT_SRC}: the if-chain does not end with raise AssertionError")
    return rules, hashlib.sha256(src.encode()).hexdigest()[:16]


def dc_validator_defs(repo: Path):
    """names of the validator (factory) functions defined in dc_validators.py"""
    tree = ast.parse((repo / "myst_parser/config/dc_validators.py").read_text())
    return [n.name for n in tree.body if isinstance(n, ast.FunctionDef) and n.name not in ("validate_field", "validate_fields")]


# ---- run-time writes to the parsing configuration (renderer.md_config / env.myst_config)
MUTATORS = {"add", "update", "append", "extend", "insert", "discard", "remove", "pop", "popitem", "clear", "setdefault",
            "sort", "reverse", "difference_update", "intersection_update", "symmetric_difference_update", "__setitem__",
            "__delitem__"}
CFG_ATTRS = ("md_config", "myst_config")
ALIAS_OK = {("myst_parser/parsers/sphinx_.py", "parse")}     # config = ...env.myst_config ; only passed on


def config_writes(repo: Path):
    """Every place of the package that writes to a field of the parsing configuration object:
    kind 'inplace' (mutates the container held by the field) or 'rebind' (assigns the attribute)."""
    sites = []
    for p in sorted((repo / "myst_parser").rglob("*.py")):
        rel = "myst_parser/" + p.relative_to(repo / "myst_parser").as_posix()
        tree = ast.parse(p.read_text())
        parent = {}
        for n in ast.walk(tree):
            for ch in ast.iter_child_nodes(n):
                parent[ch] = n

        def func_of(n):
            while n in parent:
                n = parent[n]
                if isinstance(n, (ast.FunctionDef, ast.Lambda)):
                    return getattr(n, "name", "<lambda>")
            return "<module>"
        for n in ast.walk(tree):
            # aliases of the configuration object
            if isinstance(n, ast.Assign) and isinstance(n.value, ast.Attribute) and n.value.attr in CFG_ATTRS \
                    and not (isinstance(n.targets[0], ast.Attribute) and n.targets[0].attr in CFG_ATTRS):
                if (rel, func_of(n)) not in ALIAS_OK:
                    raise Untranslatable(f"{rel}:{n.lineno}: the configuration object is bound to another name: {ast.unparse(n)[:80]}")
                name = n.targets[0].id if isinstance(n.targets[0], ast.Name) else None
                fn = n
                while fn in parent and not isinstance(fn, ast.FunctionDef):
                    fn = parent[fn]
                for u in ast.walk(fn):
                    if isinstance(u, ast.Name) and u.id == name and isinstance(u.ctx, ast.Load):
                        pu = parent.get(u)
                        if not (isinstance(pu, ast.Call) and u in pu.args) and not (isinstance(pu, ast.Assign)):
                            raise Untranslatable(f"{rel}:{u.lineno}: alias of the configuration object used other than as an argument")
            if not (isinstance(n, ast.Attribute) and isinstance(n.value, ast.Attribute) and n.value.attr in CFG_ATTRS):
                continue
            field, par = n.attr, parent.get(n)
            kind = None
            if isinstance(n.ctx, (ast.Store, ast.Del)):
                kind = "rebind"
            elif isinstance(par, ast.Attribute) and par.attr in MUTATORS and isinstance(parent.get(par), ast.Call) \
                    and parent[par].func is par:
                kind = "inplace"
            elif isinstance(par, ast.Subscript) and par.value is n and isinstance(par.ctx, (ast.Store, ast.Del)):
                kind = "inplace"
            elif isinstance(par, ast.AugAssign) and par.target is n:
                kind = "inplace"
            if kind:
                sites.append({"file": rel, "line": n.lineno, "func": func_of(n), "field": field, "kind": kind})
    return sites


def generate(repo: Path):
    src = (repo / SRC).read_text()
    tree = ast.parse(src)
    customs = {n.name for n in tree.body if isinstance(n, ast.FunctionDef) and n.name.startswith("check_")}
    # known extension names: the list literal passed to .difference(...) in check_extensions
    known = None
    for n in tree.body:
        if isinstance(n, ast.FunctionDef) and n.name == "check_extensions":
            for c in ast.walk(n):
                if isinstance(c, ast.Call) and isinstance(c.func, ast.Attribute) and c.func.attr == "difference":
                    if known is not None or len(c.args) != 1 or not isinstance(c.args[0], (ast.List, ast.Tuple, ast.Set)):
                        err(c, "check_extensions: .difference(...) argument not understood")
                    known = []
                    for x in c.args[0].elts:
                        if not (isinstance(x, ast.Constant) and isinstance(x.value, str)):
                            err(x, "extension name is not a string literal")
                        known.append(x.value)
    if known is None:
        raise Untranslatable("check_extensions: list of known extensions not found")
    cls = [n for n in tree.body if isinstance(n, ast.ClassDef) and n.name == "MdParserConfig"]
    if len(cls) != 1:
        raise Untranslatable("class MdParserConfig not found")
    decos = [ast.unparse(d) for d in cls[0].decorator_list]
    if decos != ["dc.dataclass()"]:
        raise Untranslatable(f"MdParserConfig decorators not understood: {decos}")
    fields = []
    for st in cls[0].body:
        if isinstance(st, (ast.FunctionDef, ast.Expr)):
            if isinstance(st, ast.FunctionDef) and st.name == "__post_init__":
                body = [ast.unparse(b) for b in st.body]
                if body != ["validate_fields(self)"]:
                    raise Untranslatable(f"__post_init__ is not 'validate_fields(self)': {body}")
            continue
        if not (isinstance(st, ast.AnnAssign) and isinstance(st.target, ast.Name)):
            err(st, "statement in MdParserConfig not understood")
        call = st.value
        if not (isinstance(call, ast.Call) and ast.unparse(call.func) == "dc.field" and not call.args):
            err(st, "field is not defined with dc.field(...)")
        kws = {k.arg: k.value for k in call.keywords}
        if set(kws) - {"default", "default_factory", "metadata", "repr"}:
            err(st, "dc.field keyword not understood")
        if "init" in kws:
            err(st, "init= not understood")
        md = kws.get("metadata")
        if not isinstance(md, ast.Dict):
            err(st, "metadata is not a dict literal")
        meta = {}
        for k, v in zip(md.keys, md.values):
            if not (isinstance(k, ast.Constant) and isinstance(k.value, str)):
                err(st, "metadata key is not a string literal")
            if k.value not in META_KEYS:
                err(k, "unknown metadata key")
            meta[k.value] = v
        if "validator" not in meta:
            err(st, "field without validator")

        def flag(name):
            v = meta.get(name)
            if v is None:
                return False
            if isinstance(v, ast.Constant) and isinstance(v.value, bool):
                return v.value
            err(v, f"{name} is not a bool literal")

        omit = []
        if "omit" in meta:
            v = meta["omit"]
            if not (isinstance(v, ast.List) and all(isinstance(x, ast.Constant) and x.value in ("docutils", "sphinx") for x in v.elts)):
                err(v, "omit is not a list of 'docutils'/'sphinx'")
            omit = [x.value for x in v.elts]
        doc_type = meta.get("doc_type")
        if doc_type is not None and not (isinstance(doc_type, ast.Constant) and isinstance(doc_type.value, str)):
            err(doc_type, "doc_type is not a string literal")
        fields.append({
            "name": st.target.id, "ann_src": ast.unparse(st.annotation), "ann": ann(st.annotation),
            "val_src": " ".join(ast.unparse(meta["validator"]).split()), "val": vexpr(meta["validator"], customs),
            "merge": flag("merge_topmatter"), "global_only": flag("global_only"),
            "omit_docutils": "docutils" in omit, "omit_sphinx": "sphinx" in omit,
            "default": default_of(call), "doc_type": doc_type.value if doc_type is not None else None,
        })
    if not fields:
        raise Untranslatable("no fields found")
    b = lambda x: "true" if x else "false"
    lines = ["(* GENERATED by gen/c13_config.py from myst_parser/config/main.py - do not edit. *)",
             "From Coq Require Import List NArith ZArith Bool.",
             "From MV Require Import Base.PyStr Cfg.Cfg.",
             "Import ListNotations.", "Open Scope N_scope.", "",
             "(* the list literal in check_extensions: " + cmt(", ".join(known)) + " *)",
             "Definition known_extensions : list str := [",
             ";\n".join(f"  {coq_str(k)}  (* {cmt(k)} *)" for k in known), "].", "",
             "Definition fields : list field := ["]
    rows = []
    for f in fields:
        rows.append(
            f"  (* {cmt(f['name'])}: {cmt(f['ann_src'])}   validator: {cmt(f['val_src'])}"
            + (f"   doc_type: {cmt(f['doc_type'])}" if f["doc_type"] else "") + " *)\n"
            f"  {{| f_name := {coq_str(f['name'])};\n     f_ann := {f['ann']};\n     f_val := {f['val']};\n"
            f"     f_merge := {b(f['merge'])}; f_global_only := {b(f['global_only'])};\n"
            f"     f_omit_docutils := {b(f['omit_docutils'])}; f_omit_sphinx := {b(f['omit_sphinx'])};\n"
            f"     f_default := {f['default']} |}}")
    lines.append(";\n".join(rows))
    lines += ["].", ""]
    rules, opt_hash = optparse_rules(repo)
    lines += ["(* the if-chain of parsers/docutils_.py _attr_to_optparse_option, in source order *)",
              "Definition optparse_rules : list (ocond * okind) := ["]
    lines.append(";\n".join(f"  ({r['cond']}, {r['kind']})  (* if {cmt(r['src'])} *)" for r in rules))
    lines += ["].", ""]
    writes = config_writes(repo)
    names = {f["name"] for f in fields}
    for w in writes:
        if w["field"] not in names:
            raise Untranslatable(f"{w['file']}:{w['line']}: write to an unknown configuration field {w['field']}")
    inplace = sorted({w["field"] for w in writes if w["kind"] == "inplace"})
    lines += ["(* fields of the parsing configuration whose container some code of the package mutates IN PLACE at run",
              "   time (X.md_config.<field>.add(..) etc.): " + cmt("; ".join(f"{w['file']}:{w['line']} {w['func']} {w['field']} {w['kind']}" for w in writes)) + " *)",
              "Definition inplace_written_fields : list str := ["]
    lines.append(";\n".join(f"  {coq_str(k)}  (* {cmt(k)} *)" for k in inplace))
    lines += ["].", ""]
    text = "\n".join(lines)
    return text, {"fields": fields, "known_extensions": known, "optparse_rules": rules, "config_writes": writes,
                  "dc_validator_defs": dc_validator_defs(repo), "customs": sorted(customs),
                  "hash": hashlib.sha256(src.encode()).hexdigest()[:16], "optparse_hash": opt_hash}


if __name__ == "__main__":
    import sys
    print(generate(Path(sys.argv[1] if len(sys.argv) > 1 else "/repo"))[0])
