"""Round 5: regenerate the CLI half of C10_matches_cli -> coq/Gen/AnchorsCliSrc.v

  mdit_py_plugins/anchors/index.py   anchors_plugin: defaults of min_level / permalink, selected_levels = list(range(a, b));
                                     _anchor_func: the `for idx, token in enumerate(state.tokens)` loop, statement by statement
  myst_parser/cli.py print_anchors   the keyword arguments of parser.use(anchors_plugin, ...) and the level filter

Domain mapping (TRUSTED): the token stream is represented by the list of its heading_open tokens (the loop `continue`s on
every other token), each with its level and the (type, content) children of the following inline token; `level in
list(range(a, b))` = a <= level < b; `slugs = set()` = []; unique_slug(s, slugs) is the regenerated unique_slug_src (returns the
slug and the updated set); token.attrSet("id", slug) = the heading's output Some slug (a skipped heading: None); the
`if permalink:` block is dropped after checking that permalink defaults to False and the CLI does not pass it; args.level = level."""
from __future__ import annotations

import ast
from pathlib import Path

from gen.py2coq import Untranslatable, find_function
from gen.c10_src import Expr


def u(n):
    return ast.unparse(n)


def nat_expr(e, env):
    if isinstance(e, ast.Name) and e.id in env:
        return env[e.id]
    if u(e) in env:
        return env[u(e)]
    if isinstance(e, ast.Constant) and isinstance(e.value, int) and not isinstance(e.value, bool) and e.value >= 0:
        return str(e.value)
    if isinstance(e, ast.BinOp) and isinstance(e.op, ast.Add):
        return f"({nat_expr(e.left, env)} + {nat_expr(e.right, env)})"
    if isinstance(e, ast.BinOp) and isinstance(e.op, ast.Sub):
        return f"({nat_expr(e.left, env)} - {nat_expr(e.right, env)})"
    raise Untranslatable("integer expression " + u(e))


def plugin_parts(src: str):
    tree = ast.parse(src)
    ap = find_function(tree, "anchors_plugin")
    names = [a.arg for a in ap.args.args]
    defaults = dict(zip(names[len(names) - len(ap.args.defaults):], ap.args.defaults))
    if not (isinstance(defaults.get("min_level"), ast.Constant) and isinstance(defaults["min_level"].value, int)):
        raise Untranslatable("anchors_plugin min_level default")
    if u(defaults.get("permalink")) != "False" or u(defaults.get("slug_func")) != "None":
        raise Untranslatable("anchors_plugin permalink / slug_func defaults")
    min_default = defaults["min_level"].value
    sel = [s for s in ap.body if isinstance(s, ast.Assign) and u(s.targets[0]) == "selected_levels"]
    if len(sel) != 1:
        raise Untranslatable("selected_levels assignment")
    v = sel[0].value
    if not (isinstance(v, ast.Call) and u(v.func) == "list" and len(v.args) == 1 and isinstance(v.args[0], ast.Call)
            and u(v.args[0].func) == "range" and len(v.args[0].args) == 2):
        raise Untranslatable("selected_levels = " + u(v))
    env = {"min_level": "min_level", "max_level": "max_level"}
    lo, hi = (nat_expr(a, env) for a in v.args[0].args)
    # the push: _make_anchors_func(selected_levels, slug_func or slugify, permalink, ...)
    push = [s for s in ap.body if isinstance(s, ast.Expr) and u(s.value).startswith("md.core.ruler.push('anchor', _make_anchors_func(selected_levels, slug_func or slugify, permalink,")]
    if len(push) != 1:
        raise Untranslatable("anchors_plugin does not push _make_anchors_func(selected_levels, slug_func or slugify, permalink, ...)")
    selected = ("Definition selected_src (min_level max_level level : nat) : bool :=\n"
                f"  ({lo} <=? level) && (level <? {hi}).\n")
    # _anchor_func
    fn = find_function(tree, "_anchor_func")
    body = [s for s in fn.body if not (isinstance(s, ast.Expr) and isinstance(s.value, ast.Constant))]
    if len(body) != 2 or u(body[0]) != "slugs: set[str] = set()" or not isinstance(body[1], ast.For):
        raise Untranslatable("_anchor_func shape")
    loop = body[1]
    if u(loop.target) != "(idx, token)" or u(loop.iter) != "enumerate(state.tokens)" or loop.orelse:
        raise Untranslatable("_anchor_func loop header")
    ex = Expr({"slugs": "strs"}, "inline_token.children")
    lines = []
    state = 0
    for s in loop.body:
        src = u(s)
        if src == "if token.type != 'heading_open':\n    continue" and state == 0:
            state = 1
        elif src == "level = int(token.tag[1])" and state == 1:
            lines.append("let level := h_level token in"); state = 2
        elif src == "if level not in selected_levels:\n    continue" and state == 2:
            lines.append("if negb (selected level) then match __go rest slugs with Raise __e => Raise __e | Ok __r => Ok (None :: __r) end else"); state = 3
        elif src == "inline_token = state.tokens[idx + 1]" and state == 3:
            lines.append("let children := h_children token in"); state = 4
        elif src == "assert inline_token.children is not None" and state == 4:
            pass
        elif isinstance(s, ast.Assign) and u(s.targets[0]) == "title" and state == 4:
            term, _ = ex(s.value, None)
            lines.append(f"let title := {term} in"); state = 5
        elif src == "slug = unique_slug(slug_func(title), slugs)" and state == 5:
            lines.append("match unique_slug_src (slug_func title) slugs with Raise __e => Raise __e | Ok (slug, slugs) =>"); state = 6
        elif src == "token.attrSet('id', slug)" and state == 6:
            lines.append("match __go rest slugs with Raise __e => Raise __e | Ok __r => Ok (Some slug :: __r) end\nend"); state = 7
        elif isinstance(s, ast.If) and u(s.test) == "permalink" and state == 7:
            pass        # permalink is False (checked above / in cli_parts)
        else:
            raise Untranslatable(f"_anchor_func statement (state {state}): " + src[:100])
    if state != 7:
        raise Untranslatable("_anchor_func loop incomplete")
    anchor = ("Fixpoint anchor_go_src (selected : nat -> bool) (slug_func : str -> str) (tokens : list heading) (slugs : list str)\n"
              "  {struct tokens} : res (list (option str)) :=\n"
              "let __go := anchor_go_src selected slug_func in\n"
              "match tokens with [] => Ok [] | token :: rest =>\n" + "\n".join(lines) + "\nend.\n"
              "Definition anchor_func_src (selected : nat -> bool) (slug_func : str -> str) (tokens : list heading)\n"
              "  : res (list (option str)) := anchor_go_src selected slug_func tokens [].\n")
    return min_default, selected, anchor


def cli_parts(src: str):
    fn = find_function(ast.parse(src), "print_anchors")
    uses = [n for n in ast.walk(fn) if isinstance(n, ast.Call) and u(n.func) == "parser.use" and n.args and u(n.args[0]) == "anchors_plugin"]
    if len(uses) != 1 or len(uses[0].args) != 1:
        raise Untranslatable("print_anchors: parser.use(anchors_plugin, ...)")
    kw = {k.arg: k.value for k in uses[0].keywords}
    if set(kw) != {"max_level"}:
        raise Untranslatable("print_anchors passes %s to anchors_plugin (expected only max_level)" % sorted(kw))
    env = {"args.level": "level"}
    max_level = nat_expr(kw["max_level"], env)
    mk = [n for n in ast.walk(fn) if isinstance(n, ast.Call) and u(n.func) == "create_md_parser"]
    if len(mk) != 1 or [u(a) for a in mk[0].args] != ["MdParserConfig()", "RendererHTML"]:
        raise Untranslatable("print_anchors: create_md_parser(MdParserConfig(), RendererHTML)")
    filt = [n for n in ast.walk(fn) if isinstance(n, ast.FunctionDef) and n.name == "_filter_plugin"]
    if len(filt) != 1 or len(filt[0].body) != 1 or not isinstance(filt[0].body[0], ast.Assign) or not isinstance(filt[0].body[0].value, ast.ListComp):
        raise Untranslatable("_filter_plugin shape")
    lc = filt[0].body[0].value
    if u(filt[0].body[0].targets[0]) != "state.tokens" or u(lc.elt) != "t" or len(lc.generators) != 1 or u(lc.generators[0].iter) != "state.tokens" \
            or len(lc.generators[0].ifs) != 1:
        raise Untranslatable("_filter_plugin comprehension")
    cond = lc.generators[0].ifs[0]
    if not (isinstance(cond, ast.BoolOp) and isinstance(cond.op, ast.And) and len(cond.values) == 2
            and u(cond.values[0]) == "t.type.startswith('heading_')" and isinstance(cond.values[1], ast.Compare)
            and len(cond.values[1].ops) == 1 and u(cond.values[1].left) == "int(t.tag[1])"):
        raise Untranslatable("_filter_plugin condition " + u(cond))
    op, rhs = cond.values[1].ops[0], nat_expr(cond.values[1].comparators[0], env)
    if isinstance(op, ast.LtE):
        test = f"(l <=? {rhs})"
    elif isinstance(op, ast.Lt):
        test = f"(l <? {rhs})"
    else:
        raise Untranslatable("_filter_plugin comparison")
    return max_level, test


def generate(repo: Path, plugin_file: Path) -> str:
    min_default, selected, anchor = plugin_parts(plugin_file.read_text())
    max_level, test = cli_parts((repo / "myst_parser/cli.py").read_text())
    return "\n".join([
        "(* GENERATED by gen/c10_cli.py from mdit_py_plugins/anchors/index.py and myst_parser/cli.py - do not edit *)",
        "From Coq Require Import List NArith Arith Bool.",
        "From MV Require Import Base.PyStr Base.Res Sect.Slug Sect.SlugSrcLib Gen.SlugSrc.",
        "Import ListNotations.",
        "Local Open Scope nat_scope.",
        "",
        "(* anchors_plugin: selected_levels = list(range(min_level, max_level + 1)) *)",
        selected,
        "(* _anchor_func: the id attribute of every heading_open token *)",
        anchor,
        "(* cli.py print_anchors: parser.use(anchors_plugin, max_level=...), min_level left at its default; the level filter *)",
        f"Definition cli_min_level_src : nat := {min_default}.",
        f"Definition cli_max_level_src (level : nat) : nat := {max_level}.",
        f"Definition cli_filter_src (level l : nat) : bool := {test}.",
        "Definition print_anchors_src (level : nat) (slug_func : str -> str) (tokens : list heading)",
        "  : res (list (nat * option str)) :=",
        "  match anchor_func_src (selected_src cli_min_level_src (cli_max_level_src level)) slug_func tokens with",
        "  | Raise e => Raise e",
        "  | Ok ids => Ok (filter (fun li => cli_filter_src level (fst li)) (combine (map h_level tokens) ids))",
        "  end.",
        "",
    ])
