"""C20 translator (fail-closed, Python ast): reads the working tree of the package and writes
coq/Gen/RawSites.v with

* every site that constructs ``nodes.raw(...)``: file, function, literal format (if any) and how
  the node reaches the tree (appended to ``self.current_node`` in a render method / returned to
  ``render_html_block`` which extends ``self.current_node`` / created by a transform);
* the position of the ``file_insertion_enabled`` test in ``MockIncludeDirective.run`` relative to
  every file-system call of that method;
* the shape of the ``raw_enabled`` loop in ``Parser.parse`` and its position after ``parser.render``.

Any shape it does not understand raises (the tie is then broken, DESIGN section 4)."""
from __future__ import annotations

import ast
import hashlib
from pathlib import Path

FS_CALLS = {"read_text", "read_bytes", "open", "relfn2path", "note_included", "exists", "is_file", "is_dir",
            "stat", "listdir", "glob", "iterdir", "FileInput", "add"}


class Unsupported(Exception):
    pass


def coq_str(s: str) -> str:
    return "[" + "; ".join(str(ord(c)) for c in s) + "]"


def is_nodes_raw(n):
    return isinstance(n, ast.Attribute) and n.attr == "raw" and isinstance(n.value, ast.Name) and n.value.id == "nodes"


def parents(tree):
    par = {}
    for node in ast.walk(tree):
        for ch in ast.iter_child_nodes(node):
            par[ch] = node
    return par


def enclosing(par, node, types):
    while node in par:
        node = par[node]
        if isinstance(node, types):
            return node
    return None


def attr_chain(n):
    out = []
    while isinstance(n, ast.Attribute):
        out.append(n.attr)
        n = n.value
    if isinstance(n, ast.Name):
        out.append(n.id)
        return list(reversed(out))
    return None


def scan_raw_sites(repo: Path):
    pkg = repo / "myst_parser"
    sites = []
    trees = {}
    for f in sorted(pkg.rglob("*.py")):
        rel = f.relative_to(repo).as_posix()
        src = f.read_text(encoding="utf8")
        if "raw" not in src:
            continue
        tree = ast.parse(src, filename=rel)
        trees[rel] = tree
        par = parents(tree)
        for node in ast.walk(tree):
            if isinstance(node, ast.ImportFrom) and node.module and node.module.startswith("docutils") and \
                    any(a.name == "raw" for a in node.names):
                raise Unsupported(f"{rel}:{node.lineno}: 'raw' imported by name")
            if isinstance(node, ast.Constant) and node.value == "raw" and isinstance(par.get(node), ast.Call) \
                    and getattr(par[node].func, "id", None) == "getattr":
                raise Unsupported(f"{rel}:{node.lineno}: getattr(..., 'raw')")
            if not is_nodes_raw(node):
                continue
            p = par.get(node)
            if isinstance(p, ast.Call) and p.func is node:
                sites.append((rel, p, par))
            elif isinstance(p, ast.Call) and node in p.args:
                # a use as a class: traverse(nodes.raw) / findall(..)(nodes.raw) / isinstance(x, nodes.raw)
                fn = p.func
                name = fn.attr if isinstance(fn, ast.Attribute) else getattr(fn, "id", None)
                ok = name in ("traverse", "findall", "isinstance") or (
                    isinstance(fn, ast.Call) and getattr(fn.func, "id", None) == "findall")
                if not ok:
                    raise Unsupported(f"{rel}:{node.lineno}: nodes.raw passed to {ast.dump(fn)[:80]}")
            else:
                raise Unsupported(f"{rel}:{node.lineno}: nodes.raw used in an unknown way")
    out = []
    for rel, call, par in sites:
        fn = enclosing(par, call, (ast.FunctionDef, ast.AsyncFunctionDef))
        if fn is None:
            raise Unsupported(f"{rel}:{call.lineno}: nodes.raw(...) at module level")
        fmt = None
        for kw in call.keywords:
            if kw.arg == "format" and isinstance(kw.value, ast.Constant) and isinstance(kw.value.value, str):
                fmt = kw.value.value
        sink = classify_sink(rel, call, fn, par, trees)
        out.append({"file": rel, "func": fn.name, "line": call.lineno, "format": fmt, "sink": sink})
    return out


def classify_sink(rel, call, fn, par, trees):
    p = par.get(call)
    # self.current_node.append(nodes.raw(...)) as a statement of a render_* method
    if isinstance(p, ast.Call) and call in p.args and attr_chain(p.func) == ["self", "current_node", "append"] \
            and isinstance(par.get(p), ast.Expr) and fn.name.startswith("render_") \
            and isinstance(enclosing(par, fn, ast.ClassDef), ast.ClassDef):
        return "SinkCurrentNode"
    # default_html: raw_html = nodes.raw(...); ...; return [raw_html]
    if rel.endswith("mdit_to_docutils/html_to_nodes.py") and fn.name == "default_html":
        if not (isinstance(p, ast.Assign) and len(p.targets) == 1 and isinstance(p.targets[0], ast.Name)):
            raise Unsupported(f"{rel}:{call.lineno}: default_html shape")
        var = p.targets[0].id
        rets = [n for n in ast.walk(fn) if isinstance(n, ast.Return)]
        if len(rets) != 1 or not (isinstance(rets[0].value, ast.List) and len(rets[0].value.elts) == 1
                                  and getattr(rets[0].value.elts[0], "id", None) == var):
            raise Unsupported(f"{rel}: default_html must return [raw_html]")
        check_html_route(trees)
        return "SinkRenderReturn"
    cls = enclosing(par, fn, ast.ClassDef)
    if cls is not None and any(getattr(b, "id", getattr(b, "attr", None)) in ("Transform", "SphinxTransform",
                                                                               "SphinxPostTransform") for b in cls.bases):
        return "SinkTransform"
    raise Unsupported(f"{rel}:{call.lineno}: nodes.raw(...) in {fn.name}: route into the tree not understood")


def check_html_route(trees):
    """default_html only feeds html_to_nodes' return values; html_to_nodes only feeds
    render_html_block, which extends self.current_node with the result"""
    for rel, tree in trees.items():
        par = parents(tree)
        for node in ast.walk(tree):
            if isinstance(node, ast.Call) and getattr(node.func, "id", None) == "default_html":
                fn = enclosing(par, node, ast.FunctionDef)
                ret = enclosing(par, node, ast.Return)
                if fn is None or fn.name != "html_to_nodes" or ret is None:
                    raise Unsupported(f"{rel}:{node.lineno}: default_html() outside a return of html_to_nodes")
            if isinstance(node, ast.Call) and getattr(node.func, "id", None) == "html_to_nodes":
                fn = enclosing(par, node, ast.FunctionDef)
                if fn is None or fn.name != "render_html_block":
                    raise Unsupported(f"{rel}:{node.lineno}: html_to_nodes() called outside render_html_block")
                body = fn.body
                if not (len(body) == 2 and isinstance(body[0], ast.Assign) and body[0].value is node
                        and isinstance(body[1], ast.Expr) and isinstance(body[1].value, ast.Call)
                        and attr_chain(body[1].value.func) == ["self", "current_node", "extend"]
                        and getattr(body[1].value.args[0], "id", None) == body[0].targets[0].id):
                    raise Unsupported(f"{rel}: render_html_block shape")


def find_class_method(tree, cls, meth):
    for node in ast.walk(tree):
        if isinstance(node, ast.ClassDef) and node.name == cls:
            for m in node.body:
                if isinstance(m, ast.FunctionDef) and m.name == meth:
                    return m
    raise Unsupported(f"{cls}.{meth} not found")


def scan_include(repo: Path):
    tree = ast.parse((repo / "myst_parser/mocking.py").read_text(encoding="utf8"))
    run = find_class_method(tree, "MockIncludeDirective", "run")
    stmts = [s for s in run.body if not isinstance(s, (ast.Import, ast.ImportFrom))
             and not (isinstance(s, ast.Expr) and isinstance(s.value, ast.Constant))]
    idx = None
    level = None
    for i, s in enumerate(stmts):
        if isinstance(s, ast.If) and isinstance(s.test, ast.UnaryOp) and isinstance(s.test.op, ast.Not) \
                and (attr_chain(s.test.operand) or [None])[-1] == "file_insertion_enabled":
            if attr_chain(s.test.operand) != ["self", "document", "settings", "file_insertion_enabled"]:
                raise Unsupported("file_insertion_enabled read from an unexpected object")
            if idx is not None:
                raise Unsupported("two file_insertion_enabled tests")
            if not (len(s.body) == 1 and isinstance(s.body[0], ast.Raise) and not s.orelse
                    and isinstance(s.body[0].exc, ast.Call) and getattr(s.body[0].exc.func, "id", None) == "DirectiveError"
                    and isinstance(s.body[0].exc.args[0], ast.Constant)):
                raise Unsupported("the file_insertion_enabled test must raise DirectiveError(level, ...)")
            idx, level, line = i, s.body[0].exc.args[0].value, s.lineno
    if idx is None:
        return {"index": 999, "level": 0, "fs_before": ["<no file_insertion_enabled test>"], "fs_total": 0}
    fs_before, total = [], 0
    for node in ast.walk(run):
        if isinstance(node, ast.Call):
            name = node.func.attr if isinstance(node.func, ast.Attribute) else getattr(node.func, "id", None)
            if name in FS_CALLS:
                total += 1
                if node.lineno < line:
                    fs_before.append(f"{name}@{node.lineno}")
    return {"index": idx, "level": level, "fs_before": fs_before, "fs_total": total}


def scan_parse_loop(repo: Path):
    tree = ast.parse((repo / "myst_parser/parsers/docutils_.py").read_text(encoding="utf8"))
    parse = find_class_method(tree, "Parser", "parse")
    render_line = None
    loop = None
    for node in ast.walk(parse):
        if isinstance(node, ast.Call) and attr_chain(node.func) == ["parser", "render"]:
            render_line = node.lineno
        if isinstance(node, ast.If) and "raw_enabled" in ast.dump(node.test):
            if loop is not None:
                raise Unsupported("two raw_enabled tests in Parser.parse")
            loop = node
    if loop is None:
        return {"exact": False, "after_render": False, "default_enabled": True, "top_level": False}
    t = loop.test
    guard_ok = (isinstance(t, ast.UnaryOp) and isinstance(t.op, ast.Not) and isinstance(t.operand, ast.Call)
                and getattr(t.operand.func, "id", None) == "getattr" and len(t.operand.args) == 3
                and attr_chain(t.operand.args[0]) == ["document", "settings"]
                and getattr(t.operand.args[1], "value", None) == "raw_enabled"
                and getattr(t.operand.args[2], "value", None) is True)
    if not guard_ok:
        raise Unsupported("raw_enabled guard is not `not getattr(document.settings, 'raw_enabled', True)`")
    exact = False
    if len(loop.body) == 1 and isinstance(loop.body[0], ast.For) and not loop.orelse:
        fr = loop.body[0]
        it = fr.iter
        if isinstance(it, ast.Call) and getattr(it.func, "id", None) in ("list", "tuple") and len(it.args) == 1 \
                and not it.keywords:
            it = it.args[0]          # list(document.findall(nodes.raw)): the same list
        it_ok = (isinstance(it, ast.Call) and attr_chain(it.func) in (["document", "traverse"], ["document", "findall"])
                 and len(it.args) == 1 and is_nodes_raw(it.args[0]) and not it.keywords)
        b = fr.body
        body_ok = (len(b) == 2 and isinstance(b[0], ast.Assign) and isinstance(b[0].value, ast.Call)
                   and attr_chain(b[0].value.func) == ["document", "reporter", "warning"]
                   and isinstance(b[1], ast.Expr) and isinstance(b[1].value, ast.Call)
                   and attr_chain(b[1].value.func) == [fr.target.id, "parent", "replace"]
                   and [getattr(a, "id", None) for a in b[1].value.args] == [fr.target.id, b[0].targets[0].id]
                   and not fr.orelse)
        # traverse() returns the list; findall() is a generator over the same nodes, and replacing an
        # item of a children list in place does not disturb it
        exact = it_ok and body_ok
    top_level = loop in parse.body
    after = render_line is not None and render_line < loop.lineno and not any(
        isinstance(n, ast.Return) for s in parse.body if getattr(s, "lineno", 0) > render_line
        and getattr(s, "lineno", 0) < loop.lineno for n in ast.walk(s))
    return {"exact": exact, "after_render": after, "default_enabled": True, "top_level": top_level}


def generate(repo: Path):
    sites = scan_raw_sites(repo)
    inc = scan_include(repo)
    loop = scan_parse_loop(repo)
    lines = ["(* GENERATED by gen/c20_rawsites.py from the working tree - do not edit *)",
             "From Coq Require Import List NArith Bool.",
             "From MV Require Import Base.PyStr Nest.Raw.",
             "Import ListNotations.", "Open Scope N_scope.", "",
             "Definition raw_sites : list raw_site := ["]
    rows = []
    for s in sites:
        fmt = "None" if s["format"] is None else f"Some {coq_str(s['format'])}"
        rows.append(f"  (* {s['file']}:{s['func']} format={s['format']!r} *)\n"
                    f"  {{| rs_file := {coq_str(s['file'])}; rs_func := {coq_str(s['func'])};\n"
                    f"     rs_format := {fmt}; rs_sink := {s['sink']} |}}")
    lines.append(";\n".join(rows))
    lines += ["].", "",
              f"(* MockIncludeDirective.run: index of the file_insertion_enabled test among the statements *)",
              f"Definition include_check_index : nat := {inc['index']}%nat.",
              f"Definition include_check_level : N := {inc['level']}.",
              "(* file-system calls that textually precede the test: " + ", ".join(inc["fs_before"]) + " *)",
              f"Definition include_fs_before_check : nat := {len(inc['fs_before'])}%nat.",
              f"Definition include_fs_calls : nat := {inc['fs_total']}%nat.", "",
              "(* Parser.parse: the raw_enabled loop is exactly `for node in document.traverse(nodes.raw):",
              "   warning = document.reporter.warning(...); node.parent.replace(node, warning)` *)",
              f"Definition raw_loop_exact : bool := {str(loop['exact']).lower()}.",
              f"Definition raw_loop_after_render : bool := {str(loop['after_render']).lower()}.",
              f"Definition raw_loop_top_level : bool := {str(loop['top_level']).lower()}.", ""]
    text = "\n".join(lines)
    info = {"sites": [{k: v for k, v in s.items()} for s in sites], "include": inc, "loop": loop,
            "sha": hashlib.sha256(text.encode()).hexdigest()[:16]}
    return text, info
