"""C20 source-translation tie: regenerate coq/Gen/RawSrc.v from the working tree.

* `post_process_src`: the `raw_enabled` block of `Parser.parse` (myst_parser/parsers/docutils_.py), statement by
  statement: guard, `for node in document.traverse(nodes.raw)` as a fold over `traverse_raw`, the two body
  statements as `raw_warning` / `parent_replace`.
* `include_run_src`: the head of `MockIncludeDirective.run` (myst_parser/mocking.py) from its first statement to
  the `nested_render_text` call: the file_insertion test, the standard-include branch and path resolution, the
  read, slicing, the :literal: / :code: returns, the circular-inclusion test.

Domain mapping = the RULES tables below (TRUSTED).  A statement that matches no rule raises Untranslatable."""
from __future__ import annotations

import ast
import re
from pathlib import Path

from gen.c06_walk import Walker, canonicalise_by_value, find_method, normalise
from gen.py2coq import Untranslatable

FS_NAMES = r"read_text|read_bytes|\bopen\(|FileInput|relfn2path|note_included|listdir|glob\(|\.stat\(|record_dependencies|urlopen"

LOOP_RULES = [
    (r"warning = document\.reporter\.warning\(.*\)",
     ("raw", "let warning := raw_warning in\nlet s := (fst s, S (snd s)) in\n{K}")),
    (r"node\.parent\.replace\(node, warning\)", ("state", "(parent_replace (fst s) node warning, snd s)")),
]
LOOP_TESTS = [(r"not getattr\(document\.settings, 'raw_enabled', True\)", "(negb raw_enabled)")]
LOOP_ITERS = [r"document\.traverse\(nodes\.raw\)", r"document\.findall\(nodes\.raw\)",
              r"list\(document\.findall\(nodes\.raw\)\)", r"list\(document\.traverse\(nodes\.raw\)\)"]


def gen_loop(repo: Path) -> str:
    tree = ast.parse((repo / "myst_parser/parsers/docutils_.py").read_text(encoding="utf8"))
    parse = canonicalise_by_value(find_method(tree, "Parser", "parse"), [
        (r"document\.reporter\.warning\(.*\)", "warning"),
        (r"(?:list\()?document\.(?:traverse|findall)\(nodes\.raw\)\)?", "node")])
    blocks = [s for s in parse.body if isinstance(s, ast.If) and "raw_enabled" in ast.unparse(s.test)]
    if len(blocks) != 1 or blocks[0].orelse:
        raise Untranslatable("Parser.parse: expected exactly one top-level `if ... raw_enabled ...:` without else")
    blk = blocks[0]
    render = [i for i, s in enumerate(parse.body) if "parser.render(inputstring)" in ast.unparse(s)]
    if not render or parse.body.index(blk) < render[-1]:
        raise Untranslatable("Parser.parse: the raw_enabled block does not follow parser.render(inputstring)")
    if any(isinstance(n, ast.Return) for s in parse.body[render[-1]:parse.body.index(blk)] for n in ast.walk(s)):
        raise Untranslatable("Parser.parse: a return between parser.render and the raw_enabled block")
    w = Walker(LOOP_RULES, LOOP_TESTS, state="s", final="s")
    test = w.test(blk.test)
    if len(blk.body) != 1 or not isinstance(blk.body[0], ast.For):
        raise Untranslatable("raw_enabled block: expected a single for loop")
    fr = blk.body[0]
    if fr.orelse or not isinstance(fr.target, ast.Name) or fr.target.id != "node":
        raise Untranslatable("raw_enabled loop: target")
    it = ast.unparse(fr.iter)
    if not any(re.fullmatch(rx, it) for rx in LOOP_ITERS):
        raise Untranslatable(f"raw_enabled loop iterates over {it}")
    body = w.block(list(fr.body))
    return ("(* the raw_enabled block of Parser.parse; s = (document, number of reporter.warning calls) *)\n"
            "Definition post_process_src (raw_enabled : bool) (document : dnode) : dnode * nat :=\n"
            "let s := (document, O) in\n"
            f"if {test} then\n(let s := fold_left (fun s node =>\n{body}) (traverse_raw (fst s)) s in s)\nelse s.\n")


GENERIC_ASSIGN = rf"(?![^\n]*(?:{FS_NAMES}))[^\n]+ = [^\n]+"

RUN_RULES = [
    (r"from docutils[^\n]* import [^\n]*", ("skip",)),
    (r"if not self\.document\.settings\.file_insertion_enabled:\n    raise DirectiveError\((\d+), 'F'\)",
     ("raw", "if negb (file_insertion_enabled st) then (HError {0} name, tr) else\n{K}")),
    (r"if include_arg\.startswith\('<'\) and include_arg\.endswith\('>'\):\n"
     r"    path = Path\(self\.klass\.standard_include_path\)\.joinpath\(include_arg\[1:-1\]\)\n"
     r"else:\n"
     r"    try:\n        sphinx_env = self\.document\.settings\.env\n    except AttributeError:\n        pass\n"
     r"    else:\n        _, include_arg = sphinx_env\.relfn2path\(self\.arguments\[0\]\)\n"
     r"        sphinx_env\.note_included\(include_arg\)\n    path = Path\(include_arg\)",
     ("raw", "let path := (if is_standard_arg arg then resolve_std (standard_inner arg) else resolve arg) in\n"
             "let tr := tr ++ (if has_sphinx_env st && negb (is_standard_arg arg) then [FsResolve arg] else []) in\n{K}")),
    (r"path = source_dir\.joinpath\(path\)", ("skip",)),
    (r"self\.document\.settings\.record_dependencies\.add\(str\(path\)\)", ("state", "tr ++ [FsDepend path]")),
    (r"try:\n    file_content = path\.read_text\(encoding=encoding, errors=error_handler\)\n"
     r"except FileNotFoundError as error:\n    raise DirectiveError\((\d+), 'F'\) from error\n"
     r"except Exception as error:\n    raise DirectiveError\((\d+), 'F'\) from error",
     ("raw", "let tr := tr ++ [FsRead path] in\nmatch fs path with\n| None => (HError {0} path, tr)\n"
             "| Some file_content =>\n{K}\nend")),
    (rf"if self\.renderer\.sphinx_env is not None:\n(?:(?!{FS_NAMES}).)*", ("skip",)),      # Sphinx include-read event
    (rf"for split_on_type in \['start-after', 'end-before'\]:\n(?:(?!{FS_NAMES}).)*",
     ("raw", "match slice file_content with\n| None => (HError 4 name, tr)\n| Some file_content =>\n{K}\nend")),
    (rf"if 'literal' in self\.options:\n(?:(?!{FS_NAMES}).)*return \[literal_block\]",
     ("raw", "if io_literal opts then (HLiteral file_content, tr) else\n{K}")),
    (rf"if 'code' in self\.options:\n(?:(?!{FS_NAMES}).)*return codeblock\.run\(\)",
     ("raw", "if io_code opts then (HCode file_content, tr) else\n{K}")),
    (rf"if include_key in include_log:\n(?:(?!{FS_NAMES}).)*raise DirectiveError\((\d+), 'F'\)",
     ("raw", "if circular path then (HError {0} name, tr) else\n{K}")),
    (rf"try:\n(?:(?!{FS_NAMES}).)*self\.renderer\.nested_render_text\(file_content, startline \+ 1, heading_offset="
     rf"(?:(?!{FS_NAMES}).)*\)\nfinally:\n(?:(?!{FS_NAMES}).)*",
     ("ret", "(HNested file_content, tr)")),
    (GENERIC_ASSIGN, ("skip",)),      # local bookkeeping on one line without a file-system call
]


# canonical names of the locals the RULES mention, by what they are first bound to
RUN_CANON = [
    (r"Path\(self\.document\['source'\]\)\.absolute\(\)\.parent", "source_dir"),
    (r"''\.join\(\[\w+\.strip\(\) for \w+ in self\.arguments\[0\]\.splitlines\(\)\]\)", "include_arg"),
    (r"Path\(self\.klass\.standard_include_path\)\.joinpath\(include_arg\[1:-1\]\)", "path"),
    (r"self\.document\.settings\.env", "sphinx_env"),
    (r"self\.options\.get\('encoding', self\.document\.settings\.input_encoding\)", "encoding"),
    (r"self\.document\.settings\.input_encoding_error_handler", "error_handler"),
    (r"path\.read_text\(encoding=encoding, errors=error_handler\)", "file_content"),
    (r"self\.options\.get\('start-line', None\)", "startline"),
    (r"self\.options\.get\('end-line', None\)", "endline"),
    (r"\['start-after', 'end-before'\]", "split_on_type"),
    (r"nodes\.literal_block\(file_content, .*\)", "literal_block"),
    (r"CodeBlock\(.*\)", "codeblock"),
    (r"self\.renderer\.md_env\.setdefault\('include_log', .*\)", "include_log"),
    (r"\(os\.path\.normpath\(path\), tuple\(.*\)\)", "include_key"),
]


def gen_run(repo: Path) -> str:
    tree = ast.parse((repo / "myst_parser/mocking.py").read_text(encoding="utf8"))
    run = canonicalise_by_value(find_method(tree, "MockIncludeDirective", "run"), RUN_CANON)
    w = Walker(RUN_RULES, [], state="tr", final="(HError 0 name, tr)")
    body = w.block(list(run.body))
    if "(HError 0 name, tr)" in body:
        raise Untranslatable("MockIncludeDirective.run may fall off the modelled head")
    return ("(* MockIncludeDirective.run from its first statement to the nested_render_text call; tr = file-system trace *)\n"
            "Definition include_run_src (st : settings) (opts : incl_opts) (name arg : str)\n"
            "    (resolve resolve_std : str -> str) (fs : str -> option str)\n"
            "    (slice : str -> option str) (circular : str -> bool) : head_out * list fs_event :=\n"
            "let tr := @nil fs_event in\n" + body + ".\n")


def generate(repo: Path) -> str:
    return ("(* GENERATED by gen/c20_src.py from myst_parser/parsers/docutils_.py and myst_parser/mocking.py - do not edit *)\n"
            "From Coq Require Import List Arith NArith Bool.\n"
            "From MV Require Import Base.PyStr Base.Res Nest.Raw.\n"
            "Import ListNotations.\nOpen Scope N_scope.\n\n" + gen_loop(repo) + "\n" + gen_run(repo))
