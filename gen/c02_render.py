"""Translator (fail-closed, Python ast): myst_parser/mdit_to_docutils/{base,sphinx_}.py -> coq/Gen/Render.v

Regenerated on every run of C02/C03:
  * the set of render_<type> methods of DocutilsRenderer and SphinxRenderer (= the `rules` dispatch table),
  * the ordered-list style map and its default (render_ordered_list),
  * the table alignment styles and the class each one produces (render_table_row),
  * the order of the dispatch tests in render_link and the method each one forwards to,
  * REGEX_SCHEME (must be the pattern the hand-written scheme_of models),
  * the literal raw nodes of render_hardbreak / render_s.
Any source shape that is not understood raises (the tie is then reported broken).
"""
from __future__ import annotations

import ast
import hashlib

from lib import common

BASE = "myst_parser/mdit_to_docutils/base.py"
SPHINX = "myst_parser/mdit_to_docutils/sphinx_.py"


class GenError(Exception):
    pass


def need(cond, msg):
    if not cond:
        raise GenError(msg)


def coq_str(s: str) -> str:
    need(all(32 <= ord(c) < 127 for c in s), f"non-ASCII/unprintable literal {s!r}")
    return 'lit "' + s.replace('"', '""') + '"'


def coq_list(items) -> str:
    return "[" + "; ".join(items) + "]"


def find_class(mod, name):
    for n in mod.body:
        if isinstance(n, ast.ClassDef) and n.name == name:
            return n
    raise GenError(f"class {name} not found")


def methods(cls):
    return {n.name: n for n in cls.body if isinstance(n, ast.FunctionDef)}


def body_wo_doc(fn):
    b = list(fn.body)
    if b and isinstance(b[0], ast.Expr) and isinstance(getattr(b[0], "value", None), ast.Constant) \
            and isinstance(b[0].value.value, str):
        b = b[1:]
    return b


def render_rules(cls):
    # __init__: rules = {k: v for k, v in inspect.getmembers(...) if k.startswith("render_") and k != "render_children"}
    return sorted(n[len("render_"):] for n in methods(cls) if n.startswith("render_") and n != "render_children")


def check_rules_comprehension(cls):
    init = methods(cls).get("__init__")
    need(init is not None, "DocutilsRenderer.__init__ missing")
    src = ast.unparse(init)
    need("k.startswith('render_') and k != 'render_children'" in src,
         "the rules table is no longer built from the render_* members: " + src[:300])


def olist_style(fn):
    default, table = None, None
    for st in ast.walk(fn):
        if isinstance(st, ast.Assign) and len(st.targets) == 1 and isinstance(st.targets[0], ast.Name) \
                and st.targets[0].id == "style":
            v = st.value
            if isinstance(v, ast.Constant) and isinstance(v.value, str):
                need(default is None, "two defaults for the list style")
                default = v.value
            elif isinstance(v, ast.Call) and isinstance(v.func, ast.Attribute) and v.func.attr == "get" \
                    and isinstance(v.func.value, ast.Dict):
                need(table is None, "two style maps")
                d = v.func.value
                need(all(isinstance(k, ast.Constant) and isinstance(x, ast.Constant) for k, x in zip(d.keys, d.values)),
                     "style map is not a dict of constants")
                table = [(k.value, x.value) for k, x in zip(d.keys, d.values)]
                need(ast.unparse(v.args[0]) == "str(token.attrs['style'])" and ast.unparse(v.args[1]) == "style",
                     "style map lookup changed: " + ast.unparse(v))
            else:
                raise GenError("unexpected assignment to style: " + ast.unparse(st))
    need(default is not None and table is not None, "render_ordered_list: style map not found")
    src = ast.unparse(fn)
    need("nodes.enumerated_list(enumtype=style, prefix='')" in src, "enumerated_list construction changed")
    need("list_node['suffix'] = token.markup" in src, "suffix no longer taken from markup")
    need("keys=('class', 'id', 'start')" in src, "ordered list attribute keys changed")
    return default, table


def table_align(fn):
    found = None
    for st in ast.walk(fn):
        if isinstance(st, ast.If):
            t = ast.unparse(st.test)
            if t.startswith("style and style in "):
                tup = st.test.values[1].comparators[0]
                need(isinstance(tup, ast.Tuple) and all(isinstance(e, ast.Constant) for e in tup.elts),
                     "alignment tuple is not a tuple of constants")
                styles = [e.value for e in tup.elts]
                need(len(st.body) == 1, "alignment branch changed")
                b = ast.unparse(st.body[0])
                need(b.replace('"', "'") == "entry['classes'].append(f'text-{cast(str, style).split(':')[1]}')",
                     "alignment class expression changed: " + b)
                found = [(s, "text-" + s.split(":")[1]) for s in styles]
    need(found is not None, "render_table_row: alignment test not found")
    src = ast.unparse(fn)
    need("style = child.attrGet('style')" in src, "cell style no longer read from the style attribute")
    return found


LINK_TESTS = [
    ("self.md_config.commonmark_only or self.md_config.gfm_only or self.md_config.all_links_external",
     "return self.render_link_url(token)", "LT_force_url"),
    ("'class' in token.attrs and 'external' in str(token.attrs['class']).split()",
     "return self.render_link_url(token)", "LT_class_external"),
    ("href.startswith('#')", "return self.render_link_anchor(token, href)", "LT_anchor"),
    ("scheme in self.md_config.url_schemes",
     "return self.render_link_url(token, self.md_config.url_schemes[scheme])", "LT_url_scheme"),
    ("scheme == 'inv'", "return self.render_link_inventory(token)", "LT_inv"),
    ("scheme == 'path'", "return self.render_link_path(token)", "LT_path"),
    ("scheme == 'project'", "return self.render_link_project(token)", "LT_project"),
    ("token.info == 'auto'", "return self.render_link_url(token)", "LT_auto"),
]
LINK_ASSIGNS = {
    "href = cast(str, token.attrGet('href') or '')",
    "scheme_match = REGEX_SCHEME.match(href)",
    "scheme = None if scheme_match is None else scheme_match.group(1)",
}


def link_dispatch(fn):
    order = []
    body = body_wo_doc(fn)
    need(body, "render_link is empty")
    last = body[-1]
    need(ast.unparse(last) == "return self.render_link_unknown(token)", "render_link no longer falls through to render_link_unknown")
    seen_assign = set()
    for st in body[:-1]:
        if isinstance(st, ast.Assign):
            s = ast.unparse(st)
            need(s in LINK_ASSIGNS, "render_link: unexpected statement " + s)
            seen_assign.add(s)
            continue
        need(isinstance(st, ast.If) and not st.orelse and len(st.body) == 1, "render_link: unexpected statement " + ast.unparse(st)[:200])
        t, b = ast.unparse(st.test), ast.unparse(st.body[0])
        for (tt, bb, name) in LINK_TESTS:
            if t == tt:
                need(b == bb, f"render_link: test {t!r} now does {b!r}")
                need(name not in order, "duplicated link test " + name)
                # data dependencies: href before anchor, scheme before the scheme tests
                if name == "LT_anchor":
                    need("href = cast(str, token.attrGet('href') or '')" in seen_assign, "href used before assignment")
                if name in ("LT_url_scheme", "LT_inv", "LT_path", "LT_project"):
                    need(len(seen_assign) == 3, "scheme used before assignment")
                order.append(name)
                break
        else:
            raise GenError("render_link: unknown dispatch test " + t)
    need(seen_assign == LINK_ASSIGNS, "render_link: assignments changed")
    return order


def regex_scheme(mod):
    for n in mod.body:
        if isinstance(n, ast.Assign) and ast.unparse(n.targets[0]) == "REGEX_SCHEME":
            need(ast.unparse(n.value) == "re.compile('^([a-zA-Z][a-zA-Z0-9+.-]*):')", "REGEX_SCHEME changed: " + ast.unparse(n.value))
            return "^([a-zA-Z][a-zA-Z0-9+.-]*):"
    raise GenError("REGEX_SCHEME not found")


def raw_literals(fn, expect_n):
    out = []
    for c in ast.walk(fn):
        if isinstance(c, ast.Call) and ast.unparse(c.func) == "nodes.raw":
            need(len(c.args) == 2 and all(isinstance(a, ast.Constant) for a in c.args) and c.args[0].value == ""
                 and len(c.keywords) == 1 and c.keywords[0].arg == "format" and isinstance(c.keywords[0].value, ast.Constant),
                 "raw node construction changed: " + ast.unparse(c))
            out.append((c.keywords[0].value.value, c.args[1].value))
    need(len(out) == expect_n, f"{fn.name}: expected {expect_n} raw nodes, found {len(out)}")
    return out


def generate():
    base_src = (common.REPO / BASE).read_text()
    sph_src = (common.REPO / SPHINX).read_text()
    base, sph = ast.parse(base_src), ast.parse(sph_src)
    D = find_class(base, "DocutilsRenderer")
    S = find_class(sph, "SphinxRenderer")
    need([ast.unparse(b) for b in S.bases] == ["DocutilsRenderer"], "SphinxRenderer base class changed")
    check_rules_comprehension(D)
    dm, sm = methods(D), methods(S)
    rules_d = render_rules(D)
    over = render_rules(S)
    rules_s = sorted(set(rules_d) | set(over))
    for m in ("render_ordered_list", "render_table_row", "render_link", "render_hardbreak", "render_s", "render_children",
              "current_node_context"):
        need(m in dm, f"{m} missing")
    default_style, style_map = olist_style(dm["render_ordered_list"])
    align = table_align(dm["render_table_row"])
    order = link_dispatch(dm["render_link"])
    pat = regex_scheme(base)
    hb = raw_literals(dm["render_hardbreak"], 2)
    ss = raw_literals(dm["render_s"], 2)
    for fmt, txt in hb + ss:
        need("\n" not in fmt, "format with newline")
    # current_node_context restores the saved node
    cnc = ast.unparse(dm["current_node_context"])
    need("current_node = self.current_node" in cnc and cnc.rstrip().endswith("self.current_node = current_node"),
         "current_node_context no longer saves/restores current_node")

    def nl(s):  # Coq string literal with the newline characters spliced in
        parts = s.split("\n")
        return " ++ [10] ++ ".join(coq_str(p) for p in parts)

    L = []
    L.append("(* GENERATED by gen/c02_render.py from %s and %s - do not edit. *)" % (BASE, SPHINX))
    L.append("From Coq Require Import List NArith.")
    L.append("From MV Require Import Base.PyStr.\nFrom MV Require Import Doc.Str.")
    L.append("Import ListNotations.")
    L.append("Open Scope N_scope.")
    L.append("")
    L.append("(* token types that have a render_<type> method (the `rules` table) *)")
    L.append("Definition rules_docutils : list str := Eval vm_compute in\n  %s." % coq_list(coq_str(r) for r in rules_d))
    L.append("Definition sphinx_overrides : list str := Eval vm_compute in\n  %s." % coq_list(coq_str(r) for r in over))
    L.append("Definition rules_sphinx : list str := Eval vm_compute in\n  %s." % coq_list(coq_str(r) for r in rules_s))
    L.append("")
    L.append("(* render_ordered_list: style attribute -> enumtype *)")
    L.append("Definition olist_default_style : str := Eval vm_compute in %s." % coq_str(default_style))
    L.append("Definition olist_style_map : list (str * str) := Eval vm_compute in\n  %s." %
             coq_list("(%s, %s)" % (coq_str(k), coq_str(v)) for k, v in style_map))
    L.append("")
    L.append("(* render_table_row: style attribute of a cell -> class appended to the entry *)")
    L.append("Definition table_align : list (str * str) := Eval vm_compute in\n  %s." %
             coq_list("(%s, %s)" % (coq_str(k), coq_str(v)) for k, v in align))
    L.append("")
    L.append("(* render_link: the dispatch tests in source order (falls through to render_link_unknown) *)")
    L.append("Inductive link_test := LT_force_url | LT_class_external | LT_anchor | LT_url_scheme | LT_inv | LT_path | LT_project | LT_auto.")
    L.append("Definition link_dispatch : list link_test := %s." % coq_list(order))
    L.append("")
    L.append("Definition regex_scheme_src : str := Eval vm_compute in %s." % coq_str(pat))
    L.append("")
    L.append("(* render_hardbreak / render_s: (format, text) of the raw nodes, in order *)")
    L.append("Definition hardbreak_raws : list (str * str) := Eval vm_compute in\n  %s." %
             coq_list("(%s, %s)" % (coq_str(f), nl(t)) for f, t in hb))
    L.append("Definition s_raws : list (str * str) := Eval vm_compute in\n  %s." %
             coq_list("(%s, %s)" % (coq_str(f), nl(t)) for f, t in ss))
    L.append("")
    return "\n".join(L), {"sources": common.src_hashes([BASE, SPHINX])}


def run(ctx=None):
    text, info = generate()
    common.write_if_changed(common.COQ / "Gen" / "Render.v", text)
    info["Gen/Render.v"] = hashlib.sha256(text.encode()).hexdigest()[:16]
    if ctx is not None:
        ctx.gen_info.update(info)
    return info


if __name__ == "__main__":
    print(run())
