"""Arrangements of footnote references and definitions for C11 and their Markdown rendering.

An arrangement is a list of items (the children of the document), each
   ["R", [labels]]                  a paragraph with references        (optional 3rd element = style:
                                    "para" | "table" (references in table cells) | "field" (field list body))
   ["D", label, [labels in body]]   a definition
   ["B", kind, [items...]]          a container holding items (any depth):
                                    "quote" block quote | "list" one-item bullet list | "dl" the definition of a
                                    definition list (its term is a separate leaf block) | "section" a heading
                                    (its title is the first leaf, references allowed) with everything after it
Every definition gets a unique body number (its position among the definitions, from 1).
"section" may only appear at top level and only sections may follow a section."""
from __future__ import annotations

import itertools


def render(arr):
    """-> (text, info); info: defs = [{label, body, line}], ref_labels = labels of the references in document
    order, not counting references written inside a duplicate definition (which is dropped as a whole)"""
    lines = []
    defs = []
    ref_labels = []
    seen = set()
    cnt = {"p": 0, "list": 0, "term": 0}

    def refs_txt(labels, word="x"):
        out = ""
        for l in labels:
            ref_labels.append(l)
            out += f" {word}[^{l}]"
        return out

    def emit(it, p1, pr):
        if it[0] == "R":
            style = it[2] if len(it) > 2 else "para"
            cnt["p"] += 1
            if style == "table":
                lines.append(p1 + "| h |")
                lines.append(pr + "|---|")
                lines.append(pr + f"| p{cnt['p']}{refs_txt(it[1])} |")
            elif style == "field":
                lines.append(p1 + f":fld{cnt['p']}: p{cnt['p']}{refs_txt(it[1])}")
            else:
                lines.append(p1 + f"p{cnt['p']}{refs_txt(it[1])}")
        elif it[0] == "D":
            body = len(defs) + 1
            d = {"label": it[1], "body": body, "line": None}
            defs.append(d)
            dup = it[1] in seen
            seen.add(it[1])
            out = f"[^{it[1]}]: body{body}z"
            for l in it[2]:
                if not dup:
                    ref_labels.append(l)
                out += f" y[^{l}]"
            lines.append(p1 + out)
            d["line"] = len(lines)
        else:
            kind, items = it[1], it[2]
            if kind == "quote":
                c1, cr = p1 + "> ", pr + "> "
            elif kind == "list":
                # consecutive lists get different markers, else Markdown merges them into one list
                mark = "-*+"[cnt["list"] % 3]
                cnt["list"] += 1
                c1, cr = p1 + mark + " ", pr + "  "
            elif kind == "dl":
                cnt["term"] += 1
                lines.append(p1 + f"Term{cnt['term']}")
                c1, cr = pr + ": ", pr + "  "
            elif kind == "section":
                c1, cr = p1, pr
                items = [["R", it[3] if len(it) > 3 else [], "title"]] + list(items)
            else:
                raise ValueError(kind)
            if not items:
                items = [["R", []]]
            for j, sub in enumerate(items):
                if j > 0:
                    lines.append(cr.rstrip())
                if kind == "section" and j == 0:
                    cnt["p"] += 1
                    lines.append(c1 + f"# h{cnt['p']}{refs_txt(sub[1])}")
                else:
                    emit(sub, c1 if j == 0 else cr, cr)

    for k, it in enumerate(arr):
        if k > 0:
            lines.append("")
        emit(it, "", "")
    return "\n".join(lines) + "\n", {"defs": defs, "ref_labels": ref_labels}


def to_model(arr):
    """the model document (Foot.doc) of an arrangement: nested lists ["R", labels] | ["D", label, body, labels] |
    ["B", items]; body numbers in document order"""
    n = [0]

    def conv(items):
        out = []
        for it in items:
            if it[0] == "R":
                out.append(["R", list(it[1])])
            elif it[0] == "D":
                n[0] += 1
                out.append(["D", it[1], n[0], list(it[2])])
            else:
                kind = it[1]
                if kind == "dl":
                    out.append(["R", []])                       # the term
                    out.append(["B", conv(it[2]) or [["R", []]]])
                elif kind == "section":
                    out.append(["B", [["R", list(it[3]) if len(it) > 3 else []]] + conv(it[2])])
                else:
                    out.append(["B", conv(it[2]) or [["R", []]]])
        return out
    return conv(arr)


def small_arrangements(labels, maxlen, with_box=True):
    """All sequences of <= maxlen events over: r(l) own paragraph, d(l) top-level, q(l) in its own block quote."""
    alpha = []
    for l in labels:
        alpha.append(["R", [l]])
        alpha.append(["D", l, []])
        if with_box:
            alpha.append(["B", "quote", [["D", l, []]]])
    for n in range(1, maxlen + 1):
        for t in itertools.product(alpha, repeat=n):
            yield [list(x) for x in t]


LABELS = ["a", "b", "c", "note", "1", "2", "3", "10", "7"]


def random_arrangement(rng, big=False):
    labs = rng.sample(LABELS, rng.randint(1, 5 if big else 4))
    extra = rng.choice(LABELS)          # sometimes referenced without a definition

    def pick():
        return rng.choice(labs) if rng.random() < 0.93 else extra

    def refs(maxn):
        return [pick() for _ in range(rng.randint(0, maxn))]

    def items(depth, n):
        out = []
        for _ in range(n):
            r = rng.random()
            if r < 0.4:
                style = rng.choice(["para", "para", "para", "table", "field"])
                if style == "field" and out and out[-1][0] == "R" and len(out[-1]) > 2 and out[-1][2] == "field":
                    style = "para"          # adjacent field lists merge into one block
                out.append(["R", refs(3), style])
            elif r < 0.7 or depth >= 3:
                out.append(["D", rng.choice(labs), [pick() for _ in range(rng.choice([0, 0, 0, 1, 2]))]])
            else:
                kind = rng.choice(["quote", "list", "dl", "quote", "list"])
                sub = items(depth + 1, rng.randint(1, 3))
                if kind == "list" and sub and sub[0][0] == "B" and sub[0][1] == "dl":
                    kind = "quote"      # "- Term" + ": def" is read by markdown-it as a term of a preceding definition list
                out.append(["B", kind, sub])
        return out

    arr = items(0, rng.randint(1, 10 if big else 6))
    if arr[0][0] == "R" and len(arr[0]) > 2 and arr[0][2] == "field":
        arr[0][2] = "para"      # a field list that opens a document is file-wide metadata (Sphinx drops it from the tree)
    if rng.random() < 0.3:
        # one or two headings: everything after a heading is inside its section
        k = rng.randint(0, len(arr))
        head, tail = arr[:k], arr[k:]
        if rng.random() < 0.4 and len(tail) > 1:
            m = rng.randint(1, len(tail) - 1)
            secs = [["B", "section", tail[:m], refs(2)], ["B", "section", tail[m:], refs(1)]]
        else:
            secs = [["B", "section", tail, refs(2)]]
        arr = head + secs
    return arr
