"""Arrangements of footnote references and definitions for C11 and their Markdown rendering.

An arrangement is a list of top-level items
   ["R", [labels]]                      paragraph with references
   ["D", label, [labels in body]]       top-level definition
   ["B", kind, [inner...]]              container, kind = "quote" | "list"; inner = ["r", [labels]] | ["d", label, [labels]]
Every definition gets a unique body number (its position among the definitions, from 1)."""
from __future__ import annotations

import itertools


def render(arr):
    """-> (text, info) ; info: defs = [{label, body, line, inbox}], ref_labels = labels of the references in
    document order, not counting references written inside a duplicate definition (which is dropped as a whole)"""
    lines = []
    defs = []
    ref_labels = []
    pno = [0]
    seen = set()

    def refs_txt(labels):
        pno[0] += 1
        out = f"p{pno[0]}"
        for l in labels:
            ref_labels.append(l)
            out += f" x[^{l}]"
        return out

    def def_txt(label, brefs, inbox):
        body = len(defs) + 1
        d = {"label": label, "body": body, "inbox": inbox, "line": None}
        defs.append(d)
        out = f"[^{label}]: body{body}z"
        dup = label in seen
        seen.add(label)
        for l in brefs:
            if not dup:
                ref_labels.append(l)
            out += f" y[^{l}]"
        return out, d

    nlist = [0]

    for it in arr:
        if it[0] == "R":
            if lines:
                lines.append("")
            lines.append(refs_txt(it[1]))
        elif it[0] == "D":
            if lines:
                lines.append("")
            t, d = def_txt(it[1], it[2], False)
            lines.append(t)
            d["line"] = len(lines)
        else:
            kind, inner = it[1], it[2]
            if lines:
                lines.append("")
            first = True
            for sub in inner:
                if kind == "quote":
                    if not first:
                        lines.append(">")
                    pre = "> "
                else:
                    if not first:
                        lines.append("")
                    # consecutive lists get different markers, else Markdown merges them into one list
                    pre = ("-*+"[nlist[0] % 3] + " ") if first else "  "
                if sub[0] == "r":
                    lines.append(pre + refs_txt(sub[1]))
                else:
                    t, d = def_txt(sub[1], sub[2], True)
                    lines.append(pre + t)
                    d["line"] = len(lines)
                first = False
            if not inner:
                lines.append("> q" if kind == "quote" else "-*+"[nlist[0] % 3] + " q")
            if kind == "list":
                nlist[0] += 1
    return "\n".join(lines) + "\n", {"defs": defs, "ref_labels": ref_labels}


def small_arrangements(labels, maxlen, with_box=True):
    """All sequences of <= maxlen events over: r(l) own paragraph, d(l) top-level, q(l) in its own block quote."""
    alpha = []
    for l in labels:
        alpha.append(["R", [l]])
        alpha.append(["D", l, []])
        if with_box:
            alpha.append(["B", "quote", [["d", l, []]]])
    for n in range(1, maxlen + 1):
        for t in itertools.product(alpha, repeat=n):
            yield [list(x) for x in t]


LABELS = ["a", "b", "c", "note", "1", "2", "3", "10", "7"]


def random_arrangement(rng, big=False):
    labs = rng.sample(LABELS, rng.randint(1, 5 if big else 4))
    extra = rng.choice(LABELS)          # sometimes referenced without a definition

    def pick():
        return rng.choice(labs) if rng.random() < 0.93 else extra

    arr = []
    for _ in range(rng.randint(1, 12 if big else 7)):
        r = rng.random()
        if r < 0.4:
            arr.append(["R", [pick() for _ in range(rng.randint(0, 3))]])
        elif r < 0.7:
            arr.append(["D", rng.choice(labs), [pick() for _ in range(rng.choice([0, 0, 0, 1, 2]))]])
        else:
            inner = []
            for _ in range(rng.randint(1, 3)):
                if rng.random() < 0.5:
                    inner.append(["r", [pick() for _ in range(rng.randint(0, 2))]])
                else:
                    inner.append(["d", rng.choice(labs), [pick() for _ in range(rng.choice([0, 0, 1]))]])
            arr.append(["B", rng.choice(["quote", "list"]), inner])
    return arr
