"""Generator of documents for C09: explicit targets, headings and '#'-links at various nesting
positions, where the generator knows which node each link must hit (independent of the
implementation and of the Coq model).  Everything is derived from the rng passed in."""
from __future__ import annotations

# (written title, slug, plain title text)   slugs follow the documented GitHub rule
TITLES = [("Alpha", "alpha", "Alpha"), ("Beta Two", "beta-two", "Beta Two"), ("gamma!", "gamma", "gamma!"),
          ("Delta `code`", "delta-code", "Delta code"), ("Tgt", "tgt", "Tgt"), ("", "", ""),
          # prefix-sharing titles: an earlier slug starts with "<base>-" of a title that is repeated later
          ("Notes 2", "notes-2", "Notes 2"), ("Notes", "notes", "Notes"), ("Usage", "usage", "Usage"),
          ("Usage guide", "usage-guide", "Usage guide"), ("Setup", "setup", "Setup")]
# footnote labels: a footnote registers its label as a name, but footnotes are not '#'-link targets
FOOT_LABELS = ["setup", "extra", "delta-code", "notes"]
# explicit names as written; registered form = lower-cased, whitespace collapsed
NAMES = ["tgt", "Alpha", "beta-two", "My  Name", "Cap", "x1", "gamma", "Omega"]
MISSING = ["nope", "alpha-9", "zz top"]


def norm(name):
    return " ".join(name.lower().split())


def gen_case(rng, want_empty_title=None):
    """Returns a json-able case: text, settings, links[], with expectations."""
    lines = []            # source lines
    targets = []          # dicts: name (normalised), kind, marker, title (or None)
    headings = []         # dicts: level, slug_base, title, marker, rubric
    links = []
    mk = [0]
    heading_anchors = rng.choice([0, 1, 2, 3, 3, 3])
    used_titles = {}
    names_pool = rng.sample(NAMES, rng.randint(2, 5))
    empty_ok = rng.random() < 0.3 if want_empty_title is None else want_empty_title

    def marker(prefix="mk"):
        mk[0] += 1
        return f"{prefix}{mk[0]}"

    def emit(block_lines, quote=False):
        if lines and lines[-1] != "":
            lines.append("")
        start = len(lines) + 1
        for ln in block_lines:
            lines.append(("> " + ln) if quote else ln)
        lines.append("")
        return start

    def add_heading(quote=False):
        cands = [t for t in TITLES if used_titles.get(t[1], 0) < (3 if t[1] in ("notes", "usage") else 2) and (t[0] != "" or empty_ok)]
        if cands and rng.random() < 0.35:
            pref = [t for t in cands if t[1] in ("notes", "notes-2", "usage", "usage-guide")]
            cands = pref or cands
        if not cands:
            return
        written, slug, plain = rng.choice(cands)
        level = rng.choice([1, 1, 2, 2, 3])
        used_titles[slug] = used_titles.get(slug, 0) + 1
        m = marker("hm")
        pre = None
        r = rng.random()
        name = None
        # also inside a block quote: there the heading becomes a rubric, which then carries the id
        if r < 0.25:
            name = rng.choice(names_pool)
            pre = f"({name})="
        elif r < 0.35 or (quote and r < 0.6):
            name = rng.choice([n for n in names_pool if " " not in n] or ["x1"])
            pre = "{#%s}" % name
        blk = ([pre] if pre else []) + [("#" * level + " " + written).rstrip(), "", m + " text"]
        emit(blk, quote=quote)
        h = {"level": level, "slug_base": slug, "title": plain, "marker": m, "rubric": quote}
        headings.append(h)
        if name is not None:
            targets.append({"name": norm(name), "kind": "heading", "marker": m,
                            "title": plain or None, "rubric": quote})

    def add_target():
        name = rng.choice(names_pool)
        kind = rng.choice(["t_block", "t_block", "a_block", "a_span", "d_adm", "d_note", "a_link", "t_dl", "t_fl"])
        quote = rng.random() < 0.25 and kind in ("t_block", "a_span")
        m = marker()
        title = None
        if kind in ("a_block", "a_span", "a_link") and " " in name:
            kind = "t_block"
        if kind == "t_fl" and not lines:
            kind = "t_block"     # a field list that opens a document is docinfo metadata
        if kind == "t_block":
            emit([f"({name})=", f"{m} para"], quote)
            tag = "paragraph"
        elif kind == "a_block":
            emit(["{#%s}" % name, f"{m} para"], quote)
            tag = "paragraph"
        elif kind == "a_span":
            emit([f"see [{m}]{{#{name}}} here"], quote)
            tag = "inline"
        elif kind == "t_dl":
            # a target before a definition list: the list carries the name, its title is the first term
            title = f"Term {m}"
            emit([f"({name})=", title, ": definition body"])
            tag = "definition_list"
        elif kind == "t_fl":
            title = f"fld{m}"
            emit([f"intro {m}"])          # directly after the document title a field list would be docinfo
            emit([f"({name})=", f":{title}: field body"])
            tag = "field_list"
        elif kind == "a_link":
            # an attribute id on an external link: the reference node carries the id
            emit([f"see [{m}](https://example.org/{m}){{#{name}}} there"], quote)
            tag = "reference"
        elif kind == "d_adm":
            title = f"Title {m}"
            emit([f"```{{admonition}} {title}", f":name: {name}", "", "body", "```"])
            tag = "admonition"
        else:
            emit(["```{note}", f":name: {name}", "", f"{m} body", "```"])
            tag = "note"
        targets.append({"name": norm(name), "kind": tag, "marker": m, "title": title})

    def add_links():
        n = rng.randint(1, 3)
        place = rng.choice(["para", "para", "list", "quote", "note", "table", "dl", "field", "footnote", "heading"])
        if place == "field" and not lines:
            place = "para"     # a field list that opens a document is file-wide metadata (docinfo), not content
        items = []
        for _ in range(n):
            lm = marker("lk")
            items.append({"id": lm, "src": "@@" + lm + "@@"})
        if place == "table":
            row = "| " + " | ".join(i["src"] for i in items) + " |"
            start = emit(["| " + " | ".join("h" for _ in items) + " |", "|" + "---|" * len(items), row])
            for i in items:
                i["line"] = start + 2
        elif place == "note":
            start = emit(["```{note}", "x " + " y ".join(i["src"] for i in items), "```"])
            for i in items:
                i["line"] = start + 1
        elif place == "dl":
            # first link in the term, the others in the definition
            start = emit(["Term " + items[0]["src"], ": x " + " y ".join(i["src"] for i in items[1:])])
            items[0]["line"] = start
            for i in items[1:]:
                i["line"] = start + 1
        elif place == "field":
            start = emit([":fld: x " + " y ".join(i["src"] for i in items)])
            for i in items:
                i["line"] = start
        elif place == "footnote":
            fm = marker("fn")
            emit([f"see[^{fm}]"])
            start = emit([f"[^{fm}]: x " + " y ".join(i["src"] for i in items)])
            for i in items:
                i["line"] = start
        elif place == "heading":
            hm = marker("Zed")
            start = emit([f"### {hm} " + " y ".join(i["src"] for i in items)])
            for i in items:
                i["line"] = start
        else:
            body = "x " + " y ".join(i["src"] for i in items)
            if place == "list":
                body = "- " + body
            start = emit([body], quote=(place == "quote"))
            for i in items:
                i["line"] = start
        for i in items:
            i["place"] = place
            links.append(i)

    foot_labels = []

    def add_footnote():
        cands = [l for l in FOOT_LABELS if l not in foot_labels]
        if not cands:
            return
        lab = rng.choice(cands)
        foot_labels.append(lab)
        m = marker("ft")
        emit([f"{m} note[^{lab}]"])
        emit([f"[^{lab}]: footnote text {m}"])

    n_blocks = rng.randint(3, 9)
    for _ in range(n_blocks):
        r = rng.random()
        if r < 0.1:
            add_footnote()
        elif r < 0.3:
            add_heading(quote=rng.random() < 0.12)
        elif r < 0.6:
            add_target()
        else:
            add_links()
    if not links:
        add_links()
    end_target = None
    if rng.random() < 0.15:
        name = rng.choice(names_pool)
        emit([f"({name})="])
        targets.append({"name": norm(name), "kind": "target", "marker": None, "title": None})

    # ---- expectations (documented semantics) ----
    count = {}
    for t in targets:
        count[t["name"]] = count.get(t["name"], 0) + 1
    explicit = {t["name"]: t for t in targets if count[t["name"]] == 1}
    slugs = {}
    for h in headings:
        if h["level"] > heading_anchors:
            continue
        # the documented rule: the base slug, else base-1, base-2, ... skipping slugs that are taken
        s = h["slug_base"]
        i = 1
        while s in slugs:
            s = f"{h['slug_base']}-{i}"
            i += 1
        slugs[s] = h
        h["slug"] = s
    text = "\n".join(lines) + "\n"
    valid = sorted(explicit)
    dups = sorted(n for n, c in count.items() if c > 1)
    variants = sorted({t_ for t_ in (n.upper() for n in valid) if t_ not in explicit and t_ not in slugs}
                      | {n for n in names_pool if norm(n) != n and n not in explicit and n not in slugs})
    for l in links:
        r = rng.random()
        if r < 0.35 and valid:
            frag = rng.choice(valid)
        elif r < 0.65 and slugs:
            frag = rng.choice(sorted(slugs))
        elif r < 0.75 and variants:
            frag = rng.choice(variants)
        elif r < 0.82 and dups:
            frag = rng.choice(dups)
        elif r < 0.86 and foot_labels:
            frag = rng.choice(foot_labels)          # only a footnote (or a heading slug) carries this name
        elif r < 0.92 and headings:
            frag = rng.choice(headings)["slug_base"] + rng.choice(["", "-1", "-2", "-3"])
        else:
            frag = rng.choice(MISSING)
        form = rng.choice(["text", "empty", "auto"])
        if form == "auto" and (" " in frag or frag == ""):
            form = "empty"
        if form == "text":
            src = f"[{l['id']}](<#{frag}>)" if " " in frag else f"[{l['id']}](#{frag})"
        elif form == "empty":
            src = f"[](<#{frag}>)" if " " in frag else f"[](#{frag})"
        else:
            src = f"<project:#{frag}>"
        text = text.replace(l["src"], src)
        l.update({"frag": frag, "form": form, "text": l["id"] if form == "text" else None, "src": src})
    for l in links:
        f = l["frag"]
        if f in explicit:
            t = explicit[f]
            l["expect"] = {"hit": "explicit", "kind": t["kind"], "marker": t["marker"], "title": t["title"],
                           "rubric": t.get("rubric", False)}
        elif f in slugs:
            h = slugs[f]
            l["expect"] = {"hit": "slug", "kind": "heading", "marker": h["marker"], "title": h["title"] or None,
                           "rubric": h["rubric"]}
        else:
            l["expect"] = {"hit": "missing"}
    settings = {"myst_enable_extensions": ["attrs_block", "attrs_inline", "deflist", "fieldlist"],
                "myst_heading_anchors": heading_anchors, "doctitle_xform": rng.random() < 0.5,
                "myst_footnote_sort": False}     # keeps links inside footnote bodies in written order
    return {"kind": "doc", "text": text, "settings": settings, "links": links,
            "dup_names": sorted(n for n, c in count.items() if c > 1)}
