"""Source translation for C12: the link classifier of SphinxRenderer / DocutilsRenderer.render_link and the decision
code of MystReferenceResolver are translated statement by statement from the working tree into Gallina definitions
over the XRefModel types (coq/Gen/C12Src.v).  coq/XRef/XRefSrcProofs.v proves each generated definition equal to the
hand-written model, so the C12 theorems are re-checked against what the code says now.

Fail-closed: every statement / expression shape that is not listed here raises Untranslatable (the tie is then broken).
The mapping  Python idiom |-> Gallina term  (LEAF, CALLS and the statement idioms below, with the vocabulary of
coq/XRef/XRefSrcBase.v) is the trusted part of the translation."""
from __future__ import annotations

import ast
import hashlib

from gen.py2coq import Untranslatable, find_function, coq_str as _coq_str
from lib import common


def cs(s: str) -> str:
    return _coq_str(s) if s else "(@nil N)"


# ---- leaves: exact source text of attribute chains / calls on self, token, node |-> (term, type)
LEAF = {
    "token.attrGet('href') or ''": ("(l_dest l)", "str"),
    "self.sphinx_env.srcdir": ("srcdir_set", "bool"),
    "self.sphinx_env.docname": ("(d_name d)", "str"),
    "self.env.docname": ("(d_name d)", "str"),
    "token.info != 'auto'": ("(negb (l_auto l))", "bool"),
    "token.info == 'auto'": ("(l_auto l)", "bool"),
    "len(token.children or []) > 0": ("(l_children l)", "bool"),
    "self.md_env.get('relative-docs', None)": ("(l_include l)", "oinc"),
    "self.md_config.commonmark_only": ("(p_commonmark_only P)", "bool"),
    "self.md_config.gfm_only": ("(p_gfm_only P)", "bool"),
    "self.md_config.all_links_external": ("(p_all_external P)", "bool"),
    "'class' in token.attrs": ("no_attrs", "bool"),
    "'external' in str(token.attrs['class']).split()": ("no_attrs", "bool"),
    "node['refexplicit']": ("explicit", "bool"),
    "node['reftarget']": ("reftarget", "str"),
    "node['reftargetid']": ("reftargetid", "ostr"),
    "node.get('refdoc', self.env.docname)": ("from", "str"),
    "node.get('refdoc', fromdocname)": ("from", "str"),
    "node[0].deepcopy()": ("(inner_of explicit)", "txt"),
    "inner.children": ("(txt_has_children v_inner)", "bool"),
    "node['reftype'] != 'myst'": ("(negb is_myst)", "bool"),
    "node['refdomain'] == 'doc'": ("is_doc", "bool"),
    "len(results) > 1": ("(more_than_one v_results)", "bool"),
    "newnode.children": ("true", "bool"),       # every candidate / fallback reference has exactly one child
}
# ---- calls by function text |-> (argument types, result builder, result type)
TRANSPARENT = {"cast", "str", "Path", "self.md.normalizeLinkText", "normalizeLink"}     # identity on the modelled domain


class Env(dict):
    def copy(self):
        e = Env(self)
        e.bound = set(self.bound)
        return e


class Walker:
    def __init__(self, fn: ast.FunctionDef, kind: str):
        self.fn, self.kind = fn, kind

    # ------------------------------------------------------------------ expressions
    def v(self, name, env):
        if name in env.bound:
            return f"v_{name}_"
        return f"v_{name}"

    def expr(self, e, env, want=None):
        t, ty = self._expr(e, env)
        if want and ty != want:
            if ty == "ostr" and want == "str":
                return f"(oget {t})", "str"
            if ty == "loc" and want == "str":
                return f"(abs_str P {t})", "str"
            if ty == "none" and want.startswith("o"):
                return "None", want
            raise Untranslatable(f"type {ty} where {want} expected: {ast.unparse(e)[:80]}")
        return t, ty

    def _expr(self, e, env):
        src = ast.unparse(e)
        if src in LEAF:
            return LEAF[src]
        if isinstance(e, ast.Constant):
            if isinstance(e.value, str):
                return cs(e.value), "str"
            if e.value is None:
                return "None", "none"
            if isinstance(e.value, bool):
                return ("true" if e.value else "false"), "bool"
            raise Untranslatable(f"constant {e.value!r}")
        if isinstance(e, ast.Name):
            if e.id not in env:
                raise Untranslatable(f"unknown name {e.id}")
            ty = env[e.id]
            if e.id in env.bound:
                ty = {"oloc": "loc", "oinc": "inc", "oref": "ref"}[ty]
            return self.v(e.id, env), ty
        if isinstance(e, ast.Call):
            f = ast.unparse(e.func)
            if f in TRANSPARENT and not e.keywords:
                return self._expr(e.args[-1], env)
            if isinstance(e.func, ast.Attribute) and e.func.attr == "startswith" and len(e.args) == 1:
                a, _ = self.expr(e.func.value, env, "str")
                b, _ = self.expr(e.args[0], env, "str")
                return f"(startswith {a} {b})", "bool"
            if isinstance(e.func, ast.Attribute) and e.func.attr == "lower" and not e.args:
                a, _ = self.expr(e.func.value, env, "str")
                return f"(lower {a})", "str"
            return self.call(f, e, env)
        if isinstance(e, ast.Subscript):
            if isinstance(e.slice, ast.Slice) and isinstance(e.slice.lower, ast.Constant) and e.slice.upper is None \
                    and e.slice.step is None:
                a, ty = self._expr(e.value, env)
                if ty == "str":
                    return f"(skipn {int(e.slice.lower.value)} {a})", "str"
            if isinstance(e.slice, ast.Constant) and e.slice.value == 0:
                a, ty = self._expr(e.value, env)
                if ty == "inc":
                    return f"(fst {a})", "str"
            raise Untranslatable(f"subscript {src[:80]}")
        if isinstance(e, ast.Compare) and len(e.ops) == 1:
            return self.compare(e, env)
        if isinstance(e, ast.BoolOp):
            op = "andb" if isinstance(e.op, ast.And) else "orb"
            out = self.test(e.values[0], env)
            for x in e.values[1:]:
                out = f"({op} {out} {self.test(x, env)})"
            return out, "bool"
        if isinstance(e, ast.UnaryOp) and isinstance(e.op, ast.Not):
            return f"(negb {self.test(e.operand, env)})", "bool"
        if isinstance(e, ast.IfExp):
            return self.ifexp(e, env)
        if isinstance(e, ast.JoinedStr):
            parts = []
            for p in e.values:
                if isinstance(p, ast.Constant):
                    parts.append(cs(p.value))
                elif isinstance(p, ast.FormattedValue) and p.conversion == -1 and p.format_spec is None:
                    parts.append(self.expr(p.value, env, "str")[0])
                else:
                    raise Untranslatable("f-string part")
            return "(" + " ++ ".join(parts) + ")", "str"
        raise Untranslatable(f"expression {src[:100]}")

    def call(self, f, e, env):
        a = e.args
        kw = {k.arg: k.value for k in e.keywords}

        def arg(i, want):
            return self.expr(a[i], env, want)[0]
        if f == "self._abs_path" and len(a) == 1:
            return f"(abs_path_src P d {arg(0, 'str')})", "oloc"
        if f == "self._handle_relative_docs" and len(a) == 1:
            return f"(handle_relative_docs_src P d l {arg(0, 'str')})", "str"
        if f == "self.sphinx_env.path2doc" and len(a) == 1:
            t, ty = self._expr(a[0], env)
            if ty == "loc":
                return f"(path2doc (p_suffixes P) {t})", "ostr"
            if ty == "oloc":      # unreachable None in the source: the call sits under a test of the argument
                return f"(match {t} with Some x_ => path2doc (p_suffixes P) x_ | None => None end)", "ostr"
            raise Untranslatable("path2doc argument")
        if f == "docname_join" and len(a) == 2:
            return f"(docname_join {arg(0, 'str')} {arg(1, 'str')})", "str"
        if f == "_is_file" and len(a) == 1:
            return f"(is_file P {arg(0, 'loc')})", "bool"
        if f == "os.access" and len(a) == 2 and ast.unparse(a[1]) == "os.R_OK":
            return f"(is_readable P {arg(0, 'loc')})", "bool"
        if f == "os.path.relpath" and len(a) == 2:
            return f"(relpath {arg(0, 'str')} {arg(1, 'str')})", "str"
        if f == "os.path.join" and len(a) == 2:
            return f"(pjoin {arg(0, 'str')} [{arg(1, 'str')}])", "str"
        if f == "os.path.normpath" and len(a) == 1:
            return f"(normpath {arg(0, 'str')})", "str"
        if f == "clean_astext" and len(a) == 1 and isinstance(a[0], ast.Subscript) \
                and ast.unparse(a[0].value) == "self.env.titles":
            return f"(title_of P {self.expr(a[0].slice, env, 'str')[0]})", "str"
        if f == "REGEX_SCHEME.match" and len(a) == 1:
            return f"(scheme_of {arg(0, 'str')})", "omatch"
        # ---- docutils / sphinx node constructors
        if f == "addnodes.pending_xref":
            self.check_kwargs(kw, env)
            dom = kw.get("refdomain")
            if isinstance(dom, ast.Constant) and dom.value == "doc":
                tid = self.expr(kw["reftargetid"], env, "ostr")[0]
                return f"(N_doc {self.expr(kw['reftarget'], env, 'str')[0]} {tid})", "wnode"
            if isinstance(dom, ast.Constant) and dom.value is None and "reftargetid" not in kw:
                return f"(N_any {self.expr(kw['reftarget'], env, 'str')[0]})", "wnode"
            raise Untranslatable("pending_xref refdomain")
        if f == "addnodes.download_reference":
            self.check_kwargs(kw, env)
            dom = kw.get("refdomain")
            if isinstance(dom, ast.Constant) and dom.value is None:
                return f"(N_dl {self.expr(kw['reftarget'], env, 'str')[0]})", "wnode"
            raise Untranslatable("download_reference refdomain")
        if f == "nodes.inline" and len(a) == 2:
            if isinstance(a[1], ast.Constant) and a[1].value == "":
                return "X_none", "txt"                      # inline(rawsource, ""): no text child
            if ast.unparse(a[0]) == ast.unparse(a[1]):
                return f"(X_str {arg(1, 'str')})", "txt"
            raise Untranslatable("nodes.inline arguments")
        if f == "nodes.literal" and len(a) == 2 and ast.unparse(a[0]) == ast.unparse(a[1]):
            return f"(X_lit {arg(1, 'str')})", "txt"
        if f == "make_refnode" and len(a) == 5 and ast.unparse(a[0]) == "self.app.builder":
            return (f"(make_refnode (p_dirhtml P) {arg(1, 'str')} {arg(2, 'str')} {arg(3, 'str')}, {arg(4, 'txt')})"), "ref"
        if f == "self._resolve_ref_nested" and [ast.unparse(x) for x in a] == ["node", "refdoc"]:
            return "(resolve_ref_nested_src P from explicit reftarget)", "oref"
        if f == "self._resolve_doc_nested" and [ast.unparse(x) for x in a] == ["node", "refdoc"]:
            return "(resolve_doc_nested_src P from explicit reftarget)", "oref"
        if f == "self._resolve_myst_ref_intersphinx" and [ast.unparse(x) for x in a] == ["node", "contnode", "target", "search_domains"]:
            return "(option_map cand_ref (intersphinx reftarget))", "oref"
        raise Untranslatable(f"call {ast.unparse(e)[:100]}")

    def check_kwargs(self, kw, env):
        """refdoc / reftype / refexplicit must be the standard ones (directly or through **kwargs)"""
        if None in kw:                                     # **kwargs
            if ast.unparse(kw[None]) != "kwargs" or env.get("kwargs") != "kwargs":
                raise Untranslatable("** argument")
            return
        if ast.unparse(kw.get("refdoc")) != "self.sphinx_env.docname" or ast.unparse(kw.get("reftype")) != "'myst'" \
                or ast.unparse(kw.get("refexplicit")) != "explicit":
            raise Untranslatable("refdoc/reftype/refexplicit arguments")

    def compare(self, e, env):
        op, l, r = e.ops[0], e.left, e.comparators[0]
        rs = ast.unparse(r)
        if isinstance(op, (ast.Is, ast.IsNot)) and isinstance(r, ast.Constant) and r.value is None:
            t, ty = self._expr(l, env)
            if ty in ("ref", "loc", "inc"):                 # known to be a value on this path
                return ("false" if isinstance(op, ast.Is) else "true"), "bool"
            if not ty.startswith("o"):
                raise Untranslatable("is None on a non-optional")
            return (f"(negb (is_some {t}))" if isinstance(op, ast.Is) else f"(is_some {t})"), "bool"
        if isinstance(op, (ast.In, ast.NotIn)):
            neg = isinstance(op, ast.NotIn)
            if rs in ("self.env.all_docs", "self.sphinx_env.found_docs"):
                t = f"(in_docs P {self.expr(l, env, 'str')[0]})"
            elif rs == "self.md_config.url_schemes":
                a, ty = self._expr(l, env)
                if ty != "ostr":
                    raise Untranslatable("scheme type")
                t = f"(match {a} with Some s_ => mem_str s_ (p_url_schemes P) | None => false end)"
            elif isinstance(r, ast.Name) and env.get(r.id) == "slugs":
                t = f"(slug_in v_{r.id} {self.expr(l, env, 'str')[0]})"
            elif isinstance(l, ast.Constant) and isinstance(l.value, str):
                t = f"(contains {self.expr(r, env, 'str')[0]} {cs(l.value)})"
            else:
                raise Untranslatable(f"membership {ast.unparse(e)[:80]}")
            return (f"(negb {t})" if neg else t), "bool"
        if isinstance(op, ast.Eq) and isinstance(r, ast.Constant) and isinstance(r.value, str):
            a, ty = self._expr(l, env)
            if ty == "ostr":
                return f"(opt_str_eqb {a} {cs(r.value)})", "bool"
        raise Untranslatable(f"comparison {ast.unparse(e)[:80]}")

    def ifexp(self, e, env):
        t, b, o = e.test, e.body, e.orelse
        # B[0] if B else None     (B = the rest of a split(..., maxsplit=1))
        if isinstance(t, ast.Name) and env.get(t.id) == "splitrest" and ast.unparse(b) == f"{t.id}[0]" \
                and ast.unparse(o) == "None":
            return f"v_{t.id}", "ostr"
        # B if SEP else None     (A, SEP, B = s.partition('#'))
        if isinstance(t, ast.Name) and isinstance(b, ast.Name) and env.get(t.id) == "partsep:" + b.id \
                and env.get(b.id) == "partrest" and ast.unparse(o) == "None":
            return f"v_{b.id}", "ostr"
        # None if M is None else M.group(1)
        if ast.unparse(b) == "None" and isinstance(t, ast.Compare) and isinstance(t.left, ast.Name) \
                and env.get(t.left.id) == "omatch" and ast.unparse(t) == f"{t.left.id} is None" \
                and ast.unparse(o) == f"{t.left.id}.group(1)":
            return f"v_{t.left.id}", "ostr"
        # F(X) if X else None    with X an optional location
        if isinstance(t, ast.Name) and env.get(t.id) == "oloc" and ast.unparse(o) == "None":
            env2 = env.copy()
            env2.bound.add(t.id)
            bt, bty = self._expr(b, env2)
            if bty == "loc":
                return f"(match v_{t.id} with Some v_{t.id}_ => Some {bt} | None => None end)", "oloc"
            if bty == "ostr":
                return f"(match v_{t.id} with Some v_{t.id}_ => {bt} | None => None end)", "ostr"
        # A if S else B   with S an optional string (truthiness), strings
        if isinstance(t, ast.Name) and env.get(t.id) == "ostr":
            return (f"(if ostr_truthy v_{t.id} then {self.expr(b, env, 'str')[0]} else {self.expr(o, env, 'str')[0]})"), "str"
        raise Untranslatable(f"conditional expression {ast.unparse(e)[:100]}")

    def test(self, t, env):
        """a Python truth test as a Coq bool"""
        if isinstance(t, ast.BoolOp) and isinstance(t.op, ast.Or) and isinstance(t.values[0], ast.Name) \
                and env.get(t.values[0].id) == "oloc" and len(t.values) == 2:
            # X or Y used as a string (in an f-string): the path if there is one
            raise Untranslatable("or on locations outside an f-string")
        term, ty = self._expr(t, env)
        if ty == "bool":
            return term
        if ty == "str":
            return f"(nonempty {term})"
        if ty == "ostr":
            return f"(ostr_truthy {term})"
        if ty in ("oloc", "oinc", "oref"):
            return f"(is_some {term})"
        if ty in ("ref", "loc", "inc"):                     # a value (docutils nodes are always true)
            return "true"
        if ty == "cands":
            return f"(negb (is_nil {term}))"
        raise Untranslatable(f"truth test on {ty}: {ast.unparse(t)[:80]}")

    # ------------------------------------------------------------------ statements
    def guard(self, t, env):
        """(polarity, var, remaining test) when the test starts by inspecting an optional that later code unwraps"""
        def opt(n):
            return isinstance(n, ast.Name) and env.get(n.id) in ("oloc", "oinc", "oref") and n.id not in env.bound
        if opt(t):
            return "some", t.id, None
        if isinstance(t, ast.Compare) and len(t.ops) == 1 and opt(t.left) and ast.unparse(t.comparators[0]) == "None":
            if isinstance(t.ops[0], ast.IsNot):
                return "some", t.left.id, None
            if isinstance(t.ops[0], ast.Is):
                return "none", t.left.id, None
        if isinstance(t, ast.BoolOp) and len(t.values) == 2:
            g = self.guard(t.values[0], env)
            if g and g[2] is None:
                if isinstance(t.op, ast.And) and g[0] == "some":
                    return "some", g[1], t.values[1]
                if isinstance(t.op, ast.Or) and g[0] == "none":
                    return "none", g[1], t.values[1]
        return None

    def stmts(self, body, env, warned):
        if not body:
            return self.fall_off(env, warned)
        s, rest = body[0], body[1:]
        if isinstance(s, ast.Expr) and isinstance(s.value, ast.Constant):
            return self.stmts(rest, env, warned)
        if isinstance(s, ast.Assert):
            return self.stmts(rest, env, warned)
        if isinstance(s, ast.AnnAssign) and isinstance(s.target, ast.Name):
            if s.value is None:
                return self.stmts(rest, env, warned)
            if isinstance(s.value, ast.Constant) and s.value.value is None:
                ann = {"None | Path": ("oloc", "(@None fsloc)")}.get(ast.unparse(s.annotation))
                if ann is None:
                    raise Untranslatable(f"annotation {ast.unparse(s.annotation)}")
                env = env.copy()
                env[s.target.id] = ann[0]
                return f"let v_{s.target.id} := {ann[1]} in\n{self.stmts(rest, env, warned)}"
            s = ast.fix_missing_locations(ast.copy_location(ast.Assign(targets=[s.target], value=s.value, type_comment=None), s))
        if isinstance(s, ast.FunctionDef) and s.name == "stringify":
            return self.stmts(rest, env, warned)            # only used to word the ambiguity message
        if isinstance(s, ast.Continue) and self.kind == "runnode":
            return "None"                                   # the node is left as it is
        if isinstance(s, ast.If) and ast.unparse(s.test) in (
                "len(newnode) > 0 and isinstance(newnode[0], nodes.Element)",      # class names of the result
                "len(node) and isinstance(node[0], nodes.Element)"):              # ids carried over (027ec44)
            if s.orelse or not all(isinstance(x, (ast.Assign, ast.Expr)) for x in s.body) \
                    or any(w in ast.unparse(s) for w in ("refid", "refuri", "append(", "replace_self", "log_warning")):
                raise Untranslatable("attribute bookkeeping block does more than set classes / ids")
            return self.stmts(rest, env, warned)
        if isinstance(s, ast.If) and ast.unparse(s.test) == \
                "len(newnode.children) == 1 and isinstance(newnode[0], nodes.inline) and (not newnode[0].children)":
            nn, ty = self._expr(ast.Name(id="newnode"), env)
            if ty != "ref":
                raise Untranslatable("ensure-content on an optional node")
            return self.do_if_with(f"(txt_empty_inline (snd {nn}))", s, rest, env, warned)
        if isinstance(s, ast.Assign) and len(s.targets) == 1:
            return self.assign(s, rest, env, warned)
        if isinstance(s, ast.AugAssign) and isinstance(s.target, ast.Name) and isinstance(s.op, ast.Add) \
                and env.get(s.target.id) == "txt":
            t, _ = self.expr(s.value, env, "txt")          # inner += literal   (inner has no children there)
            return f"let v_{s.target.id} := {t} in\n{self.stmts(rest, env, warned)}"
        if isinstance(s, ast.If):
            return self.do_if(s, rest, env, warned)
        if isinstance(s, ast.Expr) and isinstance(s.value, ast.Call):
            return self.effect(s.value, rest, env, warned)
        if isinstance(s, ast.Return):
            return self.ret(s.value, env, warned)
        if isinstance(s, ast.Try):
            return self.do_try(s, rest, env, warned)
        raise Untranslatable(f"statement {ast.unparse(s)[:120]}")

    IGNORED_ASSIGN = {"classes", "inner_classes", "caption", "stddomain", "sectname", "search_domains", "res_domain", "candidates"}

    def assign(self, s, rest, env, warned):
        tgt, val = s.targets[0], s.value
        src = ast.unparse(s)
        env = env.copy()
        if isinstance(tgt, ast.Name):
            n = tgt.id
            if n == "kwargs":
                if ast.unparse(val) != "{'refdoc': self.sphinx_env.docname, 'reftype': 'myst', 'refexplicit': explicit}":
                    raise Untranslatable("kwargs")
                env["kwargs"] = "kwargs"
                return self.stmts(rest, env, warned)
            if n == "explicit":
                if ast.unparse(val) != "token.info != 'auto' and len(token.children or []) > 0":
                    raise Untranslatable("explicit is not (token.info != 'auto') and children")
                env["explicit"] = "bool"
                return f"let v_explicit := (l_explicit l) in\n{self.stmts(rest, env, warned)}"
            if n in self.IGNORED_ASSIGN:
                if n in ("caption", "sectname") and ast.unparse(val) != "node.astext()" and n == "caption" \
                        and not ast.unparse(val).startswith("clean_astext"):
                    raise Untranslatable(f"{n} assignment")
                if n == "caption" and ast.unparse(val).startswith("clean_astext"):
                    t, ty = self.expr(val, env)
                    env[n] = ty
                    return f"let v_{n} := {t} in\n{self.stmts(rest, env, warned)}"
                if n == "sectname" and ast.unparse(val) != "node.astext()":
                    raise Untranslatable("sectname")
                if n == "search_domains" and ast.unparse(val) != "self.env.config.myst_ref_domains":
                    raise Untranslatable("search_domains")
                return self.stmts(rest, env, warned)
            if n == "slug_to_section":
                if not src.startswith("slug_to_section = self.env.metadata[") or not src.endswith("].get('myst_slugs', {})"):
                    raise Untranslatable("slug_to_section")
                k, _ = self.expr(val.func.value.slice, env, "str")
                env[n] = "slugs"
                return f"let v_{n} := (slugs_of P {k}) in\n{self.stmts(rest, env, warned)}"
            if n == "newnode" and ast.unparse(val) == "None":
                env[n] = "oref"
                return f"let v_newnode := (@None (tgt * txt)) in\n{self.stmts(rest, env, warned)}"
            if n == "newnode" and ast.unparse(val) == "nodes.reference()":
                # newnode = nodes.reference(); newnode['refid'] = normalizeLink(target); newnode.append(node[0].deepcopy())
                if len(rest) < 2 or ast.unparse(rest[0]) != "newnode['refid'] = normalizeLink(target)" \
                        or ast.unparse(rest[1]) != "newnode.append(node[0].deepcopy())":
                    raise Untranslatable("fallback reference shape")
                env[n] = "ref"
                env.bound.discard(n)
                return (f"let v_newnode := (T_fallback {self.expr(ast.Name(id='target'), env, 'str')[0]}, inner_of explicit) in\n"
                        f"{self.stmts(rest[2:], env, warned)}")
            if n == "results" and ast.unparse(val) == "[]":
                env[n] = "cands"
                return f"let v_results := (@nil cand) in\n{self.stmts(rest, env, warned)}"
            if n == "target" and self.kind == "oref" and ast.unparse(val) == "target or node['reftarget'].lower()":
                env[n] = "str"                                  # the parameter target is None at the call sites
                return f"let v_target := (lower reftarget) in\n{self.stmts(rest, env, warned)}"
            t, ty = self.expr(val, env)
            if ty == "none":
                raise Untranslatable(f"untyped None for {n}")
            if n in env and env[n] != ty:
                if env[n] == "str" and ty == "ostr":      # used after a truthiness test of the optional string
                    t, ty = f"(oget {t})", "str"
                elif env[n].startswith("o") and ty == env[n][1:]:
                    t = f"(Some {t})"
                    ty = env[n]
                else:
                    raise Untranslatable(f"{n} changes type {env[n]} -> {ty}")
            env[n] = ty
            env.bound.discard(n)
            return f"let v_{n} := {t} in\n{self.stmts(rest, env, warned)}"
        # ---- tuple idioms
        names = [ast.unparse(x) for x in tgt.elts] if isinstance(tgt, ast.Tuple) else None
        vs = ast.unparse(val)
        if names and len(names) == 2 and names[1].startswith("*") and vs.endswith(".split('#', maxsplit=1)"):
            a, _ = self.expr(val.func.value, env, "str")
            env[names[0]] = "str"
            env[names[1][1:]] = "splitrest"
            return (f"let v_{names[0]} := (before c_hash {a}) in\nlet v_{names[1][1:]} := (after c_hash {a}) in\n"
                    f"{self.stmts(rest, env, warned)}")
        #   a, sep, b = s.partition('#')   +   b if sep else None      (the same thing, spelled with partition)
        if names and len(names) == 3 and vs.endswith(".partition('#')"):
            a, _ = self.expr(val.func.value, env, "str")
            env[names[0]] = "str"
            env[names[1]] = "partsep:" + names[2]
            env[names[2]] = "partrest"
            return (f"let v_{names[0]} := (before c_hash {a}) in\nlet v_{names[2]} := (after c_hash {a}) in\n"
                    f"{self.stmts(rest, env, warned)}")
        if names and len(names) == 2 and isinstance(val, ast.Subscript) and ast.unparse(val.slice) == "1:" \
                and isinstance(val.value, ast.Name) and env.get(val.value.id) == "oinc" and val.value.id in env.bound:
            env[names[0]], env[names[1]] = "str", "str"
            return (f"let v_{names[0]} := (abs_dir_str P (d_dir d)) in\n"
                    f"let v_{names[1]} := (abs_dir_str P (snd v_{val.value.id}_)) in\n{self.stmts(rest, env, warned)}")
        if names and len(names) == 3 and names[0] == "_" and isinstance(val, ast.Subscript) \
                and isinstance(val.value, ast.Name) and env.get(val.value.id) == "slugs":
            k, _ = self.expr(val.slice, env, "str")
            env[names[1]], env[names[2]] = "str", "str"
            return (f"let v_{names[1]} := (slug_id v_{val.value.id} {k}) in\n"
                    f"let v_{names[2]} := (slug_title v_{val.value.id} {k}) in\n{self.stmts(rest, env, warned)}")
        if names and vs == "stddomain.anonlabels.get(target, ('', ''))" and len(names) == 2:
            env[names[0]], env[names[1]] = "str", "str"
            return (f"let v_{names[0]} := (anon_doc P v_target) in\nlet v_{names[1]} := (anon_id P v_target) in\n"
                    f"{self.stmts(rest, env, warned)}")
        if names and vs == "stddomain.labels.get(target, ('', '', ''))" and len(names) == 3:
            env[names[0]], env[names[1]], env[names[2]] = "str", "str", "str"
            return (f"let v_{names[0]} := (lab_doc P v_target) in\nlet v_{names[1]} := (lab_id P v_target) in\n"
                    f"let v_{names[2]} := (lab_sect P v_target) in\n{self.stmts(rest, env, warned)}")
        if names == ["res_role", "newnode"] and vs == "results[0]":
            env["newnode"] = "ref"
            return (f"match v_results with\n| [] => {self.ret(ast.Constant(value=None), env, warned)}\n"
                    f"| c_ :: _ =>\n(let v_newnode := (cand_ref c_) in\n{self.stmts(rest, env, warned)})\nend")
        raise Untranslatable(f"assignment {src[:120]}")

    def do_if(self, s, rest, env, warned):
        test = s.test
        swap = False
        if isinstance(test, ast.UnaryOp) and isinstance(test.op, ast.Not) and self.guard(test.operand, env):
            test, swap = test.operand, True
        g = self.guard(test, env)
        then_b, else_b = (list(s.orelse), list(s.body)) if swap else (list(s.body), list(s.orelse))
        if g:
            pol, x, more = g
            envb = env.copy()
            envb.bound.add(x)
            if pol == "some":
                els = self.stmts(else_b + rest, env.copy(), warned)
                if more is None:
                    inner = self.stmts(then_b + rest, envb, warned)
                else:
                    inner = (f"if {self.test(more, envb)} then\n({self.stmts(then_b + rest, envb.copy(), warned)})\n"
                             f"else\n({self.stmts(else_b + rest, envb.copy(), warned)})")
                return f"match v_{x} with\n| Some v_{x}_ =>\n({inner})\n| None =>\n({els})\nend"
            thn = self.stmts(then_b + rest, env.copy(), warned)
            if more is None:
                inner = self.stmts(else_b + rest, envb, warned)
            else:
                inner = (f"if {self.test(more, envb)} then\n({self.stmts(then_b + rest, envb.copy(), warned)})\n"
                         f"else\n({self.stmts(else_b + rest, envb.copy(), warned)})")
            return f"match v_{x} with\n| None =>\n({thn})\n| Some v_{x}_ =>\n({inner})\nend"
        c = self.test(s.test, env)
        a = self.stmts(list(s.body) + rest, env.copy(), warned)
        b = self.stmts(list(s.orelse) + rest, env.copy(), warned)
        return f"if {c} then\n({a})\nelse\n({b})"

    def do_if_with(self, cond, s, rest, env, warned):
        a = self.stmts(list(s.body) + rest, env.copy(), warned)
        b = self.stmts(list(s.orelse) + rest, env.copy(), warned)
        return f"if {cond} then\n({a})\nelse\n({b})"

    def effect(self, call, rest, env, warned):
        f = ast.unparse(call.func)
        kws = {k.arg: ast.unparse(k.value) for k in call.keywords}
        if f == "self.create_warning":
            if len(call.args) != 2 or ast.unparse(call.args[1]) != "MystWarnings.XREF_MISSING" \
                    or set(kws) != {"line", "append_to"} or warned is not None:
                raise Untranslatable("create_warning shape")
            msg = call.args[0]
            fv = [p for p in msg.values if isinstance(p, ast.FormattedValue)] if isinstance(msg, ast.JoinedStr) else []
            if len(fv) != 1:
                raise Untranslatable("create_warning message must name exactly one value")
            return self.stmts(rest, env, self.named(fv[0].value, env))
        if f == "self.log_warning" and len(call.args) == 3 and ast.unparse(call.args[2]) == "MystWarnings.XREF_AMBIGUOUS" \
                and kws == {"location": "node"}:
            t, _ = self.expr(call.args[0], env, "str")
            return f"let v_warns := (v_warns ++ [W_ambiguous {t}]) in\n{self.stmts(rest, env, warned)}"
        if f == "self.resolve_myst_ref_doc" and self.kind == "runnode" and [ast.unparse(x) for x in call.args] == ["node"]:
            if not rest or not isinstance(rest[0], ast.Continue):
                raise Untranslatable("resolve_myst_ref_doc not followed by continue")
            return "Some (resolve_myst_ref_doc_src P from explicit reftarget reftargetid)"
        if f in ("newnode[0].replace_self", "newnode.append") and self.kind == "runnode" and len(call.args) == 1:
            nn, ty = self._expr(ast.Name(id="newnode"), env)
            t, tty = self._expr(call.args[0], env)
            if ty != "ref" or tty != "txt":
                raise Untranslatable("content replacement")
            env = env.copy()
            env["newnode"] = "ref"
            env.bound.discard("newnode")
            return f"let v_newnode := (fst {nn}, {t}) in\n{self.stmts(rest, env, warned)}"
        if f == "node.replace_self" and self.kind == "runnode":
            if rest:
                raise Untranslatable("code after replace_self")
            t, ty = self._expr(call.args[0], env)
            if ty != "ref":
                raise Untranslatable("replace_self argument")
            return f"Some (mk (fst {t}) (snd {t}) v_warns)"
        if f == "self.log_warning":
            if len(call.args) != 3 or ast.unparse(call.args[2]) != "MystWarnings.XREF_MISSING" or kws != {"location": "node"}:
                raise Untranslatable("log_warning shape")
            t, _ = self.expr(call.args[0], env, "str")
            return f"let v_warns := (v_warns ++ log_missing P {t}) in\n{self.stmts(rest, env, warned)}"
        if f.endswith(".extend") and ast.unparse(call.args[0]) == "node[0].children" and env.get(f[:-7]) == "txt":
            return f"let v_{f[:-7]} := X_children in\n{self.stmts(rest, env, warned)}"
        if f == "results.append" and isinstance(call.args[0], ast.Tuple) and len(call.args[0].elts) == 2:
            role, r = call.args[0].elts
            rt, _ = self.expr(r, env, "ref")
            return f"let v_results := (v_results ++ [mkcand {self.expr(role, env, 'str')[0]} {rt}]) in\n{self.stmts(rest, env, warned)}"
        if f == "node.replace_self" and self.kind == "outcome":
            if rest and ast.unparse(rest[0]) != "return":
                raise Untranslatable("code after replace_self")
            t, ty = self._expr(call.args[0], env)
            if ty == "txt":
                return f"mk T_bare {t} v_warns"
            if ty == "ref":
                return f"mk (fst {t}) (snd {t}) v_warns"
            raise Untranslatable("replace_self argument")
        if f == "self._process_wrap_node" and self.kind == "cls":
            if rest or [ast.unparse(x) for x in call.args[:4]] != ["wrap_node", "token", "explicit", "classes"]:
                raise Untranslatable("_process_wrap_node shape")
            return f"finish v_wrap_node {self.expr(call.args[4], env, 'str')[0]}"
        raise Untranslatable(f"call statement {ast.unparse(call)[:100]}")

    def named(self, e, env):
        """the value a warning message names:  X  or  (LOC or STR)"""
        if isinstance(e, ast.BoolOp) and isinstance(e.op, ast.Or) and len(e.values) == 2 and isinstance(e.values[0], ast.Name):
            x = e.values[0].id
            y, _ = self.expr(e.values[1], env, "str")
            if env.get(x) == "oloc":
                if x in env.bound:
                    return f"(abs_str P v_{x}_)"
                return f"(loc_or P v_{x} {y})"
        return self.expr(e, env, "str")[0]

    def ret(self, val, env, warned):
        k = self.kind
        src = ast.unparse(val) if val is not None else ""
        if k == "cls":
            if src == "self.render_link_url(token)" or src == "self.render_link_url(token, self.md_config.url_schemes[scheme])":
                return f"C_nofile {warned} (l_dest l)" if warned else "C_url (l_dest l)"
            if warned:
                raise Untranslatable("warning followed by something else than render_link_url")
            if isinstance(val, ast.Call) and ast.unparse(val.func) == "self.render_link_anchor" and len(val.args) == 2 \
                    and ast.unparse(val.args[0]) == "token":
                return f"C_anchor {self.expr(val.args[1], env, 'str')[0]}"
            table = {"self.render_link_inventory(token)": "C_inv",
                     "self.render_link_path(token)": "render_link_path_src P d l",
                     "self.render_link_project(token)": "render_link_project_src P d l",
                     "self.render_link_unknown(token)": "render_link_unknown_src P d l"}
            if src in table:
                return table[src]
        elif k == "str":
            return self.expr(val, env, "str")[0]
        elif k == "anyres":
            if src == "None":
                return "(v_warns, None)"
            t, _ = self.expr(val, env, "ref")
            return f"(v_warns, Some {t})"
        elif k == "oref":
            if src == "None":
                return "None"
            t, _ = self.expr(val, env, "ref")
            return f"Some {t}"
        raise Untranslatable(f"return {src[:100]}")

    def do_try(self, s, rest, env, warned):
        hs = s.handlers
        if len(hs) != 1 or s.orelse or s.finalbody or hs[0].name:
            raise Untranslatable("try shape")
        h = ast.unparse(hs[0].type)
        # make_refnode ... except NoUri: ref_node = innernode    (the html builders always have a URI: oracle)
        if h == "NoUri" and len(s.body) == 1 and isinstance(s.body[0], ast.Assign) \
                and ast.unparse(hs[0].body[0]) == f"{ast.unparse(s.body[0].targets[0])} = innernode" and len(hs[0].body) == 1:
            return self.stmts(list(s.body) + rest, env, warned)
        if h == "NoUri" and self.kind == "runnode" and len(s.body) == 1 and ast.unparse(s.body[0]) == \
                "newnode = self.resolve_myst_ref_any(refdoc, node, contnode, search_domains)" \
                and [ast.unparse(x) for x in hs[0].body] == ["newnode = contnode"]:
            env = env.copy()
            env["newnode"] = "oref"
            env.bound.discard("newnode")
            return ("let v_any := (resolve_myst_ref_any_src std_objects other_domains P from explicit reftarget) in\n"
                    "let v_warns := (v_warns ++ fst v_any) in\nlet v_newnode := (snd v_any) in\n" + self.stmts(rest, env, warned))
        raise Untranslatable(f"try/except {h}")

    def fall_off(self, env, warned):
        raise Untranslatable(f"{self.fn.name} may fall off the end")

    def function(self, name, params, ret_type, init_env, prefix=""):
        env = Env(init_env)
        env.bound = set()
        body = self.stmts(list(self.fn.body), env, None)
        return f"Definition {name} {params} : {ret_type} :=\n{prefix}{body}.\n"


def abs_path_src(fn):
    """_abs_path: relfn2path raises ValueError exactly on a NUL character (oracle); anything else must not be caught"""
    body = [s for s in fn.body if not (isinstance(s, ast.Expr) and isinstance(s.value, ast.Constant))]
    want = ("try:\n    return self.sphinx_env.relfn2path(path, self.sphinx_env.docname)[1]\n"
            "except ValueError:\n    return None")
    if len(body) != 1 or ast.unparse(body[0]) != want or [a.arg for a in fn.args.args] != ["self", "path"]:
        raise Untranslatable("_abs_path no longer has the shape  try: return relfn2path(...)[1]  except ValueError: return None")
    return ("Definition abs_path_src (P : project) (d : docrec) (v_path : str) : option fsloc :=\n"
            "if has_nul v_path then None else Some (relfn2path (p_srcdir P) (d_dir d) v_path).\n")


def any_src(fn, full):
    """resolve_myst_ref_any: the candidate list (full=False, up to 'if not results') or the whole function"""
    body = [s for s in fn.body if not (isinstance(s, ast.Expr) and isinstance(s.value, ast.Constant))]
    cut = next((i for i, s in enumerate(body) if isinstance(s, ast.If) and ast.unparse(s.test) == "not results"), None)
    if cut is None:
        raise Untranslatable("resolve_myst_ref_any: 'if not results' not found")
    stmts, seen = [], []
    for s in body[:cut]:
        if isinstance(s, ast.If) and ast.unparse(s.test) == "only_domains is None or 'std' in only_domains":
            fors = [x for x in s.body if isinstance(x, ast.For)]
            if len(fors) != 1 or ast.unparse(fors[0].iter) != "stddomain.object_types":
                raise Untranslatable("std objects loop")
            seen.append("std")
            o = ast.parse("results = __oracle__").body[0]
            o.oracle = "(std_objects reftarget)"
            stmts.append(o)
        elif isinstance(s, ast.For):
            if ast.unparse(s.iter) != "self.env.domains.values()":
                raise Untranslatable("domains loop")
            seen.append("other")
            o = ast.parse("results = __oracle__").body[0]
            o.oracle = "(other_domains reftarget)"
            stmts.append(o)
        else:
            stmts.append(s)
    if seen != ["std", "other"]:
        raise Untranslatable(f"candidate sources out of order: {seen}")
    if full:
        stmts += body[cut:]

    class W(Walker):
        def fall_off(self, env, warned):
            if not full:
                return "v_results"
            raise Untranslatable("resolve_myst_ref_any may fall off the end")

        def assign(self, s, rest, env, warned):
            if hasattr(s, "oracle"):
                return f"let v_results := (v_results ++ {s.oracle}) in\n{self.stmts(rest, env, warned)}"
            if isinstance(s.targets[0], ast.Name) and s.targets[0].id == "target":
                if ast.unparse(s.value) != "node['reftarget']":
                    raise Untranslatable("target")
                env = env.copy()
                env["target"] = "str"
                return f"let v_target := reftarget in\n{self.stmts(rest, env, warned)}"
            if isinstance(s.targets[0], ast.Name) and s.targets[0].id == "res":
                t, ty = self.expr(s.value, env)
                env = env.copy()
                env["res"] = ty
                env.bound.discard("res")
                return f"let v_res := {t} in\n{self.stmts(rest, env, warned)}"
            return Walker.assign(self, s, rest, env, warned)
    w = W(fn, "anyres" if full else "cands")
    env = Env({})
    env.bound = set()
    term = w.stmts(stmts, env, None)
    if full:
        return ("Definition resolve_myst_ref_any_src (std_objects other_domains : str -> list cand) (P : project) (from : str)\n"
                "  (explicit : bool) (reftarget : str) : list warn * option (tgt * txt) :=\nlet v_warns := (@nil warn) in\n" + term + ".\n")
    return ("Definition any_candidates_src (std_objects other_domains : str -> list cand) (P : project) (from : str)\n"
            "  (explicit : bool) (reftarget : str) : list cand :=\n" + term + ".\n")


def run_node_src(fn):
    """MystReferenceResolver.run: the body of `for node in findall(self.document)(addnodes.pending_xref)` as a function
    of one pending_xref node (None = the node is left untouched)"""
    body = [s for s in fn.body if not (isinstance(s, ast.Expr) and isinstance(s.value, ast.Constant))
            and not (isinstance(s, ast.AnnAssign) and s.value is None)]
    if len(body) != 1 or not isinstance(body[0], ast.For) or body[0].orelse \
            or ast.unparse(body[0].iter) != "findall(self.document)(addnodes.pending_xref)" or ast.unparse(body[0].target) != "node":
        raise Untranslatable("run is not a single loop over the pending_xref nodes")

    class W(Walker):
        def fall_off(self, env, warned):
            raise Untranslatable("the loop body ends without replacing the node")
    w = W(fn, "runnode")
    env = Env({})
    env.bound = set()
    term = w.stmts(list(body[0].body), env, None)
    return ("Definition run_node_src (std_objects other_domains : str -> list cand) (intersphinx : str -> option cand)\n"
            "  (P : project) (from : str) (is_myst is_doc : bool) (explicit : bool) (reftarget : str) (reftargetid : option str)\n"
            "  : option outcome :=\nlet v_warns := (@nil warn) in\n" + term + ".\n")


def include_env_src(fn):
    """MockIncludeDirective.run: the md_env['relative-images'/'relative-docs'] bookkeeping around nested_render_text"""
    body = list(fn.body)
    ti = next((i for i, s in enumerate(body) if isinstance(s, ast.Try) and "nested_render_text" in ast.unparse(s)), None)
    if ti is None:
        raise Untranslatable("MockIncludeDirective.run: try block with nested_render_text not found")
    tr = body[ti]
    if tr.handlers or tr.orelse or not tr.finalbody:
        raise Untranslatable("include try/finally shape")
    out = []
    SAVE = ("outer_relative = {key: self.renderer.md_env[key] for key in ('relative-images', 'relative-docs') "
            "if key in self.renderer.md_env}")
    saved = any(ast.unparse(x) == SAVE for x in body[:ti])
    if any("relative-" in ast.unparse(x) and ast.unparse(x) != SAVE for x in body[:ti]
           if not isinstance(x, (ast.If, ast.Try, ast.For)) or "md_env" in ast.unparse(x)):
        raise Untranslatable("md_env['relative-*'] touched before the try block in an unknown way")
    if saved:
        out.append("let saved := env in")
    SKIP_TRY = {"include_log.append(include_key)", "self.renderer.document['source'] = str(path)",
                "self.renderer.reporter.source = str(path)",
                "self.renderer.reporter.get_source_and_line = lambda li: (str(path), li)"}
    names = {"source_dir": "cur_dir"}

    def base(e):
        if isinstance(e, ast.Name) and e.id in names:
            return names[e.id]
        raise Untranslatable(f"base directory {ast.unparse(e)}")
    rendered = False
    for x in tr.body:
        u = ast.unparse(x)
        if rendered:
            raise Untranslatable("statement after nested_render_text in the try block")
        if u in SKIP_TRY:
            continue
        if u == "root_dir = Path(include_log[0][0]).parent":
            names["root_dir"] = "root_dir"
            continue
        if isinstance(x, ast.If) and not x.orelse and len(x.body) == 1 and isinstance(x.body[0], ast.Assign):
            t, a = ast.unparse(x.test), x.body[0]
            tgt = ast.unparse(a.targets[0])
            if t == "'relative-images' in self.options" and tgt == "self.renderer.md_env['relative-images']" \
                    and isinstance(a.value, ast.Call) and ast.unparse(a.value.func) == "os.path.relpath" \
                    and len(a.value.args) == 2 and ast.unparse(a.value.args[0]) == "path.parent":
                out.append(f"let env := if io_images o then set_images env (Some (relpath dir {base(a.value.args[1])})) else env in")
                continue
            if t == "'relative-docs' in self.options" and tgt == "self.renderer.md_env['relative-docs']" \
                    and isinstance(a.value, ast.Tuple) and len(a.value.elts) == 3 \
                    and ast.unparse(a.value.elts[0]) == "self.options['relative-docs']" \
                    and ast.unparse(a.value.elts[2]) == "path.parent":
                out.append(f"let env := match io_docs o with Some p => set_docs env (Some (p, {base(a.value.elts[1])}, dir)) | None => env end in")
                continue
        if u.startswith("self.renderer.nested_render_text(file_content, startline + 1"):
            out.append("let '(a, env) := render env in")
            rendered = True
            continue
        raise Untranslatable(f"include try body: {u[:100]}")
    if not rendered:
        raise Untranslatable("nested_render_text call not found")
    for x in tr.finalbody:
        u = ast.unparse(x)
        if u in ("include_log.pop()", "self.renderer.document['source'] = source", "self.renderer.reporter.source = rsource") \
                or u.startswith("if line_func is not None:"):
            continue
        if u == "self.renderer.md_env.pop('relative-images', None)":
            out.append("let env := set_images env None in")
        elif u == "self.renderer.md_env.pop('relative-docs', None)":
            out.append("let env := set_docs env None in")
        elif u == "self.renderer.md_env.update(outer_relative)" and saved:
            out.append("let env := restore saved env in")
        else:
            raise Untranslatable(f"include finally: {u[:100]}")
    return ("Definition include_env_src {A : Type} (o : iopts) (root_dir cur_dir dir : str) (render : menv -> A * menv) (env : menv)\n"
            "  : A * menv :=\n" + "\n".join(out) + "\n(a, env).\n")


HEADER = """(* GENERATED by gen/c12_src.py from myst_parser/mdit_to_docutils/{sphinx_,base}.py and
   myst_parser/sphinx_ext/myst_refs.py - do not edit *)
From Coq Require Import List NArith Bool.
From MV Require Import Base.PyStr.
From MV Require Import XRef.Path.
From MV Require Import XRef.XRefModel.
From MV Require Import XRef.XRefSrcBase.
From MV Require Import XRef.IncludeModel.
Import ListNotations.
Open Scope N_scope.

"""


def generate(ctx):
    repo = common.REPO
    sph = ast.parse((repo / "myst_parser/mdit_to_docutils/sphinx_.py").read_text())
    base = ast.parse((repo / "myst_parser/mdit_to_docutils/base.py").read_text())
    refs = ast.parse((repo / "myst_parser/sphinx_ext/myst_refs.py").read_text())

    def cls_fn(tree, cls, name):
        for c in tree.body:
            if isinstance(c, ast.ClassDef) and c.name == cls:
                for f in c.body:
                    if isinstance(f, ast.FunctionDef) and f.name == name:
                        return f
        raise Untranslatable(f"{cls}.{name} not found")

    PD = "(P : project) (d : docrec) (l : link)"
    out = [HEADER]
    out.append("(* SphinxRenderer._abs_path *)\n" + abs_path_src(cls_fn(sph, "SphinxRenderer", "_abs_path")))
    out.append("\n(* SphinxRenderer._handle_relative_docs *)\n" + Walker(cls_fn(sph, "SphinxRenderer", "_handle_relative_docs"), "str")
               .function("handle_relative_docs_src", PD + " (v_destination : str)", "str", {"destination": "str"}))
    for n in ("render_link_project", "render_link_path", "render_link_unknown"):
        out.append(f"\n(* SphinxRenderer.{n} *)\n" + Walker(cls_fn(sph, "SphinxRenderer", n), "cls").function(n + "_src", PD, "cls", {}))
    out.append("\n(* DocutilsRenderer.render_link (dispatch) *)\n"
               + Walker(cls_fn(base, "DocutilsRenderer", "render_link"), "cls").function("render_link_src", PD, "cls", {}))
    RP = "(P : project) (from : str) (explicit : bool) (reftarget : str)"
    out.append("\n(* MystReferenceResolver._resolve_ref_nested *)\n"
               + Walker(cls_fn(refs, "MystReferenceResolver", "_resolve_ref_nested"), "oref")
               .function("resolve_ref_nested_src", RP, "option (tgt * txt)", {"fromdocname": "str"},
                         prefix="let v_fromdocname := from in\n"))
    out.append("\n(* MystReferenceResolver._resolve_doc_nested *)\n"
               + Walker(cls_fn(refs, "MystReferenceResolver", "_resolve_doc_nested"), "oref")
               .function("resolve_doc_nested_src", RP, "option (tgt * txt)", {"fromdocname": "str"},
                         prefix="let v_fromdocname := from in\n"))
    out.append("\n(* MystReferenceResolver.resolve_myst_ref_any: the candidate list, in the order coded *)\n"
               + any_src(cls_fn(refs, "MystReferenceResolver", "resolve_myst_ref_any"), False))
    out.append("\n(* MystReferenceResolver.resolve_myst_ref_any, whole: (warnings, first candidate) *)\n"
               + any_src(cls_fn(refs, "MystReferenceResolver", "resolve_myst_ref_any"), True))
    out.append("\n(* MystReferenceResolver.resolve_myst_ref_doc *)\n"
               + Walker(cls_fn(refs, "MystReferenceResolver", "resolve_myst_ref_doc"), "outcome")
               .function("resolve_myst_ref_doc_src", "(P : project) (from : str) (explicit : bool) (reftarget : str) (reftargetid : option str)",
                         "outcome", {}, prefix="let v_warns := (@nil warn) in\n"))
    out.append("\n(* MystReferenceResolver.run: one pending_xref node *)\n"
               + run_node_src(cls_fn(refs, "MystReferenceResolver", "run")))
    moc = ast.parse((repo / "myst_parser/mocking.py").read_text())
    out.append("\n(* MockIncludeDirective.run: bookkeeping of md_env['relative-images'/'relative-docs'] *)\n"
               + include_env_src(cls_fn(moc, "MockIncludeDirective", "run")))
    text = "".join(out)
    common.write_if_changed(common.COQ / "Gen" / "C12Src.v", text)
    ctx.gen_info["Gen/C12Src.v"] = hashlib.sha256(text.encode()).hexdigest()[:16]
