"""A fail-closed statement walker (own extension of the idea of gen/py2coq.py) for straight-line function bodies
with `while` loops, multi-target assignment, raising calls and a caller-supplied domain mapping.

Everything is emitted in the `res` monad of MV.Base.Res:
  x = E            -> let x := E in K                 (E pure)   |  match E with Raise e => Raise e | Ok v => let x := v in K end  (E raising)
  a = b = E        -> the same, binding every target
  i += C           -> let i := (i + C) in K
  while T: body    -> fuel loop over the tuple of the variables the body assigns; fuel exhausted = Raise OutOfFuel
  if T: body       -> handled by the caller's statement hook when it touches its own state (see gen/c05_src.py)
  return E         -> Ok E   (or E itself when E is raising)
Statements whose exact source text is in `skip` are dropped (they must be irrelevant for the modelled observation;
each property lists them in TRUSTED).  Anything else raises Untranslatable."""
from __future__ import annotations

import ast

from gen.py2coq import Untranslatable


def assigned_names(body):
    out = []
    for s in body:
        if isinstance(s, ast.Assign):
            for t in s.targets:
                if not isinstance(t, ast.Name):
                    raise Untranslatable("assignment target in loop " + ast.unparse(t))
                if t.id not in out:
                    out.append(t.id)
        elif isinstance(s, ast.AugAssign) and isinstance(s.target, ast.Name):
            if s.target.id not in out:
                out.append(s.target.id)
        else:
            raise Untranslatable("statement in while body: " + ast.unparse(s)[:80])
    return out


class Walk:
    def __init__(self, expr, fuel: str | None = None, skip=(), stmt_hook=None, int_scope="%N"):
        self.expr = expr            # expr(node, walk) -> (term, raises)
        self.fuel = fuel            # Gallina term for the fuel of while loops
        self.skip = set(skip)
        self.stmt_hook = stmt_hook  # stmt_hook(stmt, rest, walk) -> term or None
        self.int_scope = int_scope

    def bind(self, term, raises, names, k):
        lets = "".join(f"let {n} := __v in\n" for n in names)
        if raises:
            return f"match {term} with Raise __e => Raise __e | Ok __v =>\n{lets}{k}\nend"
        if len(names) == 1:
            return f"let {names[0]} := {term} in\n{k}"
        return f"let __v := {term} in\n{lets}{k}"

    def simple(self, s, k):
        """one assignment / augmented assignment followed by the term k"""
        if isinstance(s, ast.Assign) and all(isinstance(t, ast.Name) for t in s.targets):
            term, raises = self.expr(s.value, self)
            return self.bind(term, raises, [t.id for t in s.targets], k)
        if isinstance(s, ast.AugAssign) and isinstance(s.target, ast.Name) and isinstance(s.op, ast.Add):
            term, raises = self.expr(s.value, self)
            if raises:
                raise Untranslatable("raising expression in +=")
            return f"let {s.target.id} := ({s.target.id} + {term}){self.int_scope} in\n{k}"
        raise Untranslatable("statement " + ast.unparse(s)[:100])

    def block(self, body):
        if not body:
            raise Untranslatable("function may fall off the end")
        s, rest = body[0], list(body[1:])
        if isinstance(s, ast.Expr) and isinstance(s.value, ast.Constant) and isinstance(s.value.value, str):
            return self.block(rest)
        if ast.unparse(s) in self.skip:
            return self.block(rest)
        if self.stmt_hook is not None:
            r = self.stmt_hook(s, rest, self)
            if r is not None:
                return r
        if isinstance(s, ast.Return) and s.value is not None:
            if rest:
                raise Untranslatable("code after return")
            term, raises = self.expr(s.value, self)
            return term if raises else f"Ok ({term})"
        if isinstance(s, ast.While):
            if s.orelse or self.fuel is None:
                raise Untranslatable("while/else or no fuel given")
            vs = assigned_names(s.body)
            test, raises = self.expr(s.test, self)
            if raises:
                raise Untranslatable("raising loop test")
            tup = "(" + ", ".join(vs) + ")" if len(vs) > 1 else vs[0]
            pat = "'" + tup if len(vs) > 1 else vs[0]
            inner = f"__loop __f {tup}"
            for b in reversed(s.body):
                inner = self.simple(b, inner)
            loop = (f"(fix __loop (__fuel : nat) (__st : _) {{struct __fuel}} := match __fuel with O => Raise OutOfFuel | S __f =>\n"
                    f"let {pat} := __st in\nif {test} then\n({inner})\nelse Ok __st end)")
            return (f"match {loop} ({self.fuel}) {tup} with Raise __e => Raise __e | Ok __st =>\n"
                    f"let {pat} := __st in\n{self.block(rest)}\nend")
        return self.simple(s, self.block(rest))
