"""Regenerate coq/Gen/DirSrc.v from myst_parser/parsers/directives.py: `split_lines`, `parse_directive_arguments`,
`_parse_directive_options` and `parse_directive_text` translated statement by statement into Gallina (res monad).

Own walker (gen/py2coq.py only covers for-loops over a name): straight-line code with if/elif/else, early return,
raise, `while X:` (fuel = len(X) + 1, OutOfFuel otherwise) with break / X[0] / X.pop(0), `for k, v in D.items():` with
continue (fold_left over a state tuple), list.append / insert(0, .) / dict item assignment, tuple assignment, and the four
try/except sites around external calls.  Everything else raises Untranslatable (fail-closed).

Domain mapping (TRUSTED, semantics in coq/Dir/PyRuntime.v and coq/Dir/PyLines.v):
  str methods strip/lstrip/startswith/split/count("\\n")/join, slices [1:] [:n] [n:], len, any, dict(), {**a, **b},
  sorted, textwrap.dedent  -> the PyLines / DirModel functions of the same meaning;
  `_RE_NEWLINE.split`      -> re_newline_split (breaks at the separators of Gen/C08Unicode.v, CRLF once, keeps a last "");
  `re.search(r"^-{3,}", content, re.MULTILINE)` -> re_search_dashes: offset of the first "\\n"-separated line starting with '---';
  externals: options_to_items -> [tokenize], yaml.safe_load -> [yaml_load], options_spec[name] / converter(value) /
  `converter is flag` -> opt_known / opt_conv / opt_is_flag of the class signature, issubclass(., TestDirective) -> is_test;
  ParseWarnings(...) -> the pwarn constructor determined by its type argument and by WHAT the message interpolates
  (name -> W_invalid, unknown_options -> W_unknown, err -> W_tokenize), not by its wording.
"""
from __future__ import annotations

import ast
from pathlib import Path

from gen.py2coq import Untranslatable, coq_str, find_function

COQ_TYPES = {"str": "str", "ostr": "option str", "lines": "list str", "onat": "option nat", "Z": "Z", "nat": "nat",
             "bool": "bool", "dict": "list (str * str)", "cdict": "list (str * str)", "warns": "list pwarn",
             "names": "list str", "yval": "yres"}
KEYWORDS = {"match": "match_", "end": "end_", "in": "in_", "fun": "fun_", "let": "let_", "return": "return_", "as": "as_"}


def nm(n):
    return KEYWORDS.get(n, n)


class Ctx:
    """one control-flow path: variable types, ostr variables known to be Some(<term>), loop state."""

    def __init__(self, types=None, some=None, heads=None, loop=None, counter=None):
        self.types = dict(types or {})
        self.some = dict(some or {})        # ostr/onat var -> name of the unwrapped variable
        self.heads = dict(heads or {})      # list var -> (head var, tail var) valid inside `while X:`
        self.loop = loop                    # None | ("while", state, cont, brk) | ("for", state)
        self.counter = counter if counter is not None else [0]

    def copy(self):
        return Ctx(self.types, self.some, self.heads, self.loop, self.counter)

    def fresh(self, base):
        self.counter[0] += 1
        return f"{base}__{self.counter[0]}"


class DirTranslator:
    def __init__(self, fn: ast.FunctionDef, params: dict, pw_plain: list, rec_name: str):
        self.fn = fn
        self.params = params                # python param name -> type
        self.pw_plain = pw_plain            # constructors for ParseWarnings(msg) without type, in source order
        self.pw_seen = {}                   # id(node) -> index
        self.rec_name = rec_name
        self.aux = {}                       # text of an auxiliary definition (loop / step) -> its name
        self.aux_order = []
        self.yaml_plain = ["W_yaml_bad", "W_yaml_notdict"]
        plain = [n for n in ast.walk(fn) if isinstance(n, ast.Call) and ast.unparse(n.func) == "ParseWarnings"]
        plain.sort(key=lambda n: (n.lineno, n.col_offset))
        i = j = 0
        for n in plain:
            if len(n.args) == 1 and not n.keywords:
                self.pw_seen[id(n)] = ("plain", i)
                i += 1
            elif len(n.args) == 3 and isinstance(n.args[0], ast.Constant) and ast.unparse(n.args[2]).endswith("DIRECTIVE_OPTION"):
                self.pw_seen[id(n)] = ("yaml", j)
                j += 1

    # ------------------------------------------------------------------ expressions
    def expr(self, e, cx: Ctx, want=None):
        """-> (term, type).  `want` = expected type where the Python expression alone does not tell ([] / {} / None)."""
        if isinstance(e, ast.Constant):
            v = e.value
            if v is None:
                if want in ("ostr", "onat"):
                    return "None", want
                raise Untranslatable("None without expected type")
            if isinstance(v, bool):
                return ("true" if v else "false"), "bool"
            if isinstance(v, int):
                return (f"{v}%Z" if want == "Z" else f"{v}%nat"), ("Z" if want == "Z" else "nat")
            if isinstance(v, str):
                return coq_str(v), "str"
        if isinstance(e, ast.List) and not e.elts:
            if want in ("lines", "warns", "names", "dict", "cdict"):
                return "[]", want
            raise Untranslatable("[] without expected type")
        if isinstance(e, ast.List) and len(e.elts) == 1:
            t, ty = self.expr(e.elts[0], cx)
            if ty == "pwarn":
                return f"[{t}]", "warns"
        if isinstance(e, ast.Dict) and not e.keys:
            if want == "yval":
                return "(Y_dict [])", "yval"
            return "[]", (want if want in ("dict", "cdict") else "dict")
        if isinstance(e, ast.Dict) and all(k is None for k in e.keys) and len(e.values) == 2:
            a, ta = self.expr(e.values[0], cx)
            b, tb = self.expr(e.values[1], cx)
            if ta == "odict" and tb == "dict":
                return f"(dict_update (dict_of (odict {a})) {b})", "dict"
            raise Untranslatable("dict display")
        if isinstance(e, ast.Name):
            n = nm(e.id)
            if n not in cx.types:
                raise Untranslatable(f"unknown name {e.id}")
            ty = cx.types[n]
            if want == "str" and ty == "ostr":
                if n in cx.some:
                    return cx.some[n], "str"
                raise Untranslatable(f"{e.id} may be None here")
            if want == "nat" and ty == "onat":
                if n in cx.some:
                    return cx.some[n], "nat"
                raise Untranslatable(f"{e.id} may be None here")
            return n, ty
        if isinstance(e, ast.Attribute) and isinstance(e.value, ast.Name):
            base, attr = nm(e.value.id), e.attr
            bt = cx.types.get(base)
            if bt == "cls":
                m = {"required_arguments": ("(required_arguments sg)", "nat"), "optional_arguments": ("(optional_arguments sg)", "nat"),
                     "final_argument_whitespace": ("(final_argument_whitespace sg)", "bool"),
                     "has_content": ("(has_content sg)", "bool"), "option_spec": ("sg", "spec")}
                if attr in m:
                    return m[attr]
            if bt == "dopts":
                m = {"warnings": ("o_warnings", "warns"), "has_options": ("o_has_options", "bool"),
                     "options": ("o_options", "cdict"), "content": ("o_content", "lines")}
                if attr in m:
                    return f"({m[attr][0]} {base})", m[attr][1]
            if bt == "tokstate" and attr == "has_comments":
                return base, "bool"
            raise Untranslatable(f"attribute {ast.unparse(e)}")
        if isinstance(e, ast.BinOp) and isinstance(e.op, (ast.Add, ast.Sub)):
            if isinstance(e.op, ast.Sub):
                a, ta = self.expr(e.left, cx, "Z")
                b, tb = self.expr(e.right, cx, "Z")
                return f"({self.toZ(a, ta)} - {self.toZ(b, tb)})%Z", "Z"
            a, ta = self.expr(e.left, cx, want if want in ("Z", "nat") else None)
            b, tb = self.expr(e.right, cx, ta if ta in ("Z", "nat") else None)
            if ta == tb == "nat":
                return f"({a} + {b})%nat", "nat"
            if "Z" in (ta, tb) and ta in ("Z", "nat") and tb in ("Z", "nat"):
                return f"({self.toZ(a, ta)} + {self.toZ(b, tb)})%Z", "Z"
            raise Untranslatable(f"+ on {ta}, {tb}")
        if isinstance(e, ast.BoolOp) or isinstance(e, ast.UnaryOp) or isinstance(e, ast.Compare):
            return self.test(e, cx), "bool"
        if isinstance(e, ast.IfExp):
            # None if x is None else x + 1
            t = e.test
            if (isinstance(t, ast.Compare) and isinstance(t.ops[0], ast.Is) and isinstance(t.left, ast.Name)
                    and isinstance(t.comparators[0], ast.Constant) and t.comparators[0].value is None
                    and isinstance(e.body, ast.Constant) and e.body.value is None):
                x = nm(t.left.id)
                if cx.types.get(x) != "onat":
                    raise Untranslatable("IfExp on non-optional")
                c2 = cx.copy()
                v = c2.fresh(x)
                c2.some[x] = v
                c2.types[v] = "nat"
                body, bt = self.expr(e.orelse, c2, "nat")
                if bt != "nat":
                    raise Untranslatable("IfExp branch type")
                return f"(match {x} with None => None | Some {v} => Some {body} end)", "onat"
            raise Untranslatable("conditional expression")
        if isinstance(e, ast.Subscript):
            return self.subscript(e, cx)
        if isinstance(e, ast.Call):
            return self.call(e, cx, want)
        raise Untranslatable(f"expression {ast.dump(e)[:120]}")

    @staticmethod
    def toZ(t, ty):
        return t if ty == "Z" else f"Z.of_nat {t}" if ty == "nat" else (_ for _ in ()).throw(Untranslatable(f"number of type {ty}"))

    def subscript(self, e, cx):
        s = e.slice
        if isinstance(e.value, ast.Name) and isinstance(s, ast.Constant) and s.value == 0:
            x = nm(e.value.id)
            if x in cx.heads:
                return cx.heads[x][0], "str"
            raise Untranslatable(f"{x}[0] outside `while {x}:` / guarded test")
        if isinstance(s, ast.Slice) and s.step is None:
            v, vt = self.expr(e.value, cx, "str")
            if vt not in ("str", "lines"):
                raise Untranslatable(f"slice of {vt}")
            if s.lower is not None and s.upper is None:
                lo, lt = self.expr(s.lower, cx, "nat")
                if lt != "nat":
                    raise Untranslatable("slice bound type")
                return (f"(tl {v})" if lo == "1%nat" else f"(skipn {lo} {v})"), vt
            if s.lower is None and s.upper is not None:
                hi, ht = self.expr(s.upper, cx, "nat")
                if ht != "nat":
                    raise Untranslatable("slice bound type")
                return f"(firstn {hi} {v})", vt
        raise Untranslatable(f"subscript {ast.unparse(e)}")

    def call(self, e, cx, want):
        f = ast.unparse(e.func)
        args, kws = e.args, e.keywords
        if f == "len" and len(args) == 1:
            a, t = self.expr(args[0], cx)
            if t not in ("lines", "str", "warns", "names"):
                raise Untranslatable(f"len of {t}")
            return f"(length {a})", "nat"
        if f == "any" and len(args) == 1:
            a, t = self.expr(args[0], cx)
            if t == "lines":
                return f"(existsb nonempty {a})", "bool"
        if f == "split_lines" and len(args) == 1:
            a, t = self.expr(args[0], cx, "str")
            return f"(split_lines_src {a})", "M:lines"      # may raise (lines[-1]): only as a whole right-hand side
        if f == "dedent" and len(args) == 1:
            a, t = self.expr(args[0], cx, "str")
            if t == "str":
                return f"(dedent {a})", "str"
        if f == "dict" and len(args) == 1:
            a, t = self.expr(args[0], cx)
            if t == "items":
                return f"(dict_of {a})", "dict"
        if f == "sorted" and len(args) == 1:
            a, t = self.expr(args[0], cx)
            if t == "names":
                return f"(sorted_strs {a})", "names"
        if f == "issubclass" and len(args) == 2 and ast.unparse(args[1]) == "TestDirective" and cx.types.get(ast.unparse(args[0])) == "cls":
            return "(is_test sg)", "bool"
        if f == "isinstance" and len(args) == 2 and ast.unparse(args[1]) == "dict":
            a, t = self.expr(args[0], cx)
            if t == "yval":
                return f"(y_is_dict {a})", "bool"
        if f == "_RE_NEWLINE.split" and len(args) == 1:
            a, t = self.expr(args[0], cx, "str")
            return f"(re_newline_split {a})", "lines"
        if f == "re.search" and len(args) == 3 and isinstance(args[0], ast.Constant) and args[0].value == "^-{3,}" \
                and ast.unparse(args[2]) == "re.MULTILINE":
            a, t = self.expr(args[1], cx, "str")
            return f"(re_search_dashes {a})", "onat"
        if f == "ParseWarnings":
            return self.parse_warning(e, cx), "pwarn"
        if f == "parse_directive_arguments" and len(args) == 2 and cx.types.get(ast.unparse(args[0])) == "cls":
            a, t = self.expr(args[1], cx, "str")
            return f"(parse_directive_arguments_src sg {a})", "M:lines"
        if f == "_parse_directive_options":
            got = {}
            order = ["content", "directive_class", "as_yaml", "line", "additional_options"]
            for i, a in enumerate(args):
                got[order[i]] = a
            for k in kws:
                got[k.arg] = k.value
            if set(got) != set(order) or cx.types.get(ast.unparse(got["directive_class"])) != "cls":
                raise Untranslatable("_parse_directive_options call")
            c, _ = self.expr(got["content"], cx, "str")
            y, _ = self.expr(got["as_yaml"], cx)
            ln, lt = self.expr(got["line"], cx)
            ad, at = self.expr(got["additional_options"], cx)
            if lt != "onat" or at != "odict":
                raise Untranslatable("_parse_directive_options argument types")
            return f"(parse_directive_options_src {c} sg {y} {ln} {ad})", "M:dopts"
        if f in ("DirectiveParsingResult", "_DirectiveOptions") and not kws:
            return self.record(f, args, cx)
        if isinstance(e.func, ast.Attribute):
            m = e.func.attr
            if m == "pop" and isinstance(e.func.value, ast.Name) and len(args) == 1:
                raise Untranslatable("pop(0) only as a statement argument")       # handled by stmt()
            recv, rt = self.expr(e.func.value, cx, "nat" if m == "start" else "str")
            if m == "strip" and not args and rt == "str":
                return f"(strip {recv})", "str"
            if m == "lstrip" and not args and rt == "str":
                return f"(lstrip {recv})", "str"
            if m == "startswith" and len(args) == 1 and rt == "str" and isinstance(args[0], ast.Constant):
                return f"(startswith {recv} {coq_str(args[0].value)})", "bool"
            if m == "split" and rt == "str" and not args:
                return f"(split_ws {recv})", "lines"
            if m == "split" and rt == "str" and len(args) == 2 and isinstance(args[0], ast.Constant) and args[0].value is None:
                k, kt = self.expr(args[1], cx, "Z")
                return f"(py_split_maxsplit {recv} {self.toZ(k, kt)})", "lines"
            if m == "count" and rt == "str" and len(args) == 1 and isinstance(args[0], ast.Constant) and args[0].value == "\n":
                return f"(count_nl {recv})", "nat"
            if m == "start" and not args and rt == "nat":
                return recv, "nat"
        if isinstance(e.func, ast.Attribute) and e.func.attr == "join" and isinstance(e.func.value, ast.Constant) \
                and e.func.value.value == "\n" and len(args) == 1:
            a, t = self.expr(args[0], cx)
            if t == "lines":
                return f"(join_nl {a})", "str"
        raise Untranslatable(f"call {ast.unparse(e)[:100]}")

    def parse_warning(self, e, cx):
        kind = self.pw_seen.get(id(e))
        if kind and kind[0] == "plain":
            if kind[1] >= len(self.pw_plain):
                raise Untranslatable("more plain ParseWarnings than expected")
            return self.pw_plain[kind[1]]
        if len(e.args) != 3:
            raise Untranslatable("ParseWarnings arity")
        ln, lt = self.expr(e.args[1], cx)
        if lt != "onat":
            raise Untranslatable("ParseWarnings line")
        ty = ast.unparse(e.args[2])
        if ty == "MystWarnings.DIRECTIVE_OPTION_COMMENTS":
            return f"(W_comments {ln})"
        if ty != "MystWarnings.DIRECTIVE_OPTION":
            raise Untranslatable(f"ParseWarnings type {ty}")
        msg = e.args[0]
        if isinstance(msg, ast.Constant):
            if kind is None or kind[1] >= len(self.yaml_plain):
                raise Untranslatable("unexpected constant-message option warning")
            return f"({self.yaml_plain[kind[1]]} {ln})"
        if isinstance(msg, ast.JoinedStr):
            used = {n.id for v in msg.values if isinstance(v, ast.FormattedValue) for n in ast.walk(v.value) if isinstance(n, ast.Name)}
            if "name" in used:
                return f"(W_invalid name {ln})"
            if "unknown_options" in used:
                for v in msg.values:
                    if isinstance(v, ast.FormattedValue) and "unknown_options" in ast.unparse(v.value):
                        t, ty2 = self.expr(v.value, cx)
                        if ty2 != "names":
                            raise Untranslatable("unknown_options interpolation")
                        return f"(W_unknown {t} {ln})"
            if "err" in used:
                return f"(W_tokenize {ln})"
        raise Untranslatable("ParseWarnings message shape")

    def record(self, f, args, cx):
        if f == "DirectiveParsingResult" and len(args) == 5:
            ts = [self.expr(a, cx) for a in args]
            if [t for _, t in ts] not in (["lines", "cdict", "lines", "Z", "warns"], ["lines", "dict", "lines", "Z", "warns"]):
                raise Untranslatable(f"DirectiveParsingResult field types {[t for _, t in ts]}")
            a = [t for t, _ in ts]
            return (f"{{| r_arguments := {a[0]}; r_options := {a[1]}; r_body := {a[2]}; r_body_offset := {a[3]}; "
                    f"r_warnings := {a[4]} |}}"), "dresult"
        if f == "_DirectiveOptions" and len(args) == 4:
            c, ct = self.expr(args[0], cx)
            o, ot = self.expr(args[1], cx, "dict")
            w, wt = self.expr(args[2], cx, "warns")
            h, ht = self.expr(args[3], cx)
            if ot == "yval":
                o = f"(y_items {o})"
            elif ot not in ("dict", "cdict"):
                raise Untranslatable(f"_DirectiveOptions options type {ot}")
            if (ct, wt, ht) != ("lines", "warns", "bool"):
                raise Untranslatable("_DirectiveOptions field types")
            return f"{{| o_content := {c}; o_options := {o}; o_warnings := {w}; o_has_options := {h} |}}", "dopts"
        raise Untranslatable(f"record {f}")

    # ------------------------------------------------------------------ tests (truthiness)
    def test(self, t, cx):
        if isinstance(t, ast.UnaryOp) and isinstance(t.op, ast.Not):
            return f"(negb {self.test(t.operand, cx)})"
        if isinstance(t, ast.BoolOp):
            vals = t.values
            if isinstance(t.op, ast.And) and isinstance(vals[0], ast.Name) and cx.types.get(nm(vals[0].id)) == "lines" \
                    and any(isinstance(n, ast.Subscript) and ast.unparse(n) == f"{vals[0].id}[0]" for v in vals[1:] for n in ast.walk(v)):
                # X and <test on X[0]>: evaluated only when X is non-empty
                x = nm(vals[0].id)
                c2 = cx.copy()
                h, tl_ = c2.fresh(x + "_h"), c2.fresh(x + "_t")
                c2.heads[x] = (h, tl_)
                rest = self.test(ast.BoolOp(op=ast.And(), values=vals[1:]) if len(vals) > 2 else vals[1], c2)
                return f"(match {x} with [] => false | {h} :: {tl_} => {rest} end)"
            op = "andb" if isinstance(t.op, ast.And) else "orb"
            out = self.test(vals[0], cx)
            for v in vals[1:]:
                out = f"({op} {out} {self.test(v, cx)})"
            return out
        if isinstance(t, ast.Compare) and len(t.ops) == 1:
            op, l, r = t.ops[0], t.left, t.comparators[0]
            if isinstance(op, (ast.Is, ast.IsNot)) and isinstance(r, ast.Constant) and r.value is None and isinstance(l, ast.Name):
                x = nm(l.id)
                if cx.types.get(x) not in ("ostr", "onat"):
                    raise Untranslatable(f"`is None` on {cx.types.get(x)}")
                some = "true" if isinstance(op, ast.IsNot) else "false"
                none = "false" if isinstance(op, ast.IsNot) else "true"
                return f"(match {x} with Some _ => {some} | None => {none} end)"
            if isinstance(op, ast.Is) and ast.unparse(r) == "flag" and cx.types.get(ast.unparse(l)) == "conv":
                return f"(opt_is_flag sg {nm(l.id)})"
            a, ta = self.expr(l, cx)
            b, tb = self.expr(r, cx, ta)
            if isinstance(op, ast.Lt) and ta == tb == "nat":
                return f"(Nat.ltb {a} {b})"
            if isinstance(op, ast.Gt) and ta == tb == "nat":
                return f"(Nat.ltb {b} {a})"
            if isinstance(op, ast.Eq) and ta == tb == "str":
                return f"(str_eqb {a} {b})"
            raise Untranslatable(f"comparison {ast.unparse(t)}")
        # truthiness of a value
        term, ty = self.expr(t, cx)
        if ty == "bool":
            return term
        if ty in ("lines", "str", "names", "warns", "dict"):
            return f"(nonempty {term})"
        if ty == "nat":
            return f"(negb (Nat.eqb {term} 0))"
        if ty == "spec":
            return "(has_option_spec sg)"
        if ty == "odict":
            return f"(nonempty (odict {term}))"
        if ty == "ostr":
            return f"(nonempty (ostr_or_empty {term}))"
        raise Untranslatable(f"truthiness of {ty}: {ast.unparse(t)}")

    # ------------------------------------------------------------------ statements
    def assign(self, name, term, ty, cx, rest_fn):
        """let name := term in <rest>, keeping the ostr bookkeeping."""
        n = nm(name)
        declared = cx.types.get(n)
        if declared in ("ostr", "onat") and ty in ("str", "nat"):
            v = cx.fresh(n)
            cx.types[v] = ty
            cx.some[n] = v
            return f"let {v} := {term} in\nlet {n} := Some {v} in\n{rest_fn(cx)}"
        if declared is not None and declared != ty and not (declared in ("dict", "cdict") and ty in ("dict", "cdict")):
            raise Untranslatable(f"{name}: {declared} assigned a {ty}")
        cx.types[n] = ty if declared is None else declared
        cx.some.pop(n, None)
        cx.heads.pop(n, None)
        return f"let {n} := {term} in\n{rest_fn(cx)}"

    def stmts(self, body, cx: Ctx, k):
        """continuation-style translation of a statement list; k(cx) gives the term for falling off the end."""
        if not body:
            return k(cx)
        s, rest = body[0], body[1:]

        def go(c):
            return self.stmts(rest, c, k)
        if isinstance(s, ast.Expr) and isinstance(s.value, ast.Constant) and isinstance(s.value.value, str):
            return go(cx)
        if isinstance(s, ast.AnnAssign) and s.value is None:
            return go(cx)
        if isinstance(s, (ast.Assign, ast.AnnAssign)) and s.value is not None:
            # hoist calls that may raise out of a larger expression: tmp <- split_lines(..)
            inner = [n for n in ast.walk(s.value) if n is not s.value and isinstance(n, ast.Call)
                     and ast.unparse(n.func) == "split_lines"]
            if inner:
                tmp = cx.fresh("lines")
                hoisted = ast.Assign(targets=[ast.Name(id=tmp, ctx=ast.Store())], value=inner[0], lineno=s.lineno, col_offset=0)
                s2 = _copy_stmt(s)
                s2.value = _Replace(inner[0], ast.Name(id=tmp, ctx=ast.Load())).visit(s2.value)
                return self.stmts([hoisted, s2] + rest, cx, k)
        if isinstance(s, (ast.Assign, ast.AnnAssign)):
            target = s.targets[0] if isinstance(s, ast.Assign) else s.target
            if isinstance(s, ast.Assign) and len(s.targets) != 1:
                raise Untranslatable("multiple assignment targets")
            if isinstance(target, ast.Subscript) and isinstance(target.value, ast.Name):
                d = nm(target.value.id)
                kx, kt = self.expr(target.slice, cx)
                vx, vt = self.expr(s.value, cx)
                if cx.types.get(d) != "cdict" or kt != "str" or vt != "cval":
                    raise Untranslatable("item assignment")
                return f"let {d} := dict_set {d} {kx} {vx} in\n{go(cx)}"
            if not isinstance(target, ast.Name):
                raise Untranslatable("assignment target")
            name = target.id
            want = cx.types.get(nm(name)) or DECLARED.get(name)
            if isinstance(s, ast.AnnAssign):
                want = DECLARED.get(name, want)
            if want and nm(name) not in cx.types:
                pass
            term, ty = self.expr(s.value, cx, want if want not in (None,) else None)
            if ty.startswith("M:"):
                n = nm(name)
                cx.types[n] = ty[2:]
                return f"do {n} <- {term};\n{go(cx)}"
            if want and nm(name) not in cx.types and want in ("ostr", "onat", "yval", "dict", "cdict"):
                cx.types[nm(name)] = want
            return self.assign(name, term, ty, cx, go)
        if isinstance(s, ast.AugAssign) and isinstance(s.target, ast.Name) and isinstance(s.op, ast.Add):
            n = nm(s.target.id)
            ty = cx.types.get(n)
            v, vt = self.expr(s.value, cx, ty)
            if ty == "Z" and vt in ("Z", "nat"):
                return f"let {n} := ({n} + {self.toZ(v, vt)})%Z in\n{go(cx)}"
            raise Untranslatable("+= types")
        if isinstance(s, ast.Expr) and isinstance(s.value, ast.Call) and isinstance(s.value.func, ast.Attribute) \
                and isinstance(s.value.func.value, ast.Name):
            obj, meth, args = nm(s.value.func.value.id), s.value.func.attr, s.value.args
            ty = cx.types.get(obj)
            if meth == "pop" and not args and ty == "lines":
                return f"let {obj} := removelast {obj} in\n{go(cx)}"
            if meth == "append" and len(args) == 1:
                pre, term, et = self.arg_with_pop(args[0], cx)
                if (ty, et) in (("warns", "pwarn"), ("lines", "str"), ("names", "str")):
                    return f"{pre}let {obj} := {obj} ++ [{term}] in\n{go(cx)}"
            if meth == "insert" and len(args) == 2 and isinstance(args[0], ast.Constant) and args[0].value == 0 and ty == "lines":
                term, et = self.expr(args[1], cx, "str")
                if et == "str":
                    return f"let {obj} := {term} :: {obj} in\n{go(cx)}"
            raise Untranslatable(f"method statement {ast.unparse(s)[:80]}")
        if isinstance(s, ast.If):
            return self.if_stmt(s, rest, cx, k)
        if isinstance(s, ast.Return) and s.value is not None:
            if cx.loop is not None:
                raise Untranslatable("return inside a loop")
            term, ty = self.expr(s.value, cx)
            return f"Ok {term}" if not term.startswith("{|") else f"Ok {term}"
        if isinstance(s, ast.Raise) and isinstance(s.exc, ast.Call) and ast.unparse(s.exc.func) == "MarkupError":
            if cx.loop is not None:
                raise Untranslatable("raise inside a loop")
            return "Raise MarkupError"
        if isinstance(s, ast.Break) and cx.loop and cx.loop[0] == "while":
            return cx.loop[3](cx)
        if isinstance(s, ast.Continue) and cx.loop and cx.loop[0] == "for":
            return cx.loop[1](cx)
        if isinstance(s, ast.While):
            return self.while_stmt(s, rest, cx, k)
        if isinstance(s, ast.For):
            return self.for_stmt(s, rest, cx, k)
        if isinstance(s, ast.Try):
            return self.try_stmt(s, rest, cx, k)
        raise Untranslatable(f"statement {ast.dump(s)[:140]}")

    def arg_with_pop(self, a, cx):
        """an argument expression that may contain one X.pop(0) (inside `while X:`): returns (prefix lets, term, type)."""
        pops = [n for n in ast.walk(a) if isinstance(n, ast.Call) and isinstance(n.func, ast.Attribute) and n.func.attr == "pop"]
        if not pops:
            t, ty = self.expr(a, cx)
            return "", t, ty
        p = pops[0]
        if len(pops) != 1 or not (isinstance(p.func.value, ast.Name) and len(p.args) == 1 and isinstance(p.args[0], ast.Constant)
                                  and p.args[0].value == 0):
            raise Untranslatable("pop shape")
        x = nm(p.func.value.id)
        if x not in cx.heads:
            raise Untranslatable(f"{x}.pop(0) without a known head")
        h, t_ = cx.heads[x]
        tmp = cx.fresh("popped")
        cx.types[tmp] = "str"
        # evaluate the argument with the pop replaced by the popped value, then the list is its tail
        repl = _Replace(p, ast.Name(id=tmp, ctx=ast.Load()))
        a2 = repl.visit(_copy(a))
        cx.heads.pop(x)
        term, ty = self.expr(a2, cx)
        return f"let {tmp} := {h} in\nlet {x} := {t_} in\n", term, ty

    def if_stmt(self, s, rest, cx, k):
        t = s.test
        # `if X is not None:` / `if X:` on an option: bind the value in the branch
        if isinstance(t, ast.Compare) and isinstance(t.ops[0], ast.IsNot) and isinstance(t.left, ast.Name) \
                and isinstance(t.comparators[0], ast.Constant) and t.comparators[0].value is None \
                and cx.types.get(nm(t.left.id)) in ("ostr", "onat"):
            return self.option_branch(nm(t.left.id), s, rest, cx, k)
        if isinstance(t, ast.Name) and cx.types.get(nm(t.id)) == "onat":
            return self.option_branch(nm(t.id), s, rest, cx, k)
        c1, c2 = cx.copy(), cx.copy()
        a = self.stmts(list(s.body) + rest, c1, k)
        b = self.stmts(list(s.orelse) + rest, c2, k)
        return f"if {self.test(t, cx)} then\n({a})\nelse\n({b})"

    def option_branch(self, x, s, rest, cx, k):
        c1, c2 = cx.copy(), cx.copy()
        v = c1.fresh(x)
        c1.some[x] = v
        c1.types[v] = "str" if cx.types[x] == "ostr" else "nat"
        c2.some.pop(x, None)
        a = self.stmts(list(s.body) + rest, c1, k)
        b = self.stmts(list(s.orelse) + rest, c2, k)
        return f"match {x} with\n| Some {v} =>\n({a})\n| None =>\n({b})\nend"

    def mutated(self, body, cx):
        out = []
        for n in ast.walk(ast.Module(body=body, type_ignores=[])):
            name = None
            if isinstance(n, (ast.Assign, ast.AnnAssign, ast.AugAssign)):
                tg = n.targets[0] if isinstance(n, ast.Assign) else n.target
                if isinstance(tg, ast.Name):
                    name = tg.id
                elif isinstance(tg, ast.Subscript) and isinstance(tg.value, ast.Name):
                    name = tg.value.id
            if isinstance(n, ast.Call) and isinstance(n.func, ast.Attribute) and n.func.attr in ("append", "pop", "insert") \
                    and isinstance(n.func.value, ast.Name):
                name = n.func.value.id
            if name and nm(name) in cx.types and nm(name) not in out:
                out.append(nm(name))
        return out

    def closure(self, body, cx, exclude):
        """variables of the enclosing function read inside a loop body (they become parameters of the auxiliary definition)."""
        assigned = set()
        out = []
        for n in ast.walk(ast.Module(body=body, type_ignores=[])):
            if isinstance(n, ast.Name):
                v = nm(n.id)
                if isinstance(n.ctx, ast.Store):
                    assigned.add(v)
                elif v in cx.types and v not in exclude and v not in out and cx.types[v] not in ("cls",):
                    out.append(v)
        return [v for v in out if v not in assigned or v in cx.types]

    def aux_def(self, base, params, ret, body):
        text = f"{params} : {ret} :=\n{body}"
        if text not in self.aux:
            name = f"{self.fn.name.lstrip('_')}_src_{base}{sum(1 for n, _ in self.aux_order if f'_src_{base}' in n) + 1}"
            self.aux[text] = name
            self.aux_order.append((name, text))
        return self.aux[text]

    def while_stmt(self, s, rest, cx, k):
        if not isinstance(s.test, ast.Name) or s.orelse or cx.loop is not None:
            raise Untranslatable("while shape")
        x = nm(s.test.id)
        if cx.types.get(x) != "lines":
            raise Untranslatable("while on non-list")
        st = self.mutated(list(s.body), cx)
        if x not in st:
            raise Untranslatable("while variable is not consumed")
        free = [v for v in self.closure(list(s.body), cx, set(st)) if v not in st]
        tup = "(" + ", ".join(st) + ")" if len(st) > 1 else st[0]
        pat = f"'{tup}" if len(st) > 1 else tup
        ttype = " * ".join(COQ_TYPES[cx.types[v]] for v in st)
        c = cx.copy()
        c.some = {a: b for a, b in c.some.items() if a not in st}
        h, t_ = x + "__h", x + "__t"
        c.heads = {x: (h, t_)}
        c.types[h] = "str"
        c.loop = ("while", st, None, lambda cc: f"Ok {tup}")
        saved = c.counter
        c.counter = [0]
        body = self.stmts(list(s.body), c, lambda cc: f"__loop __f {tup}")
        c.counter = saved
        params = " ".join(f"({v} : {CLOSURE_TYPES[cx.types[v]]})" for v in free)
        fix = (f"fix __loop (__fuel : nat) (__st : {ttype}) {{struct __fuel}} : res ({ttype}) :=\n"
               f"  match __fuel with\n  | O => Raise OutOfFuel\n  | S __f =>\n    let {pat} := __st in\n"
               f"    match {x} with\n    | [] => Ok {tup}\n    | {h} :: {t_} =>\n({body})\n    end\n  end")
        name = self.aux_def("loop", params, f"nat -> {ttype} -> res ({ttype})", fix)
        c_after = cx.copy()
        c_after.some = {a: b for a, b in c_after.some.items() if a not in st}
        args = " ".join(free)
        return (f"do __w <- {name} sg {args} (S (length {x})) {tup};\nlet {pat} := __w in\n"
                f"{self.stmts(rest, c_after, k)}")

    def for_stmt(self, s, rest, cx, k):
        it = s.iter
        if not (isinstance(it, ast.Call) and isinstance(it.func, ast.Attribute) and it.func.attr == "items"
                and isinstance(it.func.value, ast.Name) and isinstance(s.target, ast.Tuple) and len(s.target.elts) == 2
                and all(isinstance(e, ast.Name) for e in s.target.elts)) or s.orelse or cx.loop is not None:
            raise Untranslatable("for shape")
        d = nm(it.func.value.id)
        if cx.types.get(d) != "dict":
            raise Untranslatable("for over non-dict")
        a, b = (nm(e.id) for e in s.target.elts)
        st = [v for v in self.mutated(list(s.body), cx) if v not in (a, b)]
        free = [v for v in self.closure(list(s.body), cx, set(st) | {a, b}) if v not in st]
        tup = "(" + ", ".join(st) + ")" if len(st) > 1 else st[0]
        pat = f"'{tup}" if len(st) > 1 else tup
        ttype = " * ".join(COQ_TYPES[cx.types[v]] for v in st)
        c = cx.copy()
        c.types[a] = "str"
        c.types[b] = "ostr" if b in OPTIONAL_LOOP_VARS else "str"
        c.some = {x: y for x, y in c.some.items() if x not in st}
        c.loop = ("for", lambda cc: tup)
        saved = c.counter
        c.counter = [0]
        body = self.stmts(list(s.body), c, lambda cc: tup)
        c.counter = saved
        wrap = f"let {b} := Some {b} in\n" if b in OPTIONAL_LOOP_VARS else ""
        params = " ".join(f"({v} : {CLOSURE_TYPES[cx.types[v]]})" for v in free)
        fun = f"fun {pat} '({a}, {b}) =>\n{wrap}{body}"
        name = self.aux_def("step", params, f"{ttype} -> str * str -> {ttype}", fun)
        c_after = cx.copy()
        c_after.some = {x: y for x, y in c_after.some.items() if x not in st}
        args = " ".join(free)
        return (f"let {pat} := fold_left ({name} sg {args}) {d} {tup} in\n{self.stmts(rest, c_after, k)}")

    def try_stmt(self, s, rest, cx, k):
        if len(s.handlers) != 1 or s.finalbody:
            raise Untranslatable("try shape")
        h = s.handlers[0]
        htype = ast.unparse(h.type) if h.type else None
        first = s.body[0]
        calls = [ast.unparse(n.func) for n in ast.walk(first) if isinstance(n, ast.Call)]

        def handler(c):
            cc = c.copy()
            if h.name:
                cc.types[nm(h.name)] = "exc"
            return self.stmts(list(h.body) + rest, cc, k)
        # (a) yaml.safe_load
        if "yaml.safe_load" in calls and htype == "Exception" and len(s.body) == 1 and not s.orelse \
                and isinstance(first, ast.Assign) and isinstance(first.targets[0], ast.Name):
            v = first.value
            if not (isinstance(v, ast.BoolOp) and isinstance(v.op, ast.Or) and len(v.values) == 2 and isinstance(v.values[1], ast.Dict)
                    and not v.values[1].keys and isinstance(v.values[0], ast.Call) and len(v.values[0].args) == 1):
                raise Untranslatable("yaml.safe_load expression")
            arg = v.values[0].args[0]
            if not (isinstance(arg, ast.BoolOp) and isinstance(arg.op, ast.Or) and isinstance(arg.values[0], ast.Name)
                    and isinstance(arg.values[1], ast.Constant) and arg.values[1].value == ""
                    and cx.types.get(nm(arg.values[0].id)) == "ostr"):
                raise Untranslatable("yaml.safe_load argument")
            tgt = nm(first.targets[0].id)
            c_ok = cx.copy()
            c_ok.types[tgt] = "yval"
            c_h = cx.copy()
            c_h.types[tgt] = "yval"
            y = cx.fresh("y")
            return (f"match yaml_load (ostr_or_empty {nm(arg.values[0].id)}) with\n"
                    f"| Y_error | Y_raise _ =>\n({handler(c_h)})\n"
                    f"| {y} =>\nlet {tgt} := y_or_empty {y} in\n({self.stmts(rest, c_ok, k)})\nend")
        # (b) options_to_items
        if "options_to_items" in calls and htype == "TokenizeError" and not s.orelse and isinstance(first, ast.Assign) \
                and isinstance(first.targets[0], ast.Tuple) and len(first.targets[0].elts) == 2:
            a, b = (nm(e.id) for e in first.targets[0].elts)
            arg, at = self.expr(first.value.args[0], cx, "str")
            if at != "str":
                raise Untranslatable("options_to_items argument")
            c_ok = cx.copy()
            c_ok.types[a] = "items"
            c_ok.types[b] = "tokstate"
            e = cx.fresh("e")
            ok = self.stmts(list(s.body[1:]) + rest, c_ok, k)
            return (f"match tokenize {arg} with\n| Ok ({a}, {b}) =>\n({ok})\n"
                    f"| Raise (TokenizeError _) =>\n({handler(cx)})\n| Raise {e} => Raise {e}\nend")
        # (c) options_spec[name]
        if htype == "KeyError" and len(s.body) == 1 and not s.orelse and isinstance(first, ast.Assign) \
                and isinstance(first.value, ast.Subscript) and cx.types.get(ast.unparse(first.value.value)) == "spec":
            key, kt = self.expr(first.value.slice, cx)
            tgt = nm(first.targets[0].id)
            c_ok = cx.copy()
            c_ok.types[tgt] = "conv"
            return (f"if opt_known sg {key} then\n(let {tgt} := {key} in\n{self.stmts(rest, c_ok, k)})\n"
                    f"else\n({handler(cx)})")
        # (d) converter(value)
        if htype == "Exception" and len(s.body) == 1 and isinstance(first, ast.Assign) and isinstance(first.value, ast.Call) \
                and isinstance(first.value.func, ast.Name) and cx.types.get(nm(first.value.func.id)) == "conv" \
                and len(first.value.args) == 1:
            conv = nm(first.value.func.id)
            arg, at = self.expr(first.value.args[0], cx)
            if at != "ostr":
                raise Untranslatable("converter argument")
            tgt = nm(first.targets[0].id)
            c_ok = cx.copy()
            c_ok.types[tgt] = "cval"
            ok = self.stmts(list(s.orelse) + rest, c_ok, k)
            return f"match opt_conv sg {conv} {arg} with\n| Ok {tgt} =>\n({ok})\n| Raise _ =>\n({handler(cx)})\nend"
        raise Untranslatable(f"try statement at line {s.lineno}")


class _Replace(ast.NodeTransformer):
    def __init__(self, old, new):
        self.old_dump, self.new = ast.dump(old), new

    def generic_visit(self, node):
        if ast.dump(node) == self.old_dump:
            return self.new
        return super().generic_visit(node)

    def visit(self, node):
        if ast.dump(node) == self.old_dump:
            return self.new
        return super().visit(node)


def _copy_stmt(node):
    return ast.parse(ast.unparse(node)).body[0]


def _copy(node):
    return ast.parse(ast.unparse(node), mode="eval").body


# declared types of locals whose first value does not tell (annotation-only or None / [] / {})
DECLARED = {"options_block": "ostr", "yaml_lines": "lines", "yaml_errors": "warns", "validation_errors": "warns",
            "options": "dict", "unknown_options": "names", "new_options": "cdict", "parse_warnings": "warns",
            "arguments": "lines", "yaml_options": "yval", "options_spec": "spec", "line": "onat", "content_offset": "Z",
            "body_lines": "lines"}
OPTIONAL_LOOP_VARS = {"value"}
CLOSURE_TYPES = dict(COQ_TYPES, spec="dsig")


def fail_end(_cx):
    raise Untranslatable("function may fall off the end")


def translate(fn, coq_name, params, coq_params, ret, pw_plain=(), rec="") -> str:
    tr = DirTranslator(fn, params, list(pw_plain), rec)
    cx = Ctx(types={nm(k): v for k, v in params.items()})
    body = tr.stmts(list(fn.body), cx, fail_end)
    aux = "".join(f"Definition {name} (sg : dsig) {text}.\n\n" for name, text in tr.aux_order)
    return aux + f"Definition {coq_name} {coq_params} : {ret} :=\n{body}.\n"


def check_sig(fn, names, kwonly=()):
    got = [a.arg for a in fn.args.args]
    gotk = [a.arg for a in fn.args.kwonlyargs]
    if got != list(names) or gotk != list(kwonly) or fn.args.vararg or fn.args.kwarg:
        raise Untranslatable(f"{fn.name} signature {got} {gotk}")


def generate(repo: Path) -> str:
    src = (repo / "myst_parser" / "parsers" / "directives.py").read_text()
    tree = ast.parse(src)
    f_split = find_function(tree, "split_lines")
    check_sig(f_split, ["text"])
    f_args = find_function(tree, "parse_directive_arguments")
    check_sig(f_args, ["directive_cls", "arg_text"])
    f_opts = find_function(tree, "_parse_directive_options")
    check_sig(f_opts, ["content", "directive_class", "as_yaml", "line", "additional_options"])
    f_text = find_function(tree, "parse_directive_text")
    check_sig(f_text, ["directive_class", "first_line", "content"], ["line", "validate_options", "additional_options"])
    out = ["(* GENERATED by gen/c08_dirsrc.py from myst_parser/parsers/directives.py - do not edit *)",
           "From Coq Require Import List NArith ZArith Bool.",
           "From MV Require Import Base.PyStr.", "From MV Require Import Base.Res.", "From MV Require Import Dir.PyLines.",
           "From MV Require Import Dir.DirModel.", "From MV Require Import Dir.PyRuntime.",
           "Import ListNotations.", "Open Scope N_scope.", ""]
    out.append("(* split_lines *)")
    out.append(split_lines_src(f_split))
    out.append("(* parse_directive_arguments *)")
    out.append(translate(f_args, "parse_directive_arguments_src", {"directive_cls": "cls", "arg_text": "str"},
                         "(sg : dsig) (arg_text : str)", "res (list str)"))
    out.append("Section Src.\nVariable tokenize : str -> res (list (str * str) * bool).\nVariable yaml_load : str -> yres.\n")
    out.append("(* _parse_directive_options *)")
    out.append(translate(f_opts, "parse_directive_options_src",
                         {"content": "str", "directive_class": "cls", "as_yaml": "bool", "line": "onat", "additional_options": "odict"},
                         "(content : str) (sg : dsig) (as_yaml : bool) (line : option nat) "
                         "(additional_options : option (list (str * str)))", "res dopts"))
    out.append("(* parse_directive_text *)")
    out.append(translate(f_text, "parse_directive_text_src",
                         {"directive_class": "cls", "first_line": "str", "content": "str", "line": "onat",
                          "validate_options": "bool", "additional_options": "odict"},
                         "(sg : dsig) (first_line content : str) (line : option nat) (validate_options : bool) "
                         "(additional_options : option (list (str * str)))", "res dresult",
                         pw_plain=["W_split", "W_has_content"]))
    out.append("End Src.")
    return "\n".join(out) + "\n"


def split_lines_src(fn) -> str:
    """lines = _RE_NEWLINE.split(text); if lines[-1] == "": lines.pop(); return lines"""
    stmts = [s for s in fn.body if not (isinstance(s, ast.Expr) and isinstance(s.value, ast.Constant))]
    got = [ast.unparse(s) for s in stmts]
    # translated generically except for lines[-1], which is py_last (IndexError on an empty list)
    if len(stmts) != 3 or not isinstance(stmts[1], ast.If) or ast.unparse(stmts[1].test) != "lines[-1] == ''":
        raise Untranslatable("split_lines shape:\n" + "\n".join(got))
    tr = DirTranslator(fn, {"text": "str"}, [], "")
    cx = Ctx(types={"text": "str"})
    first = tr.stmts([stmts[0]], cx, lambda c: "@@REST@@")
    c1 = cx.copy()
    then = tr.stmts(list(stmts[1].body) + [stmts[2]], c1, fail_end)
    c2 = cx.copy()
    els = tr.stmts(list(stmts[1].orelse) + [stmts[2]], c2, fail_end)
    rest = f"do __last <- py_last lines;\nif str_eqb __last [] then\n({then})\nelse\n({els})"
    return f"Definition split_lines_src (text : str) : res (list str) :=\n{first.replace('@@REST@@', rest)}.\n"
