"""Regenerate coq/Gen/LinesSrc.v: the straight-line line arithmetic of the renderer, read from the source.

Each site is located structurally (function, assignment target / keyword / argument position), its expression is
translated by a tiny arithmetic translator (names, attributes, token.map[i], + - integer constants, len(.),
`x if x is not None else y`, str.count("\\n", 0, e)) into a Gallina definition over Z, and coq/Dir/Lines.v computes
every line through these definitions - so an edit such as `+ 1` -> `+ 2` changes the subject of the C04 theorems.
Fail-closed: a site that is not found exactly once, or an expression outside the grammar, raises Untranslatable.

Domain mapping (TRUSTED): Python int -> Z; `token.map[0]`, `token.map[1]` -> parameters map0, map1; attribute
`a.b` -> parameter b (leading underscores dropped); `s.count("\\n", 0, e)` -> count_nl_upto s e (newlines among the first e
characters); `len(s)` -> Z.of_nat (length s); None-test on an optional int -> match on option Z.
"""
from __future__ import annotations

import ast
from pathlib import Path

from gen.py2coq import Untranslatable, find_function


def pname(n: str) -> str:
    return n.lstrip("_") or n


class Arith:
    def __init__(self):
        self.params = []        # (name, type) in order of first use

    def use(self, n, ty="Z"):
        n = pname(n)
        if (n, ty) not in self.params:
            if any(p == n for p, _ in self.params):
                raise Untranslatable(f"parameter {n} used at two types")
            self.params.append((n, ty))
        return n

    def tr(self, e):
        if isinstance(e, ast.Constant) and isinstance(e.value, int) and not isinstance(e.value, bool):
            return f"{e.value}" if e.value >= 0 else f"({e.value})"
        if isinstance(e, ast.Name):
            return self.use(e.id)
        if isinstance(e, ast.Attribute) and isinstance(e.value, ast.Name) and e.value.id == "self":
            return self.use("self_" + e.attr.lstrip("_"))
        if isinstance(e, ast.Attribute) and isinstance(e.value, (ast.Name, ast.Attribute)):
            return self.use(e.attr)
        if isinstance(e, ast.Subscript) and ast.unparse(e.value) == "token.map" and isinstance(e.slice, ast.Constant) \
                and e.slice.value in (0, 1):
            return self.use(f"map{e.slice.value}")
        if isinstance(e, ast.BinOp) and isinstance(e.op, (ast.Add, ast.Sub)):
            op = "+" if isinstance(e.op, ast.Add) else "-"
            return f"({self.tr(e.left)} {op} {self.tr(e.right)})"
        if isinstance(e, ast.Call) and ast.unparse(e.func) == "len" and len(e.args) == 1 and isinstance(e.args[0], ast.Name):
            return f"Z.of_nat (length {self.use(e.args[0].id, 'str')})"
        if isinstance(e, ast.Call) and isinstance(e.func, ast.Attribute) and e.func.attr == "count" and len(e.args) == 3 \
                and isinstance(e.args[0], ast.Constant) and e.args[0].value == "\n" \
                and isinstance(e.args[1], ast.Constant) and e.args[1].value == 0 and isinstance(e.func.value, ast.Name):
            return f"count_nl_upto {self.use(e.func.value.id, 'str')} {self.tr(e.args[2])}"
        if isinstance(e, ast.IfExp):
            t = e.test
            if isinstance(t, ast.Compare) and isinstance(t.ops[0], ast.IsNot) and isinstance(t.comparators[0], ast.Constant) \
                    and t.comparators[0].value is None and ast.dump(t.left) == ast.dump(e.body):
                x = self.use(e.body.attr if isinstance(e.body, ast.Attribute) else e.body.id, "option Z")
                return f"(match {x} with Some {x}__v => {x}__v | None => {self.tr(e.orelse)} end)"
        if isinstance(e, ast.BoolOp) and isinstance(e.op, ast.Or) and len(e.values) == 2 and isinstance(e.values[0], ast.Name):
            # `x or y` for an optional int x (None -> y; a line number / offset 0 is falsy too and then y is taken as well)
            x = self.use(e.values[0].id, "option Z")
            other = self.tr(e.values[1])
            return f"(match {x} with Some {x}__v => if ({x}__v =? 0) then {other} else {x}__v | None => {other} end)"
        raise Untranslatable(f"arithmetic expression {ast.unparse(e)}")


def define(name, e, comment, fixed_params=None):
    a = Arith()
    for p in fixed_params or []:
        a.use(*p) if isinstance(p, tuple) else a.use(p)
    body = a.tr(e)
    params = " ".join(f"({p} : {t})" for p, t in a.params)
    return f"(* {comment}: {ast.unparse(e)} *)\nDefinition {name} {params} : Z := {body}.\n"


def one(nodes, what):
    nodes = list(nodes)
    if len(nodes) != 1:
        raise Untranslatable(f"{what}: expected exactly one site, found {len(nodes)}")
    return nodes[0]


def map_assign(fn, what):
    """`token.map = [A, B]` inside fn -> A"""
    a = one((n for n in ast.walk(fn) if isinstance(n, ast.Assign) and ast.unparse(n.targets[0]) == "token.map"
             and isinstance(n.value, ast.List) and len(n.value.elts) == 2), what)
    return a.value.elts[0]


def kw(call, name):
    return one((k.value for k in call.keywords if k.arg == name), f"keyword {name}")


def generate(repo: Path) -> str:
    base = ast.parse((repo / "myst_parser" / "mdit_to_docutils" / "base.py").read_text())
    mock = ast.parse((repo / "myst_parser" / "mocking.py").read_text())
    out = ["(* GENERATED by gen/c04_linessrc.py from mdit_to_docutils/base.py and mocking.py - do not edit *)",
           "From Coq Require Import List NArith ZArith.", "From MV Require Import Base.PyStr.",
           "From MV Require Import Dir.PyLines.", "Import ListNotations.", "Open Scope Z_scope.", "",
           "(* s.count(\"\\n\", 0, e): newlines among the first e characters *)",
           "Definition count_nl_upto (s : str) (e : Z) : Z := Z.of_nat (count_nl (firstn (Z.to_nat e) s)).", ""]
    # token_line: the value returned when the token has a map
    tl = find_function(base, "token_line")
    ret = [s for s in tl.body if isinstance(s, ast.Return)]
    if len(ret) != 1:
        raise Untranslatable("token_line: expected one top-level return")
    out.append(define("token_line_src", ret[0].value, "token_line", ["map0", "map1"]))
    # _render_tokens / nested_render_text: the new map[0]
    out.append(define("render_tokens_map0_src", map_assign(find_function(base, "_render_tokens"), "_render_tokens"),
                      "_render_tokens, token.map[0] :=", ["map0", "map1"]))
    out.append(define("nested_map0_src", map_assign(find_function(base, "nested_render_text"), "nested_render_text"),
                      "nested_render_text, token.map[0] :=", ["map0", "map1", "lineno"]))
    # render_directive: position = token_line(token)
    rd = find_function(base, "render_directive")
    pos = one((n for n in ast.walk(rd) if isinstance(n, ast.Assign) and ast.unparse(n.targets[0]) == "position"), "position")
    if ast.unparse(pos.value) != "token_line(token)":
        raise Untranslatable("render_directive: position is no longer token_line(token)")
    run = find_function(base, "run_directive")
    # the directive instance: lineno=position, content_offset=...
    inst = one((n for n in ast.walk(run) if isinstance(n, ast.Call) and ast.unparse(n.func) == "directive_class"), "directive_class(...)")
    if ast.unparse(kw(inst, "lineno")) != "position":
        raise Untranslatable("run_directive: lineno is no longer position")
    out.append(define("content_offset_src", kw(inst, "content_offset"), "run_directive, content_offset=",
                      ["body_offset", "prepended_lines"]))
    st = one((n for n in ast.walk(run) if isinstance(n, ast.Call) and ast.unparse(n.func) == "MockState"), "MockState(...)")
    if [ast.unparse(a) for a in st.args] != ["self", "state_machine", "position"]:
        raise Untranslatable("run_directive: MockState arguments")
    # warnings of parse_directive_text
    cw = one((n for n in ast.walk(run) if isinstance(n, ast.Call) and ast.unparse(n.func) == "self.create_warning"
              and any(k.arg == "append_to" for k in n.keywords)), "create_warning for parsed.warnings")
    out.append(define("warning_line_src", kw(cw, "line"), "run_directive, warning line=", [("lineno", "option Z"), "position"]))
    uw = one((n for n in ast.walk(run) if isinstance(n, ast.Call) and ast.unparse(n.func) == "self.create_warning"
              and not any(k.arg == "append_to" for k in n.keywords)), "unknown directive warning")
    if ast.unparse(kw(uw, "line")) != "position":
        raise Untranslatable("unknown-directive warning line")
    # MockState: self._lineno = lineno; nested_parse
    ms = one((n for n in ast.walk(mock) if isinstance(n, ast.ClassDef) and n.name == "MockState"), "class MockState")
    init = find_function(ms, "__init__")
    if not any(isinstance(n, ast.Assign) and ast.unparse(n) == "self._lineno = lineno" for n in ast.walk(init)):
        raise Untranslatable("MockState.__init__: self._lineno = lineno")
    npf = find_function(ms, "nested_parse")
    call = one((n for n in ast.walk(npf) if isinstance(n, ast.Call) and ast.unparse(n.func).endswith("nested_render_text")),
               "nested_parse -> nested_render_text")
    if len(call.args) < 2:
        raise Untranslatable("nested_parse: nested_render_text arguments")
    out.append(define("nested_parse_lineno_src", call.args[1], "MockState.nested_parse, lineno argument", ["self_lineno", "input_offset"]))
    # MockState.block_quote (epigraph / pull-quote / highlights): the offset handed on, the attribution's lineno and line
    bq = find_function(ms, "block_quote")
    bcall = one((n for n in ast.walk(bq) if isinstance(n, ast.Call) and ast.unparse(n.func) == "self.nested_parse"),
                "block_quote -> nested_parse")
    if len(bcall.args) != 3:
        raise Untranslatable("block_quote: nested_parse arguments")
    out.append(define("block_quote_offset_src", bcall.args[1], "MockState.block_quote, offset handed to nested_parse", ["line_offset"]))
    alin = one((n for n in ast.walk(bq) if isinstance(n, ast.Assign) and ast.unparse(n.targets[0]) == "lineno"), "attribution lineno")
    out.append(define("attribution_lineno_src", alin.value, "MockState.block_quote, lineno of the attribution text",
                      ["self_lineno", "line_offset", ("attribution_line_offset", "option Z")]))
    itext = one((n for n in ast.walk(bq) if isinstance(n, ast.Call) and ast.unparse(n.func) == "self.inline_text"), "attribution inline_text")
    if ast.unparse(itext.args[1]) != "lineno":
        raise Untranslatable("block_quote: inline_text lineno")
    gsl = one((n for n in ast.walk(bq) if isinstance(n, ast.Call) and ast.unparse(n.func) == "self.state_machine.get_source_and_line"),
              "attribution get_source_and_line")
    out.append(define("attribution_line_src", gsl.args[0], "MockState.block_quote, line of the attribution node", ["lineno"]))
    # MockState.inline_text -> MockInliner.parse -> nested_render_text(text, lineno, inline=True)
    it = find_function(ms, "inline_text")
    icall = one((n for n in ast.walk(it) if isinstance(n, ast.Call) and ast.unparse(n.func) == "self.inliner.parse"), "inline_text -> inliner.parse")
    if ast.unparse(icall.args[1]) != "lineno":
        raise Untranslatable("inline_text: lineno is no longer passed on")
    mi = one((n for n in ast.walk(mock) if isinstance(n, ast.ClassDef) and n.name == "MockInliner"), "class MockInliner")
    pcall = one((n for n in ast.walk(find_function(mi, "parse")) if isinstance(n, ast.Call)
                 and ast.unparse(n.func).endswith("nested_render_text")), "MockInliner.parse -> nested_render_text")
    out.append(define("inliner_lineno_src", pcall.args[1], "MockInliner.parse, lineno argument", ["lineno"]))
    # MockState.parse_directive_block: returned content offset
    pdb = find_function(ms, "parse_directive_block")
    retv = one((n for n in ast.walk(pdb) if isinstance(n, ast.Return) and isinstance(n.value, ast.Tuple)), "parse_directive_block return")
    out.append(define("directive_block_offset_src", retv.value.elts[3], "MockState.parse_directive_block, content offset",
                      ["line_offset", "body_offset"]))
    # MockStateMachine.get_source_and_line
    msm = one((n for n in ast.walk(mock) if isinstance(n, ast.ClassDef) and n.name == "MockStateMachine"), "class MockStateMachine")
    gs = find_function(msm, "get_source_and_line")
    gret = one((n for n in ast.walk(gs) if isinstance(n, ast.Return) and isinstance(n.value, ast.Tuple)), "get_source_and_line return")
    out.append(define("source_and_line_src", gret.value.elts[1], "MockStateMachine.get_source_and_line, line",
                      [("lineno", "option Z"), "self_lineno"]))
    # render_colon_fence: prepended_lines and the plain div
    cf = find_function(base, "render_colon_fence")
    pre = [n.value.value for n in ast.walk(cf) if isinstance(n, ast.Assign) and ast.unparse(n.targets[0]) == "prepended_lines"
           and isinstance(n.value, ast.Constant)]
    if sorted(pre) != [0, 1]:
        raise Untranslatable(f"render_colon_fence: prepended_lines values {pre}")
    added = [n for n in ast.walk(cf) if isinstance(n, ast.BinOp) and isinstance(n.left, ast.Constant) and n.left.value == "\n"]
    if len(added) != 1:
        raise Untranslatable("render_colon_fence: the prepended text is no longer one newline")
    out.append("(* render_colon_fence: lines put in front of a content that starts with ':::' *)\n"
               f"Definition hack_prepended_src : Z := {max(pre)}.\n")
    div = one((n for n in ast.walk(cf) if isinstance(n, ast.Call) and ast.unparse(n.func) == "self.nested_render_text"), "div render")
    if ast.unparse(div.args[1]) != "token_line(token, 0)":
        raise Untranslatable("plain div: lineno is no longer token_line(token, 0)")
    # include
    inc = one((n for n in ast.walk(mock) if isinstance(n, ast.ClassDef) and n.name == "MockIncludeDirective"), "class MockIncludeDirective")
    runi = find_function(inc, "run")
    ic = one((n for n in ast.walk(runi) if isinstance(n, ast.Call) and ast.unparse(n.func) == "self.renderer.nested_render_text"),
             "include -> nested_render_text")
    out.append(define("include_lineno_src", ic.args[1], "MockIncludeDirective.run, lineno argument", ["startline"]))
    orz = one((n for n in ast.walk(runi) if isinstance(n, ast.Assign) and ast.unparse(n.targets[0]) == "startline"
               and isinstance(n.value, ast.BoolOp)), "startline = startline or 0")
    out.append(define("include_startline0_src", orz.value, "MockIncludeDirective.run, startline =", [("startline", "option Z")]))
    aug = one((n for n in ast.walk(runi) if isinstance(n, ast.AugAssign) and ast.unparse(n.target) == "startline"), "startline +=")
    if not isinstance(aug.op, ast.Add):
        raise Untranslatable("startline augmented assignment")
    out.append(define("include_advance_src", ast.BinOp(left=ast.Name(id="startline", ctx=ast.Load()), op=ast.Add(), right=aug.value),
                      "MockIncludeDirective.run, start-after: startline +=", ["startline", ("file_content", "str"), "split_index", ("split_on", "str")]))
    cut = one((n for n in ast.walk(runi) if isinstance(n, ast.Assign) and ast.unparse(n.targets[0]) == "file_content"
               and isinstance(n.value, ast.Subscript) and isinstance(n.value.slice, ast.Slice) and n.value.slice.upper is None
               and n.value.slice.lower is not None and isinstance(n.value.slice.lower, ast.BinOp)), "file_content = file_content[cut:]")
    out.append(define("include_cut_src", cut.value.slice.lower, "MockIncludeDirective.run, start-after: file_content[...:]",
                      ["split_index", ("split_on", "str")]))
    return "\n".join(out)
