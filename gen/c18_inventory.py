"""Translator for C18: reads myst_parser/inventory.py (working tree) and the installed
sphinx/util/inventory.py with Python's ast and writes coq/Gen/Inventory.v.

Fail-closed: every shape that is not exactly the one understood raises GenError.

Emitted:
  myst_v2_regex / sphinx_v2_regex (pattern text, verbose flag), regex_same : bool,
  v2_ast : re            (the MyST pattern parsed by re._parser, as a Regex.re term)
  BUFSIZE, sphinx_BUFSIZE, the header literals and slice offsets of both loaders,
  the string constants of _load_v1/_load_v2,
  ws_table / digit_ranges / linesep_table / bytes_ws_table measured on the running interpreter.
"""
from __future__ import annotations

import ast
import re
import re._constants as sre_c
import re._parser as sre_p
from pathlib import Path


class GenError(Exception):
    pass


def need(cond, msg):
    if not cond:
        raise GenError(msg)


def coq_str(s: str) -> str:
    return "[" + "; ".join(str(ord(c)) for c in s) + "]%N"


def coq_bytes(b: bytes) -> str:
    return "[" + "; ".join(str(c) for c in b) + "]%N"


def const_int(node) -> int:
    """integer constant expression: literals combined with * + -"""
    if isinstance(node, ast.Constant) and type(node.value) is int:
        return node.value
    if isinstance(node, ast.BinOp) and isinstance(node.op, (ast.Mult, ast.Add, ast.Sub)):
        a, b = const_int(node.left), const_int(node.right)
        return a * b if isinstance(node.op, ast.Mult) else a + b if isinstance(node.op, ast.Add) else a - b
    raise GenError(f"not an integer constant expression: {ast.dump(node)[:200]}")


def find_func(tree, name, cls=None):
    scope = tree.body
    if cls:
        cs = [n for n in tree.body if isinstance(n, ast.ClassDef) and n.name == cls]
        need(len(cs) == 1, f"class {cls} not found exactly once")
        scope = cs[0].body
    fs = [n for n in scope if isinstance(n, ast.FunctionDef) and n.name == name]
    need(len(fs) == 1, f"function {name} not found exactly once")
    return fs[0]


def module_assign(tree, name):
    vs = [n for n in tree.body if isinstance(n, ast.Assign) and len(n.targets) == 1
          and isinstance(n.targets[0], ast.Name) and n.targets[0].id == name]
    need(len(vs) == 1, f"module level assignment {name} not found exactly once")
    return vs[0].value


def is_attr(node, obj, attr):
    return isinstance(node, ast.Attribute) and node.attr == attr and isinstance(node.value, ast.Name) and node.value.id == obj


def line_regex(func):
    """the single re.match(<literal>, <x>.rstrip()[, flags=re.VERBOSE]) call of a v2 loader -> (pattern, verbose)"""
    calls = [n for n in ast.walk(func) if isinstance(n, ast.Call) and is_attr(n.func, "re", "match")]
    need(len(calls) == 1, f"{func.name}: expected exactly one re.match call, found {len(calls)}")
    c = calls[0]
    need(len(c.args) == 2 and isinstance(c.args[0], ast.Constant) and isinstance(c.args[0].value, str),
         f"{func.name}: re.match must be called with a string literal and one subject")
    subj = c.args[1]
    need(isinstance(subj, ast.Call) and isinstance(subj.func, ast.Attribute) and subj.func.attr == "rstrip"
         and not subj.args and not subj.keywords and isinstance(subj.func.value, ast.Name),
         f"{func.name}: subject of re.match is not <name>.rstrip()")
    verbose = False
    for kw in c.keywords:
        need(kw.arg == "flags" and is_attr(kw.value, "re", "VERBOSE"), f"{func.name}: unsupported keyword/flag in re.match")
        verbose = True
    pat = c.args[0].value
    m = re.match(r"\(\?([a-zA-Z]+)\)", pat)
    if m:
        need(m.group(1) == "x", f"{func.name}: unsupported inline flags {m.group(1)}")
        verbose = True
        pat = pat[m.end():]
    need("(?" not in pat, f"{func.name}: further inline flags / extension groups are not supported")
    return pat, verbose


def str_compares(func, op_types):
    """string (or bytes) literals compared with ==/in/not in inside func, in source order"""
    out = []
    for n in ast.walk(func):
        if isinstance(n, ast.Compare) and len(n.ops) == 1 and isinstance(n.ops[0], op_types):
            for side in (n.left, n.comparators[0]):
                if isinstance(side, ast.Constant) and isinstance(side.value, (str, bytes)):
                    out.append((n.lineno, n.col_offset, side.value))
    return [v for _, _, v in sorted(out, key=lambda t: (t[0], t[1]))]


def lower_slices(func):
    """constants k of subscripts x[k:] in func, in source order"""
    out = []
    for n in ast.walk(func):
        if isinstance(n, ast.Subscript) and isinstance(n.slice, ast.Slice) and n.slice.upper is None and n.slice.step is None \
                and n.slice.lower is not None and isinstance(n.slice.lower, ast.Constant) and type(n.slice.lower.value) is int:
            out.append((n.lineno, n.col_offset, n.slice.lower.value))
    return [v for _, _, v in sorted(out)]


# ---------------------------------------------------------------- regex AST

def tr_class(items):
    need(len(items) == 1, f"character set with {len(items)} members is not supported")
    op, av = items[0]
    need(op is sre_c.CATEGORY, f"unsupported set member {op}")
    table = {sre_c.CATEGORY_SPACE: "CSpace", sre_c.CATEGORY_NOT_SPACE: "CNotSpace",
             sre_c.CATEGORY_DIGIT: "CDigit", sre_c.CATEGORY_NOT_DIGIT: "CNotDigit"}
    need(av in table, f"unsupported category {av}")
    return table[av]


def has_group(seq):
    for op, av in seq:
        if op is sre_c.SUBPATTERN:
            return True
        if op in (sre_c.MAX_REPEAT, sre_c.MIN_REPEAT) and has_group(av[2]):
            return True
    return False


def tr_seq(seq):
    parts = [tr_item(op, av) for op, av in seq]
    if not parts:
        return "REmpty"
    out = parts[-1]
    for p in reversed(parts[:-1]):
        out = f"(RSeq {p} {out})"
    return out


def tr_item(op, av):
    if op is sre_c.LITERAL:
        return f"(RChar (CLit {av}))"
    if op is sre_c.ANY:
        return "(RChar CAny)"
    if op is sre_c.IN:
        return f"(RChar {tr_class(av)})"
    if op is sre_c.SUBPATTERN:
        group, add_flags, del_flags, p = av
        need(group is not None and add_flags == 0 and del_flags == 0, "only plain capturing groups are supported")
        return f"(RGroup {group} {tr_seq(p)})"
    if op in (sre_c.MAX_REPEAT, sre_c.MIN_REPEAT):
        lo, hi, p = av
        greedy = "true" if op is sre_c.MAX_REPEAT else "false"
        body = tr_seq(p)
        if (lo, hi) == (0, sre_c.MAXREPEAT):
            return f"(RStar {greedy} {body})"
        if (lo, hi) == (1, sre_c.MAXREPEAT):
            need(not has_group(p), "a capturing group under '+' is not supported")
            return f"(RSeq {body} (RStar {greedy} {body}))"
        if (lo, hi) == (0, 1):
            return f"(ROpt {greedy} {body})"
        raise GenError(f"unsupported repeat bounds {lo},{hi}")
    raise GenError(f"unsupported regex construct {op}")


def regex_ast(pat, verbose):
    flags = re.VERBOSE if verbose else 0
    tree = sre_p.parse(pat, flags)
    need(tree.state.flags & ~(re.VERBOSE | re.UNICODE) == 0, "unexpected regex flags")
    return tr_seq(list(tree)), tree.state.groups - 1


# ---------------------------------------------------------------- interpreter tables

def interpreter_tables():
    ws = [c for c in range(0x110000) if chr(c).isspace()]
    ws_re = [c for c in range(0x110000) if re.match(r"\s", chr(c))]
    need(ws == ws_re, "str.isspace and regex \\s differ on this interpreter")
    dig = [c for c in range(0x110000) if re.match(r"\d", chr(c))]
    ranges = []
    for c in dig:
        if ranges and ranges[-1][1] + 1 == c:
            ranges[-1][1] = c
        else:
            ranges.append([c, c])
    seps = [c for c in range(0x110000) if len(("a" + chr(c) + "b").splitlines()) == 2]
    need("a\r\nb".splitlines() == ["a", "b"] and "a\n\rb".splitlines() == ["a", "", "b"], "unexpected splitlines CR LF handling")
    bws = [c for c in range(256) if bytes([c]).isspace()]
    need(all(bytes([c, 65, c]).strip() == b"A" for c in bws), "bytes.isspace and bytes.strip differ")
    return ws, ranges, seps, bws


# ---------------------------------------------------------------- main

def generate(repo: Path, sphinx_file: Path):
    msrc = (repo / "myst_parser" / "inventory.py").read_text()
    ssrc = sphinx_file.read_text()
    mt, st = ast.parse(msrc), ast.parse(ssrc)

    m_pat, m_verbose = line_regex(find_func(mt, "_load_v2"))
    s_pat, s_verbose = line_regex(find_func(st, "_loads_v2", "InventoryFile"))
    m_ast, m_groups = regex_ast(m_pat, m_verbose)
    need(m_groups == 5, f"the v2 line regex must have 5 groups, has {m_groups}")

    bufsize = const_int(module_assign(mt, "_BUFSIZE"))
    s_bufsize = const_int(module_assign(st, "BUFSIZE"))
    rb = find_func(mt, "read_buffer", "InventoryFileReader")
    reads = [n for n in ast.walk(rb) if isinstance(n, ast.Call) and isinstance(n.func, ast.Attribute) and n.func.attr == "read"]
    need(len(reads) == 1 and len(reads[0].args) == 1 and isinstance(reads[0].args[0], ast.Name) and reads[0].args[0].id == "_BUFSIZE",
         "read_buffer must call stream.read(_BUFSIZE) exactly once")

    load = find_func(mt, "load")
    hdrs = str_compares(load, (ast.Eq,))
    need(len(hdrs) == 2, f"load: expected two header comparisons, found {hdrs!r}")
    need(hdrs[0].endswith("1") and hdrs[1].endswith("2"), "load: header literals not in the order v1, v2")
    v1, v2 = find_func(mt, "_load_v1"), find_func(mt, "_load_v2")
    sl1, sl2 = lower_slices(v1), lower_slices(v2)
    need(len(sl1) == 2 and len(sl2) == 2, f"_load_v1/_load_v2: expected two [k:] slices each, found {sl1} {sl2}")
    v2_in = str_compares(v2, (ast.In, ast.NotIn))
    v2_eq = str_compares(v2, (ast.Eq,))
    need(len(v2_in) >= 2, f"_load_v2: unexpected membership tests {v2_in!r}")
    zmark = [v for v in v2_in if v not in (":", "module")]
    need(len(zmark) == 1, f"_load_v2: cannot identify the compression marker among {v2_in!r}")
    need(":" in v2_in, "_load_v2: no ':' test on the type")
    # (the branches of _load_v1 / _load_v2 are tied by the statement-level translation gen/c18_src.py since round 3)

    s_loads = find_func(st, "loads", "InventoryFile")
    s_hdrs = [v for v in str_compares(s_loads, (ast.Eq,)) if isinstance(v, bytes)]
    need(len(s_hdrs) == 2 and s_hdrs[0].endswith(b"2") and s_hdrs[1].endswith(b"1"),
         f"sphinx loads: expected header comparisons v2, v1; found {s_hdrs!r}")
    s_sl1 = lower_slices(find_func(st, "_loads_v1", "InventoryFile"))
    s_sl2 = lower_slices(find_func(st, "_loads_v2", "InventoryFile"))
    need(len(s_sl1) >= 2 and len(s_sl2) >= 2, "sphinx loaders: expected [k:] slices for project and version")
    s_z = [v for v in str_compares(find_func(st, "_loads_v2", "InventoryFile"), (ast.In, ast.NotIn)) if isinstance(v, bytes)]
    need(len(s_z) == 1, f"sphinx _loads_v2: expected one bytes membership test, found {s_z!r}")

    ws, dranges, seps, bws = interpreter_tables()

    L = []
    L.append("(* GENERATED by gen/c18_inventory.py from myst_parser/inventory.py and the installed")
    L.append("   sphinx/util/inventory.py - do not edit. *)")
    L.append("From Coq Require Import List NArith Bool.")
    L.append("From MV Require Import Base.PyStr InvLoad.Regex.")
    L.append("Import ListNotations.")
    L.append("")
    L.append("(* the pattern literals are not repeated in comments: they contain comment delimiters *)")
    L.append(f"Definition myst_v2_regex : str := {coq_str(m_pat)}.")
    L.append(f"Definition myst_v2_verbose : bool := {'true' if m_verbose else 'false'}.")
    L.append(f"Definition sphinx_v2_regex : str := {coq_str(s_pat)}.")
    L.append(f"Definition sphinx_v2_verbose : bool := {'true' if s_verbose else 'false'}.")
    L.append("Definition regex_same : bool :=")
    L.append("  str_eqb myst_v2_regex sphinx_v2_regex && Bool.eqb myst_v2_verbose sphinx_v2_verbose.")
    L.append("")
    L.append("(* the MyST pattern as parsed by re._parser *)")
    L.append(f"Definition v2_ast : re :=\n  {m_ast}.")
    L.append("")
    L.append(f"Definition BUFSIZE : N := {bufsize}%N.")
    L.append(f"Definition sphinx_BUFSIZE : N := {s_bufsize}%N.")
    L.append(f"Definition hdr_v1 : str := {coq_str(hdrs[0])}.")
    L.append(f"Definition hdr_v2 : str := {coq_str(hdrs[1])}.")
    L.append(f"Definition v1_name_off : nat := {sl1[0]}.  Definition v1_version_off : nat := {sl1[1]}.")
    L.append(f"Definition v2_name_off : nat := {sl2[0]}.  Definition v2_version_off : nat := {sl2[1]}.")
    L.append(f"Definition zlib_marker : str := {coq_str(zmark[0])}.")
    L.append(f"Definition sphinx_hdr_v1 : list N := {coq_bytes(s_hdrs[1])}.")
    L.append(f"Definition sphinx_hdr_v2 : list N := {coq_bytes(s_hdrs[0])}.")
    L.append(f"Definition sphinx_v1_name_off : nat := {s_sl1[0]}.  Definition sphinx_v1_version_off : nat := {s_sl1[1]}.")
    L.append(f"Definition sphinx_v2_name_off : nat := {s_sl2[0]}.  Definition sphinx_v2_version_off : nat := {s_sl2[1]}.")
    L.append(f"Definition sphinx_zlib_marker : list N := {coq_bytes(s_z[0])}.")
    L.append("")
    L.append("(* measured on the running interpreter *)")
    L.append(f"Definition ws_table : list N := {coq_str(''.join(map(chr, ws)))}.        (* str.isspace = regex \\s *)")
    L.append("Definition digit_ranges : list (N * N) := [" + "; ".join(f"({a}, {b})" for a, b in dranges) + "]%N.   (* regex \\d *)")
    L.append(f"Definition linesep_table : list N := {coq_str(''.join(map(chr, seps)))}.   (* str.splitlines separators *)")
    L.append(f"Definition bytes_ws_table : list N := {coq_bytes(bytes(bws))}.   (* bytes.rstrip default set *)")
    L.append("")
    info = {"myst_regex": m_pat, "sphinx_regex": s_pat, "regex_same": (m_pat, m_verbose) == (s_pat, s_verbose),
            "BUFSIZE": bufsize, "headers": hdrs, "slices": sl1 + sl2, "ws": len(ws), "digit_ranges": len(dranges), "seps": len(seps)}
    return "\n".join(L), info


def run(ctx=None):
    import sphinx.util.inventory as sui
    from lib import common
    text, info = generate(common.REPO, Path(sui.__file__))
    common.write_if_changed(common.COQ / "Gen" / "Inventory.v", text)
    return info


if __name__ == "__main__":
    import sys
    sys.path.insert(0, str(Path(__file__).resolve().parent.parent))
    print(run())
