"""Documents / configurations / Sphinx projects for the C15 history checks."""
from __future__ import annotations

ALL_EXT = ["amsmath", "attrs_inline", "attrs_block", "colon_fence", "deflist", "dollarmath", "fieldlist", "html_admonition",
           "html_image", "replacements", "smartquotes", "strikethrough", "substitution", "tasklist"]

INC = {"inc.md": {"t": "# Inc title\n\nincluded *text* ![i](img.png) [l](doc.md)\n\n## Inc sub\n"},
       "inc.rst": {"t": "Inc\n===\n\nrst *text*\n"}}
INV = {"k.inv": {"inv": [["py", "function", "f", "api.html#$", "-"], ["py", "function", "mod.f", "api.html#mod.f", "F"],
                         ["std", "label", "lab", "i.html#lab", "Lab"]]}}


def item(name, text, settings=None, files=None, probe=None, writer=None):
    d = {"id": name, "fe": "docutils", "text": text, "settings": settings or {}, "files": files or {}, "name": "index.md"}
    if probe:
        d["probe"] = probe
    if writer:
        d["writer"] = writer
    return d


def targeted_items():
    """Items that exercise the global cells of Gen/GlobalWrites (and third-party registries reached through MyST)."""
    ext = {"myst_enable_extensions": ALL_EXT}
    inv = dict(ext, myst_inventories={"k": ["https://k.e.org/", "__DIR__/k.inv"]})
    return [
        item("plain", "# T\n\npara *x* [a](#t)\n"),
        item("myst-include", "top\n\n```{include} inc.md\n```\n", files=INC, probe="include"),
        item("myst-include-opts", "top\n\n```{include} inc.md\n:heading-offset: 1\n:relative-images:\n:relative-docs: doc\n```\n", files=INC, probe="include"),
        item("rst-include-offset", "```{eval-rst}\n.. include:: inc.rst\n   :heading-offset: 1\n```\n", files=INC, probe="include"),
        item("rst-include-relimg", "```{eval-rst}\n.. include:: inc.rst\n   :relative-images:\n```\n", files=INC, probe="include"),
        item("rst-include-plain", "```{eval-rst}\n.. include:: inc.rst\n```\n", files=INC, probe="include"),
        item("include-literal", "```{include} inc.md\n:literal:\n:number-lines: 2\n```\n", files=INC),
        item("include-missing", "```{include} missing.md\n```\n"),
        item("include-self", "```{include} __SELF__\n```\n"),
        item("html-img-on", "<img src=\"a.png\" alt=\"x\">\n\n<div class=\"admonition note\">\n<p>b</p>\n</div>\n", {"myst_enable_extensions": ["html_image", "html_admonition"]}, probe="figure-md"),
        item("html-img-off", "<img src=\"a.png\" alt=\"x\">\n\n<div class=\"admonition note\">\n<p>b</p>\n</div>\n", probe="figure-md"),
        item("all-ext", "# H {#i}\n\nTerm\n: def\n\n:f: v\n\n- [ ] t\n\n$x$ ~~s~~ \"q\" -- {{ a }} [s]{.c}\n\n:::{note}\nx\n:::\n", dict(ext, myst_substitutions={"a": "*A*"})),
        item("no-ext", "# H {#i}\n\nTerm\n: def\n\n:f: v\n\n- [ ] t\n\n$x$ ~~s~~ \"q\" -- {{ a }} [s]{.c}\n\n:::{note}\nx\n:::\n"),
        item("math", "$$\na=b\n$$ (eq1)\n\n\\begin{equation}\nc\n\\end{equation}\n\n$x$ {eq}`eq1`\n", ext),
        item("inv-1", "[a](inv:k:py:func#f) <inv:#mod.*> <inv:k:*:*#lab>\n", inv, files=INV, probe="regex-cache"),
        item("inv-2", "<inv:#f> <inv:#*f> [x](inv:k:std:label#l*)\n", inv, files=INV, probe="regex-cache"),
        item("inv-3", "<inv:#mod.*> <inv:z#f>\n", inv, files=INV, probe="regex-cache"),
        item("subst", "---\nmyst:\n  substitutions:\n    a: '{{b}}'\n    b: B\n    c: '{{c}}'\n---\n{{ a }} {{ c }} {{ d }} {{ 1/0 }}\n", ext),
        item("subst-2", "{{ a }} {{ b }}\n", dict(ext, myst_substitutions={"a": "global", "b": "{{a}}"})),
        item("front-override", "---\nmyst:\n  enable_extensions: [dollarmath]\n  heading_anchors: 2\n  html_meta: {k: v}\n  url_schemes: {http: null}\n---\n# T\n\n$x$ ~~s~~ [a](#t) [b](https://x.org) <http://y.org>\n", {"myst_enable_extensions": ["strikethrough"]}),
        item("front-none", "# T\n\n$x$ ~~s~~ [a](#t) [b](https://x.org) <http://y.org>\n", {"myst_enable_extensions": ["strikethrough"]}),
        item("role-def-myst", "```{role} myrole(emphasis)\n```\n\n{myrole}`x`\n", probe="roles"),
        item("role-def-rst", "```{eval-rst}\n.. role:: myrole(strong)\n\n:myrole:`y`\n```\n", probe="roles"),
        item("role-use", "{myrole}`z` {otherrole}`w`\n", probe="roles"),
        item("default-role-rst", "```{eval-rst}\n.. default-role:: math\n\n`a^2`\n```\n", probe="default-role"),
        item("default-role-myst", "```{default-role} math\n```\n\n```{eval-rst}\n`b`\n```\n", probe="default-role"),
        item("default-role-use", "```{eval-rst}\n`c` text\n```\n", probe="default-role"),
        item("class-directive", "```{class} special\n```\n\npara\n"),
        item("footnotes", "a[^x] b[^1] c[^y]\n\n[^y]: Y\n[^x]: X\n[^1]: one\n[^u]: unused\n", probe="footnote-settings"),
        item("footnotes-nosort", "a[^x] b[^1] c[^y]\n\n[^y]: Y\n[^x]: X\n[^1]: one\n", {"myst_footnote_sort": False, "myst_footnote_transition": False}, probe="footnote-settings"),
        item("slugs", "# A\n\n# A\n\n## b c\n\n[](#a) [](#a-1) [](#b-c) [](#zz)\n", {"myst_heading_anchors": 3}),
        item("slugs-func", "# A b\n\n[](#b-a)\n", {"myst_heading_anchors": 2, "myst_heading_slug_func": "myst_parser.config.main._test_slug_func"}),
        item("code", "```python\nx = 1\n```\n\n```{code-block} c\n:lineno-start: 3\n\nint x;\n```\n\n```bogus\ny\n```\n"),
        item("code-nohl", "```python\nx = 1\n```\n", {"myst_highlight_code_blocks": False}),
        item("lang-de", "```{note}\nx\n```\n\n```{bogus}\n```\n", {"language_code": "de"}),
        item("lang-en", "```{note}\nx\n```\n\n```{bogus}\n```\n"),
        item("lang-bogus", "text\n", {"language_code": "bogus"}),
        item("lang-bogus-2", "other text\n", {"language_code": "bogus"}),
        item("table-toc", "```{contents}\n```\n\n# A\n\n## B\n\n| a | b |\n|---|--:|\n| 1 | 2 |\n"),
        item("sectnum", "```{sectnum}\n```\n\n# A\n\n## B\n"),
        item("targets", "(t1)=\n# A\n\n[](t1) [x](#t1) [y](missing)\n\n[ref]: https://x.org\n\n[z][ref]\n"),
        item("html-writer", "# T\n\n> ## nested\n\n:::{div}\nx\n:::\n\n::::name\ny\n::::\n", {"myst_enable_extensions": ["colon_fence"]}, probe="html-writer", writer="html5"),
        item("html-writer-2", "> # other\n", probe="html-writer", writer="html5"),
        item("suppress", "[a](#missing)\n\n### H3\n", {"myst_suppress_warnings": ["myst.header"]}),
        item("nosuppress", "[a](#missing)\n\n### H3\n"),
        item("gfm-like", "~~s~~ <script>x</script>\n", {"myst_commonmark_only": True}),
        item("fence-dir", "```note\nx\n```\n", {"myst_fence_as_directive": ["note"]}),
        item("fence-nodir", "```note\nx\n```\n"),
        item("raw-off", "<b>x</b>\n\n```{raw} html\n<i>\n```\n", {"raw_enabled": False}),
        item("unknown", "{bogus}`x`\n\n```{bogus}\n```\n"),
        item("bad-yaml", "---\na: *x\n---\nx\n"),
        item("attrs", "![a](b.png){w=10px #i .c} [l](u){.c target=_blank} `c`{l=python}\n\n{#pid .pc}\npara\n", ext),
        item("wordcount", "{sub-ref}`wordcount-words` words\n", {"myst_words_per_minute": 10}),
        item("title-header", "---\ntitle: My *T*\n---\ntext\n", {"myst_title_to_header": True}),
    ]


def merge_items():
    """merge_file_level must leave the global config untouched (kind 'merge')."""
    tops = [
        {"myst": {"enable_extensions": ["dollarmath"], "heading_anchors": 3}},
        {"myst": {"substitutions": {"a": "b"}, "html_meta": {"k": "v"}}},
        {"substitutions": {"x": "y"}, "html_meta": {"a": "b"}},
        {"myst": {"url_schemes": ["http"], "disable_syntax": ["emphasis"], "fence_as_directive": ["note"]}},
        {"myst": {"url_schemes": {"wiki": "https://w/{{path}}"}, "number_code_blocks": ["python"], "sub_delimiters": ["[", "]"]}},
        {"myst": {"enable_extensions": ["bogus"], "heading_anchors": "x", "bogus": 1}},
        {"myst": 1},
        {"myst": {"title_to_header": True, "footnote_sort": False, "words_per_minute": 5, "suppress_warnings": ["myst"]}},
        {"myst": {"html_meta": {"k2": "v2"}, "substitutions": {"a": "front"}}},
    ]
    cfgs = [{}, {"enable_extensions": {"amsmath", "html_image"}, "substitutions": {"a": "g", "z": "Z"}, "html_meta": {"k": "g"},
                 "url_schemes": {"http": None, "x": {"url": "u"}}, "disable_syntax": ["table"], "fence_as_directive": {"mermaid"},
                 "number_code_blocks": ["c"]}]
    out = []
    for ci, c in enumerate(cfgs):
        for ti, t in enumerate(tops):
            out.append({"id": f"merge-{ci}-{ti}", "kind": "merge", "config": c, "topmatter": t, "fe": "api", "text": "", "settings": {}, "files": {}})
    return out


# ------------------------------------------------------------------------------------------------ Sphinx projects

def gen_project(rng, n_docs=None, amsmath=False):
    """A small project: index with toctree + n documents with cross references, includes, math, footnotes,
    figure-md, html images, per-document front matter overrides."""
    n = n_docs or rng.randint(10, 20)
    names = [f"doc{i}" for i in range(n)]
    files = {"inc_part.md": "included *part* [to](doc0.md)\n\n## Inc heading\n"}
    files["index.md"] = "# Index\n\n```{toctree}\n" + "\n".join(names) + "\n```\n"
    for i, nm in enumerate(names):
        other = names[rng.randrange(n)]
        parts = [f"# Title {i}\n", f"(tgt{i})=\n## Section {i}\n", f"Para with [link]({other}.md) and [anchor]({other}.md#section-{names.index(other)}) "
                 f"and {{ref}}`tgt{rng.randrange(n)}` and [missing](nowhere{i}.md) and {{doc}}`{other}`.\n"]
        # cross-document links in every spelling the renderer classifies at READ time, to a document that sorts earlier
        # and to one that sorts later than this one (with -jN they are read by other workers)
        for tgt in (sorted(names)[rng.randrange(max(1, sorted(names).index(nm) + 1))], sorted(names)[rng.randrange(sorted(names).index(nm), n)]):
            k = names.index(tgt)
            parts.append(f"[ext]({tgt}.md) [noext]({tgt}) [noext-anchor]({tgt}#section-{k}) []({tgt}#section-{k}) [ext-anchor]({tgt}.md#section-{k}) "
                         f"[]({tgt}.md#section-{k}) <project:{tgt}.md> <project:{tgt}.md#section-{k}> [bad-anchor]({tgt}#nope) "
                         f"[dl](path:{tgt}.md) <path:inc_part.md> {{doc}}`{tgt}` {{ref}}`tgt{k}` {{download}}`{tgt}.md` [](tgt{k}) [t](#tgt{k})\n")
        k = rng.randrange(12)
        if k == 0:
            parts.insert(0, "---\nmyst:\n  enable_extensions: [dollarmath, html_image]\n  heading_anchors: 1\n---\n")
        if k == 1:
            parts.insert(0, "---\nmyst:\n  substitutions: {s: 'front %d'}\n  html_meta: {k: v%d}\n---\n" % (i, i))
        if rng.random() < 0.4:
            parts.append("```{include} inc_part.md\n:heading-offset: 1\n```\n")
        if rng.random() < 0.3:
            parts.append("```{eval-rst}\n.. include:: inc_part.md\n   :heading-offset: 1\n```\n")
        if rng.random() < 0.4:
            parts.append(f"$$\na_{i} = b\n$$ (eq{i})\n\nSee {{eq}}`eq{rng.randrange(n)}` and $x_{i}$.\n")
        if amsmath and rng.random() < 0.5:
            parts.append(f"\\begin{{equation}}\nc_{i}\n\\end{{equation}}\n")
        if rng.random() < 0.4:
            parts.append(f"Foot[^a] note[^b].\n\n[^b]: B {i}\n[^a]: A {i}\n")
        if rng.random() < 0.3:
            parts.append(":::{figure-md} fig%d\n<img src=\"img.png\" alt=\"alt\" width=\"20px\">\n\nCaption *%d*\n:::\n" % (i, i))
        if rng.random() < 0.4:
            parts.append("<img src=\"img.png\" alt=\"raw or image\">\n")
        if rng.random() < 0.3:
            parts.append("{{ s }} and {{ g }}\n")
        if rng.random() < 0.2:
            # (roles are used in the defining document only: a role used in ANOTHER document is the known docutils
            #  role-registry finding, reproduced by the fixed project role_project())
            parts.append("```{role} r%d(emphasis)\n```\n\n{r%d}`x` {r%d}`y`\n" % (i, i, i))
        if rng.random() < 0.2:
            parts.append(f"```{{code-block}} python\n:caption: cap {i}\n:name: code{i}\n\nx = {i}\n```\n\n{{numref}}`code{i}`\n")
        if rng.random() < 0.2:
            parts.append("Term\n: Definition\n\n```{glossary}\nword%d\n  meaning\n```\n\n{term}`word%d`\n" % (i, rng.randrange(n)))
        files[nm + ".md"] = "\n".join(parts)
    conf = ("myst_enable_extensions = ['colon_fence', 'deflist', 'substitution'%s]\nmyst_substitutions = {'g': 'global', 's': 'global s'}\n"
            "myst_heading_anchors = 2\nnumfig = True\n" % (", 'dollarmath', 'amsmath'" if True else ""))
    return {"files": files, "conf": conf}


def role_project():
    """Fixed witness of the docutils role-registry finding under Sphinx: a_def defines a role, z_use uses it; in a
    serial build a_def is read first (the role is known in z_use), with 4 read workers they are read by different
    processes (unknown role)."""
    files = {"index.md": "# Index\n\n```{toctree}\na_def\n" + "\n".join(f"m{i}" for i in range(8)) + "\nz_use\n```\n",
             "a_def.md": "# A\n\n```{role} sharedrole(emphasis)\n```\n\n{sharedrole}`x`\n",
             "z_use.md": "# Z\n\n{sharedrole}`y`\n"}
    for i in range(8):
        files[f"m{i}.md"] = f"# M{i}\n\ntext\n"
    return {"files": files, "conf": ""}


# ------------------------------------------------------------------------------------------------ one-field configuration deltas

DELTA_DOC = """---
title: Front *title*
---
# Heading one

## Heading two {#hid}

Para *em* **strong** ~~strike~~ "quotes" -- (c) `code` $x^2$ H{sub}`2`O {{ a }} {{ b }} www.example.org
[http](http://x.org/p?q#f) [https](https://y.org) <http://auto.org> [wiki](wiki:Page#frag) [internal](#heading-two) [unknown](other.md)
[inv](inv:k:std:label#lab) <inv:k#f> <inv:#mod.*> ![img](a.png){w=10px} [span]{.cls} {sub-ref}`wordcount-words` words, {sub-ref}`wordcount-minutes` min

- [ ] task
- [x] done

Term
: Definition

:field: value

| a | b |
|:--|--:|
| 1 | 2 |

```python
x = 1
```

```note
fence as directive?
```

:::{note}
colon fence
:::

$$
a = b
$$ (lab)

\\begin{equation}
c
\\end{equation}

<img src="a.png" alt="x">

<div class="admonition note">
<p>html admonition</p>
</div>

Foot[^b] note[^a].

[^a]: A
[^b]: B

#### Jump to four

{#pid .pc}
attributed paragraph
"""

DELTA_BASE = {"myst_enable_extensions": list(ALL_EXT), "myst_substitutions": {"a": "A0", "b": "{{a}}!"},
              "myst_inventories": {"k": ["https://v1.example.com/docs/", "__DIR__/k.inv"]},
              "myst_url_schemes": {"http": None, "https": None, "wiki": {"url": "https://w.org/{{path}}#{{fragment}}", "title": "{{path}}"}},
              "myst_heading_anchors": 2}

# values per field (each pair of different values gives histories); fields not listed get values from their type
DELTA_VALUES = {
    "enable_extensions": [list(ALL_EXT), [], ["dollarmath", "amsmath"], ["html_image"], ["substitution", "deflist", "tasklist"]],
    "disable_syntax": [[], ["emphasis"], ["table", "link"]],
    "url_schemes": [{"http": None, "https": None}, {"http": {"url": "https://proxy/{{netloc}}{{path}}"}, "https": None},
                    {"wiki": {"url": "https://w1.org/{{path}}", "title": "W {{path}}", "classes": ["c1"]}},
                    {"wiki": {"url": "https://w2.org/{{path}}", "title": "W {{path}}", "classes": ["c2"]}}, ["https"]],
    "fence_as_directive": [[], ["note"], ["python"]],
    "number_code_blocks": [[], ["python"]],
    "heading_anchors": [0, 1, 2, 4],
    "heading_slug_func": [None, "myst_parser.config.main._test_slug_func"],
    "html_meta": [{}, {"k": "v1"}, {"k": "v2"}, {"other": "v1"}],
    "words_per_minute": [200, 10, 1000],
    "substitutions": [{"a": "A0", "b": "{{a}}!"}, {"a": "A1", "b": "{{a}}!"}, {"a": "A0", "b": "B"}, {"a": "A0"}, {}],
    "suppress_warnings": [[], ["myst.header"], ["myst.xref_missing", "myst.iref_missing"], ["myst"]],
    "inventories": [{"k": ["https://v1.example.com/docs/", "__DIR__/k.inv"]}, {"k": ["https://v2.example.com/docs/", "__DIR__/k.inv"]},
                    {"j": ["https://v1.example.com/docs/", "__DIR__/k.inv"]}, {"k": ["https://v1.example.com/docs/", "__DIR__/k2.inv"]}, {}],
}
DELTA_FILES = {"k.inv": INV["k.inv"],
               "k2.inv": {"inv": [["py", "function", "f", "other.html#$", "-"], ["std", "label", "lab", "j.html#lab", "Lab two"]]}}


def config_fields():
    """(name, type, default) of every MdParserConfig field usable with the docutils front end."""
    import dataclasses as dc

    from myst_parser.config.main import MdParserConfig
    out = []
    for f in dc.fields(MdParserConfig):
        if "docutils" in f.metadata.get("omit", []):
            continue
        default = f.default if f.default is not dc.MISSING else f.default_factory()
        out.append((f.name, f.type, default))
    return out


def delta_values(name, typ, default, have_linkify=False):
    if name in DELTA_VALUES:
        return DELTA_VALUES[name]
    if name == "gfm_only" and not have_linkify:
        return [False]
    if typ is bool or isinstance(default, bool):
        return [False, True]
    if typ is int or isinstance(default, int):
        return [default, default + 1]
    return [default]


def config_delta_histories(have_linkify=False):
    """For every configuration field and every ordered pair (A, B) of its values: the same document parsed with two
    configurations that differ in exactly that field, as A,B,B,A.  All cases of a history share their directory
    (dir_key), so that everything except the one configuration value - text, path, files - is identical."""
    hists, uncovered = [], []
    for name, typ, default in config_fields():
        vals = delta_values(name, typ, default, have_linkify)
        if len(vals) < 2:
            uncovered.append(name)
            continue
        cases = []
        for k, v in enumerate(vals):
            st = dict(DELTA_BASE)
            st[f"myst_{name}"] = v
            cases.append({"id": f"delta:{name}:{k}", "fe": "docutils", "text": DELTA_DOC, "settings": st, "files": dict(DELTA_FILES),
                          "name": "index.md", "dir_key": "delta"})
        for a in range(len(cases)):
            for b in range(len(cases)):
                if a < b:
                    hists.append((name, [cases[a], cases[b], cases[b], cases[a]]))
                    hists.append((name, [cases[b], cases[a], cases[a], cases[b]]))
    return hists, uncovered


# ------------------------------------------------------------------------------------------------ round 4

def alias_project():
    """A document WITH front matter (so it gets a per-document copy of the configuration) uses figure-md, which adds
    html_image to enable_extensions in place for the nested parse; a later document has a raw <img>.  If the copy
    shared its set with the global configuration, the probe would be rendered as an image when read by the same process."""
    files = {"index.md": "# Index\n\n```{toctree}\na_fm\n" + "\n".join(f"m{i}" for i in range(8)) + "\nz_probe\n```\n",
             "a_fm.md": "---\nmyst:\n  heading_anchors: 2\n---\n# A\n\n:::{figure-md} fig\n<img src=\"img.png\" alt=\"alt\" width=\"20px\">\n\nCaption\n:::\n",
             "z_probe.md": "# Z\n\n<img src=\"img.png\" alt=\"raw or image\">\n\nafter\n"}
    for i in range(8):
        files[f"m{i}.md"] = f"# M{i}\n\n<img src=\"img.png\" alt=\"m{i}\">\n"
    return {"files": files, "conf": "myst_enable_extensions = ['colon_fence', 'deflist']\n"}


MD_TEXTS = [
    "# A\n\n## B\n\n[](#a) [](#b)\n", "# A\n\n# A\n\n[](#a-1)\n", "# B\n\n### Deep\n\n[x](#deep)\n", "## a\n\ntext\n",
    "(tgt)=\n# T\n\n[](tgt) [](#tgt)\n", "(tgt)=\npara\n\n[](#tgt)\n",
    "a[^x] b[^y]\n\n[^y]: Y\n[^x]: X\n", "[^x]: again\n\n[^x] [^1]\n\n[^1]: one\n",
    "{{ a }} and {{ b }}\n", "{{ b }}\n\n{{ c }}\n", "> ## quoted\n\n- ### item\n", "```{note}\n## inner\n```\n\n# A\n",
    "<inv:#f> [x](inv:k#lab)\n", "$$\nx\n$$ (eq)\n\n$y$\n", "[r]: https://x.org\n\n[a][r] [r]\n", "[a][r]\n",
]


def md_reuse_histories(rng, n):
    """histories at the level of ONE parser object: (config, [texts]) - documents that reuse slugs, targets, footnote labels,
    substitutions, reference definitions."""
    cfgs = [{"heading_anchors": 3, "enable_extensions": ["substitution", "dollarmath", "colon_fence"], "substitutions": {"a": "A", "b": "{{a}}", "c": "{{c}}"}},
            {"heading_anchors": 1, "enable_extensions": []}, {"heading_anchors": 6, "heading_slug_func": "myst_parser.config.main._test_slug_func"}]
    out = []
    for k in range(n):
        cfg = cfgs[k % len(cfgs)]
        texts = [MD_TEXTS[rng.randrange(len(MD_TEXTS))] for _ in range(rng.randint(3, 6))]
        if k % 2 == 0:
            texts = texts + texts[:2]          # the same documents again
        out.append({"kind": "md_reuse", "config": cfg, "texts": texts})
    # every text after itself and after the first one
    for cfg in cfgs[:2]:
        for t in MD_TEXTS:
            out.append({"kind": "md_reuse", "config": cfg, "texts": [MD_TEXTS[0], t, t]})
    return out


SETTINGS_DOC = ("# T\n\na[^x] b[^y] c[^1]\n\n[^y]: Y\n[^x]: X\n[^1]: one\n\n## S\n\n[](#t) [l](https://x.org) [u](other.md) $x$ 1$ $$y$$ ~~s~~ www.x.org\n\n"
                "- [ ] task\n\n```python\nx = 1\n```\n\n$$\na\n$$ (lab)\n")


def shared_settings_histories(fields):
    """For every configuration field that the renderer copies onto document.settings (from the regenerated write
    table) and every boolean value: publish calls sharing ONE settings object, where the front matter sets the field to
    the non-default value (B) or not at all (A): A,B,B,A and B,A,A,B."""
    import dataclasses as dc

    from myst_parser.config.main import MdParserConfig
    defaults = {f.name: (f.default if f.default is not dc.MISSING else None) for f in dc.fields(MdParserConfig)}
    out = []
    # every boolean field (whatever the write table says: a write through setattr(settings, f"myst_{name}") has no literal name)
    usable = [f.name for f in dc.fields(MdParserConfig) if "docutils" not in f.metadata.get("omit", []) and isinstance(defaults.get(f.name), bool)]
    for field in list(dict.fromkeys(list(fields) + usable)):
        d = defaults.get(field)
        if not isinstance(d, bool) or field in ("gfm_only", "commonmark_only"):
            continue
        a = SETTINGS_DOC
        b = f"---\nmyst:\n  {field}: {str(not d).lower()}\n---\n" + SETTINGS_DOC
        for order, vals in ((("A", "B", "B", "A"), None), (("B", "A", "A", "B"), None)):
            texts = [a if o == "A" else b for o in order]
            labels = ["default" if o == "A" else str(not d) for o in order]
            out.append({"kind": "shared_settings", "field": field, "labels": labels, "settings": {"myst_enable_extensions": ["dollarmath", "strikethrough"], "myst_heading_anchors": 2},
                        "texts": texts})
    return out


def settings_value_histories(have_linkify=False):
    """ONE settings object reused across publish calls while a myst_* value on it changes (setattr): for every configuration
    field and its values v0, vi: steps (v0, vi, vi, v0) and (vi, v0, v0, vi); the 2nd and 4th call use settings.copy()."""
    out = []
    for name, typ, default in config_fields():
        vals = delta_values(name, typ, default, have_linkify)
        if len(vals) < 2:
            continue
        base = {k: v for k, v in DELTA_BASE.items()}
        for i in range(1, len(vals)):
            for order in ((0, i, i, 0), (i, 0, 0, i)):
                steps = [{"text": DELTA_DOC, "values": dict(base, **{f"myst_{name}": vals[k]}), "copy": pos % 2 == 1, "label": k}
                         for pos, k in enumerate(order)]
                out.append({"kind": "settings_values", "field": name, "steps": steps, "files": dict(DELTA_FILES)})
    return out
