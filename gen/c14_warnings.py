"""C14 translator: myst_parser/warnings_.py + every *.py of the package -> coq/Gen/Warnings.v (fail-closed).

Regenerated on every run with Python's ``ast``:

* ``catalogue``  - the members of ``class MystWarnings(Enum)`` as (NAME, value) in source order;
* ``sites``      - one row per warning-related call site in the package:
    file, line, enclosing function, kind of call, the *type* expression, the *subtype* expression and
    how the value returned by ``create_warning`` is used.

Recognised call shapes (anything else whose callee is named like a warning call stops the run):

  create_warning(document, msg, SUB, wtype=T, ...)        name imported from myst_parser.warnings_   -> KCreate
  self|renderer.create_warning(msg, SUB, wtype=T, ...)    DocutilsRenderer wrapper                   -> KRenderer
  self.log_warning(target, msg, SUB, ...)                 MystReferenceResolver wrapper              -> KResolver
  warning(SUB, msg)                                       callback parameter of merge_file_level     -> KCallback
  ParseWarnings(msg, lineno, SUB)                         record later emitted via ``_warning.type`` -> KRecord
  LOG.warning(msg, type=T, subtype=SUB, ...)              LOG = sphinx.util.logging.getLogger(..)    -> KSphinxLog
  LOG.error|info|debug|verbose|critical(...)              not a warning                              -> KSphinxOther
  <..>reporter.warning(...)                               docutils system message, level WARNING     -> KReporterWarning
  <..>reporter.error|info|severe|system_message(...)      other levels                               -> KReporterOther
  logging.is_suppressed_warning(T, SUB, ..) / _is_suppressed_warning(T, SUB, ..)                     -> KSuppressTest
  nodes.system_message(...)                               direct node construction                   -> KNodeCtor

SUB / T expressions:  MystWarnings.X | MystWarnings.X.value | "literal" | None | <parameter of the
enclosing def/lambda> | <parameter>.value | <loop var over *.warnings>.type | a local of the two core
functions of warnings_.py (create_warning / _create_warning_node), which are modelled by hand in
coq/Cfg/Warn.v.
"""
from __future__ import annotations

import ast
import hashlib
from pathlib import Path

PKG = "myst_parser"
CORE_FILE = "warnings_.py"
CORE_FUNCS = ("create_warning", "_create_warning_node", "_is_suppressed_warning")
SPHINX_LOG_METHODS_OTHER = ("error", "info", "debug", "verbose", "critical", "exception", "log")
REPORTER_OTHER = ("error", "info", "severe", "debug", "system_message", "attach_observer", "detach_observer",
                  "set_conditions", "notify_observers")
WARNING_LIKE = ("warning", "warn", "create_warning", "log_warning", "is_suppressed_warning", "_is_suppressed_warning")


class Untranslatable(Exception):
    pass


def coq_str(s: str) -> str:
    if not s:
        return "([] : str)"
    if all(32 <= ord(c) < 127 and c not in '"\\' for c in s):
        return f'(lit "{s}")'
    return "[" + "; ".join(str(ord(c)) for c in s) + "]"


def coq_comment(s: str) -> str:
    return s.replace("(*", "( *").replace("*)", "* )").replace('"', "'")


def read_catalogue(tree, fname):
    cls = [n for n in tree.body if isinstance(n, ast.ClassDef) and n.name == "MystWarnings"]
    if len(cls) != 1:
        raise Untranslatable(f"{fname}: expected exactly one class MystWarnings")
    c = cls[0]
    if [ast.unparse(b) for b in c.bases] != ["Enum"]:
        raise Untranslatable(f"{fname}: MystWarnings is not a plain Enum")
    members = []
    for st in c.body:
        if isinstance(st, ast.Expr) and isinstance(st.value, ast.Constant) and isinstance(st.value.value, str):
            continue  # docstring
        if (isinstance(st, ast.Assign) and len(st.targets) == 1 and isinstance(st.targets[0], ast.Name)
                and isinstance(st.value, ast.Constant) and isinstance(st.value.value, str)):
            members.append((st.targets[0].id, st.value.value))
            continue
        raise Untranslatable(f"{fname}:{st.lineno}: statement in MystWarnings not understood: {ast.unparse(st)[:60]}")
    names = [m[0] for m in members]
    vals = [m[1] for m in members]
    if len(set(names)) != len(names) or len(set(vals)) != len(vals):
        raise Untranslatable("MystWarnings has duplicate names or values")
    return members


class FileScan:
    def __init__(self, rel, tree):
        self.rel = rel
        self.tree = tree
        self.parent = {}
        for n in ast.walk(tree):
            for ch in ast.iter_child_nodes(n):
                self.parent[ch] = n
        self.sites = []
        self.create_warning_imported = False
        self.sphinx_logging_names = set()      # names bound to the sphinx.util.logging module
        self.sphinx_getlogger_names = set()    # names bound to sphinx.util.logging.getLogger
        self.std_logging = False
        self.loggers = set()                   # variable names bound to a sphinx logger
        self._imports()
        self._loggers()

    def err(self, node, msg):
        raise Untranslatable(f"{self.rel}:{getattr(node, 'lineno', '?')}: {msg}: {ast.unparse(node)[:90]}")

    def _imports(self):
        for n in ast.walk(self.tree):
            if isinstance(n, ast.ImportFrom):
                mod = ("." * n.level) + (n.module or "")
                for a in n.names:
                    nm = a.asname or a.name
                    if a.name == "create_warning":
                        if mod not in ("myst_parser.warnings_", ".warnings_", "..warnings_"):
                            self.err(n, "create_warning imported from an unknown module")
                        if a.asname:
                            self.err(n, "create_warning imported under another name")
                        self.create_warning_imported = True
                    if mod == "sphinx.util" and a.name == "logging":
                        self.sphinx_logging_names.add(nm)
                    if mod == "sphinx.util.logging" and a.name == "getLogger":
                        self.sphinx_getlogger_names.add(nm)
                    if mod == "logging" or (mod == "" and a.name == "logging"):
                        self.std_logging = True
                    if a.name in ("warn", "warnings") and mod in ("warnings", ""):
                        self.err(n, "stdlib warnings module is not a recognised warning channel")
            elif isinstance(n, ast.Import):
                for a in n.names:
                    if a.name in ("logging", "warnings"):
                        self.err(n, f"stdlib {a.name} module is not a recognised warning channel")

    def _loggers(self):
        for n in ast.walk(self.tree):
            if isinstance(n, ast.Assign) and len(n.targets) == 1 and isinstance(n.targets[0], ast.Name) \
                    and isinstance(n.value, ast.Call):
                f = n.value.func
                if (isinstance(f, ast.Attribute) and f.attr == "getLogger" and isinstance(f.value, ast.Name)
                        and f.value.id in self.sphinx_logging_names) or \
                        (isinstance(f, ast.Name) and f.id in self.sphinx_getlogger_names):
                    self.loggers.add(n.targets[0].id)

    # ---- helpers
    def enclosing(self, node):
        """(qualified name of the enclosing def/lambda chain, innermost function node)"""
        names, inner = [], None
        p = self.parent.get(node)
        while p is not None:
            if isinstance(p, (ast.FunctionDef, ast.AsyncFunctionDef)):
                names.append(p.name)
                inner = inner or p
            elif isinstance(p, ast.Lambda):
                names.append("<lambda>")
                inner = inner or p
            elif isinstance(p, ast.ClassDef):
                names.append(p.name)
            p = self.parent.get(p)
        return ".".join(reversed(names)) or "<module>", inner

    def params_of(self, fn):
        if fn is None:
            return {}
        a = fn.args
        out = {}
        for x in a.posonlyargs + a.args + a.kwonlyargs:
            out[x.arg] = ast.unparse(x.annotation) if getattr(x, "annotation", None) is not None else ""
        return out

    def classify(self, e, node, role):
        """role: 'type' | 'sub'.  Returns a tuple tag."""
        fnname, fn = self.enclosing(node)
        params = self.params_of(fn)
        if e is None:
            return ("Absent",)
        if isinstance(e, ast.Constant):
            if e.value is None:
                return ("Absent",)
            if isinstance(e.value, str):
                return ("Lit", e.value)
            self.err(e, "constant of unexpected type as warning type/subtype")
        if isinstance(e, ast.Attribute) and isinstance(e.value, ast.Name) and e.value.id == "MystWarnings":
            return ("Member", e.attr)
        if (isinstance(e, ast.Attribute) and e.attr == "value" and isinstance(e.value, ast.Attribute)
                and isinstance(e.value.value, ast.Name) and e.value.value.id == "MystWarnings"):
            return ("MemberValue", e.value.attr)
        if isinstance(e, ast.Name):
            if e.id in params:
                return ("Param", e.id, params[e.id])
            if self.rel == CORE_FILE and fnname.split(".")[-1] in CORE_FUNCS:
                return ("CoreLocal", e.id)
            self.err(e, f"{role} expression is a name that is not a parameter of the enclosing function")
        if isinstance(e, ast.Attribute) and e.attr == "value" and isinstance(e.value, ast.Name) and e.value.id in params:
            return ("ParamValue", e.value.id, params[e.value.id])
        if isinstance(e, ast.Attribute) and e.attr == "type" and isinstance(e.value, ast.Name):
            # loop variable over <x>.warnings
            p = self.parent.get(node)
            while p is not None:
                if isinstance(p, ast.For) and isinstance(p.target, ast.Name) and p.target.id == e.value.id:
                    if isinstance(p.iter, ast.Attribute) and p.iter.attr == "warnings":
                        return ("Record", "ParseWarnings")
                p = self.parent.get(p)
            self.err(e, "'.type' of something that is not a loop variable over '.warnings'")
        self.err(e, f"{role} expression not understood")

    def append_inspected(self, call):
        """Is the node passed as append_to looked at (children / len / truthiness) later in the same
        function?  Then whether the warning was appended can change what the code does next."""
        tgt = self.kw(call, "append_to")
        if tgt is None or (isinstance(tgt, ast.Constant) and tgt.value is None):
            return False
        key = ast.unparse(tgt)
        _, fn = self.enclosing(call)
        if fn is None:
            return False
        end = getattr(call, "end_lineno", call.lineno)
        for n in ast.walk(fn):
            if getattr(n, "lineno", 0) <= end:
                continue
            if isinstance(n, ast.Attribute) and n.attr == "children" and ast.unparse(n.value) == key:
                return True
            if isinstance(n, ast.Call) and isinstance(n.func, ast.Name) and n.func.id == "len" and n.args \
                    and ast.unparse(n.args[0]) == key:
                return True
            if isinstance(n, ast.UnaryOp) and isinstance(n.op, ast.Not) and ast.unparse(n.operand) == key:
                return True
            if isinstance(n, (ast.If, ast.While, ast.IfExp)) and ast.unparse(n.test) == key:
                return True
        return False

    def result_use(self, call):
        p = self.parent.get(call)
        if isinstance(p, ast.Expr):
            return ("AppendInspected",) if self.append_inspected(call) else ("Discard",)
        if isinstance(p, ast.Return):
            return ("Return",)
        if isinstance(p, ast.Lambda) and p.body is call:
            return ("Return",)
        if isinstance(p, ast.Assign) and len(p.targets) == 1 and isinstance(p.targets[0], ast.Name) and p.value is call:
            var = p.targets[0].id
            _, fn = self.enclosing(call)
            if fn is None:
                return ("Other", "assigned at module level")
            # every other occurrence of the variable must sit inside  [var] if var else []
            for n in ast.walk(fn):
                if isinstance(n, ast.Name) and n.id == var and n is not p.targets[0]:
                    if isinstance(n.ctx, ast.Store):
                        # re-assignment from another create_warning call is fine, anything else is not
                        q = self.parent.get(n)
                        if not (isinstance(q, ast.Assign) and isinstance(q.value, ast.Call)):
                            return ("Other", f"{var} re-bound")
                        continue
                    ok = False
                    q = self.parent.get(n)
                    while q is not None and q is not fn:
                        if isinstance(q, ast.IfExp):
                            if (isinstance(q.test, ast.Name) and q.test.id == var
                                    and isinstance(q.body, ast.List) and len(q.body.elts) == 1
                                    and isinstance(q.body.elts[0], ast.Name) and q.body.elts[0].id == var
                                    and isinstance(q.orelse, ast.List) and not q.orelse.elts):
                                ok = True
                            break
                        q = self.parent.get(q)
                    if not ok:
                        return ("Other", f"{var} used outside '[{var}] if {var} else []'")
            return ("InclOmit", var)
        return ("Other", type(p).__name__)

    def _reaching(self, use, var, lam_assign):
        """Which binding of `var` does the load `use` see?  Only the simple shape needed is understood:
        the nearest preceding sibling statement (walking outwards through the statement lists that
        contain `use`) that assigns `var`.  Returns 'lambda' | 'rebound' | 'unknown'."""
        node = use
        while node is not None:
            p = self.parent.get(node)
            if p is None:
                return "unknown"
            for fld in ("body", "orelse", "finalbody"):
                stmts = getattr(p, fld, None)
                if isinstance(stmts, list) and node in stmts:
                    for st in reversed(stmts[: stmts.index(node)]):
                        if st is lam_assign:
                            return "lambda"
                        for x in ast.walk(st):
                            if isinstance(x, ast.Name) and x.id == var and isinstance(x.ctx, ast.Store):
                                return "lambda" if self._contains(st, lam_assign) else "rebound"
            if isinstance(p, (ast.FunctionDef, ast.Lambda)):
                return "unknown"
            node = p
        return "unknown"

    @staticmethod
    def _contains(st, target):
        return any(x is target for x in ast.walk(st))

    def kw(self, call, name):
        for k in call.keywords:
            if k.arg == name:
                return k.value
        return None

    def has_star_kwargs(self, call):
        return any(k.arg is None for k in call.keywords)

    def arg(self, call, idx, name):
        if len(call.args) > idx:
            if any(isinstance(a, ast.Starred) for a in call.args[: idx + 1]):
                self.err(call, "starred positional arguments")
            return call.args[idx]
        return self.kw(call, name)

    def add(self, call, kind, ty, sub, use=("NA",), note=""):
        fnname, _ = self.enclosing(call)
        self.sites.append({"file": self.rel, "line": call.lineno, "end_line": getattr(call, "end_lineno", call.lineno),
                           "func": fnname, "kind": kind,
                           "type": ty, "sub": sub, "use": use, "note": note,
                           "src": " ".join(ast.unparse(call).split())[:110]})

    # ---- main walk
    def scan(self):
        for n in ast.walk(self.tree):
            # references to create_warning that are not calls (aliasing) are not understood
            if isinstance(n, ast.Name) and n.id in ("create_warning", "_is_suppressed_warning") and isinstance(n.ctx, ast.Load):
                p = self.parent.get(n)
                if not (isinstance(p, ast.Call) and p.func is n):
                    self.err(n, "create_warning/_is_suppressed_warning used as a value (aliasing)")
            if isinstance(n, ast.Attribute) and n.attr in ("create_warning", "log_warning") and isinstance(n.ctx, ast.Load):
                p = self.parent.get(n)
                if not (isinstance(p, ast.Call) and p.func is n):
                    self.err(n, f".{n.attr} used as a value (aliasing)")
            if not isinstance(n, ast.Call):
                continue
            f = n.func
            last = f.id if isinstance(f, ast.Name) else f.attr if isinstance(f, ast.Attribute) else None
            if last is None:
                continue
            fnname, fn = self.enclosing(n)
            # --- create_warning(...)
            if isinstance(f, ast.Name) and f.id == "create_warning":
                if not (self.create_warning_imported or self.rel == CORE_FILE):
                    self.err(n, "create_warning is not the function of myst_parser.warnings_")
                if self.has_star_kwargs(n):
                    self.err(n, "**kwargs in create_warning call")
                sub = self.classify(self.arg(n, 2, "subtype"), n, "sub")
                ty = self.classify(self.kw(n, "wtype"), n, "type")
                note = ""
                if sub[0] == "Param" and fnname.endswith("<lambda>"):
                    # the lambda must be the warning callback handed to merge_file_level
                    lam = fn
                    asg = self.parent.get(lam)
                    if not (isinstance(asg, ast.Assign) and len(asg.targets) == 1 and isinstance(asg.targets[0], ast.Name)):
                        self.err(n, "forwarding lambda is not assigned to a name")
                    var = asg.targets[0].id
                    outer = self.enclosing(lam)[1]
                    uses = []
                    for x in ast.walk(outer):
                        if isinstance(x, ast.Name) and x.id == var and isinstance(x.ctx, ast.Load):
                            r = self._reaching(x, var, asg)
                            if r == "lambda":
                                uses.append(x)
                            elif r != "rebound":
                                self.err(x, "cannot tell whether this use of the callback name refers to the forwarding lambda")
                    for u in uses:
                        c = self.parent.get(u)
                        if not (isinstance(c, ast.Call) and isinstance(c.func, ast.Name) and c.func.id == "merge_file_level"
                                and len(c.args) == 3 and c.args[2] is u):
                            self.err(u, "forwarding lambda used other than as merge_file_level's warning callback")
                    if not uses:
                        self.err(n, "forwarding lambda never used")
                    if list(self.params_of(lam)) != ["wtype", "msg"] or sub[1] != "wtype":
                        self.err(n, "forwarding lambda does not have the (wtype, msg) signature")
                    note = "callback:merge_file_level"
                    sub = ("Param", sub[1], "MystWarnings (callback of merge_file_level)")
                self.add(n, "KCreate", ty, sub, self.result_use(n), note)
                continue
            if isinstance(f, ast.Attribute) and f.attr == "create_warning":
                if not (isinstance(f.value, ast.Name) and f.value.id in ("self", "renderer")):
                    self.err(n, "receiver of .create_warning is not self/renderer")
                if self.has_star_kwargs(n):
                    self.err(n, "**kwargs in create_warning call")
                sub = self.classify(self.arg(n, 1, "subtype"), n, "sub")
                ty = self.classify(self.kw(n, "wtype"), n, "type")
                self.add(n, "KRenderer", ty, sub, self.result_use(n))
                continue
            if isinstance(f, ast.Attribute) and f.attr == "log_warning":
                if not (isinstance(f.value, ast.Name) and f.value.id == "self"):
                    self.err(n, "receiver of .log_warning is not self")
                sub = self.classify(self.arg(n, 2, "subtype"), n, "sub")
                self.add(n, "KResolver", ("Lit", "myst"), sub)
                continue
            if isinstance(f, ast.Name) and f.id == "warning":
                if not (fn is not None and isinstance(fn, ast.FunctionDef) and fn.name == "merge_file_level"
                        and "warning" in self.params_of(fn)):
                    self.err(n, "call of a bare name 'warning' outside merge_file_level")
                ann = self.params_of(fn)["warning"]
                if "MystWarnings" not in ann:
                    self.err(n, "merge_file_level's warning callback is not annotated with MystWarnings")
                sub = self.classify(self.arg(n, 0, None), n, "sub")
                self.add(n, "KCallback", ("Absent",), sub)
                continue
            if isinstance(f, ast.Name) and f.id == "ParseWarnings":
                sub = self.arg(n, 2, "type")
                self.add(n, "KRecord", ("Absent",), self.classify(sub, n, "sub") if sub is not None else ("RecordDefault",))
                continue
            # --- sphinx loggers
            if isinstance(f, ast.Attribute) and isinstance(f.value, ast.Name) and f.value.id in self.loggers:
                if f.attr == "warning":
                    ty = self.classify(self.kw(n, "type"), n, "type")
                    sub = self.classify(self.kw(n, "subtype"), n, "sub")
                    self.add(n, "KSphinxLog", ty, sub)
                elif f.attr in SPHINX_LOG_METHODS_OTHER:
                    self.add(n, "KSphinxOther", ("Absent",), ("Absent",), note=f.attr)
                else:
                    self.err(n, "unknown method on a sphinx logger")
                continue
            # --- docutils reporter
            recv = ast.unparse(f.value) if isinstance(f, ast.Attribute) else ""
            if isinstance(f, ast.Attribute) and (recv == "reporter" or recv.endswith(".reporter")):
                if f.attr == "warning":
                    self.add(n, "KReporterWarning", ("Absent",), ("Absent",))
                elif f.attr in REPORTER_OTHER:
                    self.add(n, "KReporterOther", ("Absent",), ("Absent",), note=f.attr)
                else:
                    self.err(n, "unknown method on a docutils reporter")
                continue
            # --- suppression tests
            if last in ("is_suppressed_warning", "_is_suppressed_warning"):
                if last == "is_suppressed_warning" and not (isinstance(f, ast.Attribute) and isinstance(f.value, ast.Name)
                                                            and f.value.id in self.sphinx_logging_names):
                    self.err(n, "is_suppressed_warning not taken from sphinx.util.logging")
                ty = self.classify(self.arg(n, 0, "type"), n, "type")
                sub = self.classify(self.arg(n, 1, "subtype"), n, "sub")
                self.add(n, "KSuppressTest", ty, sub)
                continue
            if isinstance(f, ast.Attribute) and f.attr == "system_message" and recv == "nodes":
                self.add(n, "KNodeCtor", ("Absent",), ("Absent",))
                continue
            if last in WARNING_LIKE:
                self.err(n, "call named like a warning call but of no recognised shape")
        return self.sites


def record_default(tree_dirs):
    """ParseWarnings.type default: `type: MystWarnings = MystWarnings.X`."""
    for n in ast.walk(tree_dirs):
        if isinstance(n, ast.ClassDef) and n.name == "ParseWarnings":
            for st in n.body:
                if isinstance(st, ast.AnnAssign) and isinstance(st.target, ast.Name) and st.target.id == "type":
                    if ast.unparse(st.annotation) != "MystWarnings":
                        raise Untranslatable("ParseWarnings.type is not annotated MystWarnings")
                    v = st.value
                    if isinstance(v, ast.Attribute) and isinstance(v.value, ast.Name) and v.value.id == "MystWarnings":
                        return v.attr
                    raise Untranslatable("ParseWarnings.type default not understood")
    raise Untranslatable("class ParseWarnings with a 'type' field not found")


def texpr(t):
    k = t[0]
    if k == "Absent":
        return "TAbsent"
    if k == "Lit":
        return f"TLit {coq_str(t[1])}"
    if k == "Param":
        return f"TParam {coq_str(t[1])}"
    if k == "CoreLocal":
        return f"TCore {coq_str(t[1])}"
    raise Untranslatable(f"type expression of unexpected form {t}")


def sexpr(t, rec_default):
    k = t[0]
    if k == "Absent":
        return "SAbsent"
    if k == "Lit":
        return f"SLit {coq_str(t[1])}"
    if k == "Member":
        return f"SMember {coq_str(t[1])}"
    if k == "MemberValue":
        return f"SMemberValue {coq_str(t[1])}"
    if k == "Param":
        return f"SParam {coq_str(t[1])} {'true' if 'MystWarnings' in t[2] else 'false'}"
    if k == "ParamValue":
        return f"SParamValue {coq_str(t[1])} {'true' if t[2].strip() == 'MystWarnings' else 'false'}"
    if k == "Record":
        return f"SRecord {coq_str(t[1])}"
    if k == "RecordDefault":
        return f"SMember {coq_str(rec_default)}"
    if k == "CoreLocal":
        return f"SCore {coq_str(t[1])}"
    raise Untranslatable(f"subtype expression of unexpected form {t}")


def uexpr(u):
    return {"Discard": "UDiscard", "Return": "UReturn", "InclOmit": "UInclOmit", "NA": "UNA",
            "AppendInspected": "UAppendInspected"}.get(u[0], "UOther")


def generate(repo: Path):
    root = repo / PKG
    files = sorted(p for p in root.rglob("*.py"))
    hashes = {}
    cat = None
    sites = []
    rec_default = None
    for p in files:
        rel = p.relative_to(root).as_posix()
        src = p.read_text()
        hashes[f"{PKG}/{rel}"] = hashlib.sha256(src.encode()).hexdigest()[:16]
        tree = ast.parse(src)
        if rel == CORE_FILE:
            cat = read_catalogue(tree, rel)
        if rel == "parsers/directives.py":
            rec_default = record_default(tree)
        sites.extend(FileScan(rel, tree).scan())
    if cat is None:
        raise Untranslatable("warnings_.py not found")
    if rec_default is None:
        raise Untranslatable("parsers/directives.py (ParseWarnings) not found")
    sites.sort(key=lambda s: (s["file"], s["line"]))
    lines = ["(* GENERATED by gen/c14_warnings.py from myst_parser/**/*.py - do not edit. *)",
             "From Coq Require Import List NArith Bool String.",
             "From MV Require Import Base.PyStr Cfg.StrLit Cfg.WarnTypes.",
             "Import ListNotations.", "Open Scope N_scope.", "Open Scope string_scope.", "",
             "(* class MystWarnings(Enum): (NAME, value) *)",
             "Definition catalogue : list (str * str) := ["]
    lines.append(";\n".join(f"  ({coq_str(n)}, {coq_str(v)})  (* {n} = {v!r} *)" for n, v in cat))
    lines += ["].", "", "Definition sites : list site := ["]
    rows = []
    for s in sites:
        rows.append(
            f"  (* {coq_comment(s['src'])} *)\n"
            f"  {{| s_file := {coq_str(s['file'])}; s_line := {s['line']}; s_func := {coq_str(s['func'])};\n"
            f"     s_kind := {s['kind']}; s_type := {texpr(s['type'])}; s_sub := {sexpr(s['sub'], rec_default)};\n"
            f"     s_use := {uexpr(s['use'])} |}}  (* {s['file']}:{s['line']} {s['func']} *)")
    lines.append(";\n".join(rows))
    lines += ["].", ""]
    return "\n".join(lines), {"catalogue": cat, "sites": sites, "hashes": hashes, "record_default": rec_default}


if __name__ == "__main__":
    import sys
    text, info = generate(Path(sys.argv[1] if len(sys.argv) > 1 else "/repo"))
    print(text)
