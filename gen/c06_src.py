"""C06 source-translation tie: regenerate coq/Gen/NestSrc.v from the working tree.

Translated statement by statement (gen/c06_walk.py; the RULES tables below are the domain mapping, TRUSTED):
  DocutilsRenderer.nested_render_text   (parse with the shared md_env, front-matter pop, line shift, the local
                                          @contextmanager `_restore` split at its yield, _render_tokens)
  MockState.nested_parse                (with current_node_context(node): nested_render_text(join, lineno+offset, temp root))
  DocutilsRenderer.render_fence / render_colon_fence  (info splitting, dispatch, the prepended "\\n" / prepended_lines logic)
  DocutilsRenderer.render_directive / run_directive   (skeleton up to and around the directive call)
  DocutilsRenderer.render_substitution  (Jinja try/except, the sub_references recursion guard, inline/block choice,
                                          try/finally difference_update)
Anything outside the mapping raises Untranslatable."""
from __future__ import annotations

import ast
from pathlib import Path

from gen.c06_walk import Walker, find_method, params
from gen.py2coq import Untranslatable

EVAL_RST_LIT = "[123; 101; 118; 97; 108; 45; 114; 115; 116; 125]"     # "{eval-rst}"

# ------------------------------------------------------------------ nested_render_text
NRT_RULES = [
    (r"tokens = self\.md\.parseInline\(text, self\.md_env\) if inline else self\.md\.parse\(text \+ '\\n', self\.md_env\)",
     ("raw", "let __p := (if inline then o_PI orc (s_env (shr s)) text else o_P orc (s_env (shr s)) (text ++ nl)) in\n"
             "let tokens := fst __p in\nlet s := set_shr (set_env (snd __p) (shr s)) s in\n{K}")),
    (r"if tokens and tokens\[0\]\.type == 'front_matter':\n    tokens\.pop\(0\)",
     ("let", "tokens", "drop_front_matter tokens")),
    (r"for token in tokens:\n    if token\.map:\n        token\.map = \[token\.map\[0\] \+ lineno, token\.map\[1\] \+ lineno\]",
     ("let", "tokens", "map (shift_tok lineno) tokens")),
    (r"current_heading_offset = self\._heading_offset", ("let", "current_heading_offset", "hoff s", "0")),
    (r"self\._heading_offset = current_heading_offset \+ heading_offset",
     ("state", "set_hoff (current_heading_offset + heading_offset) s")),
    (r"self\._heading_offset = (\w+)", ("state", "set_hoff {0} s")),
    (r"current_level_to_section = dict\(self\._level_to_section\.items\(\)\)",
     ("let", "current_level_to_section", "lmap s", "[]")),
    (r"current_root_node = self\.md_env\.get\('temp_root_node', None\)", ("let", "current_root_node", "troot s", "None")),
    (r"self\.md_env\['temp_root_node'\] = (\w+)", ("state", "set_troot {0} s")),
    (r"self\._level_to_section = (\w+)", ("state", "set_lmap {0} s")),
    (r"self\._render_tokens\(tokens\)", ("bind", "s", "render_tokens_ rec s tokens")),
]
NRT_TESTS = [(r"temp_root_node is not None", "(is_some_o temp_root_node)")]

# ------------------------------------------------------------------ MockState.nested_parse
NP_RULES = [
    (r"sm_match_titles = self\.state_machine\.match_titles", ("skip",)),
    (r"self\.state_machine\.match_titles = sm_match_titles", ("skip",)),
    (r"self\._renderer\.nested_render_text\('\\n'\.join\(block\), self\._lineno \+ input_offset, "
     r"temp_root_node=node if match_titles else None\)",
     ("bind", "s", "nested_render_text_src s (join nl block) (lineno + N.of_nat input_offset) false "
                   "(if match_titles then Some (cur s) else None) 0")),
]
NP_WITH = [(r"self\._renderer\.current_node_context\(node\)",
            "do __r <- with_detached s node (fun s =>\n{BODY});\nlet node := fst __r in\nlet s := snd __r in\n{K}")]

# ------------------------------------------------------------------ info splitting (both fences)
SPLIT_RULES = [
    (r"parts = \(token\.info\.strip\(\) if token\.info else ''\)\.split\(maxsplit=1\)",
     ("let", "parts", "split_ws_max 1 (strip info)")),
    (r"name = parts\[0\] if parts else ''", ("let", "name", "match parts with n :: _ => n | [] => [] end")),
    (r"arguments = parts\[1\] if len\(parts\) > 1 else ''",
     ("let", "arguments", "match parts with _ :: a :: _ => a | _ => [] end")),
]
FENCE_TESTS = [
    (r"not self\.md_config\.commonmark_only and \(not self\.md_config\.gfm_only\)", "(negb cfg_commonmark && negb cfg_gfm)"),
    (r"name == '\{eval-rst\}'", f"(str_eqb name {EVAL_RST_LIT})"),
    (r"name\.startswith\('\{'\) and name\.endswith\('\}'\)", "(startswith name [c_lbrace] && endswith name [c_rbrace])"),
    (r"name in self\.md_config\.fence_as_directive", "(mem_str name fence_as_directive)"),
    (r"token\.content\.startswith\(':::'\)", "(startswith content colons3)"),
]
RF_RULES = SPLIT_RULES + [
    (r"return self\.render_restructuredtext\(token\)",
     ("ret", "(let '(ns, h) := o_eval_rst orc content (token_line_d mp 0) (shr s) in extend_cur (set_shr h s) ns)")),
    (r"return self\.render_directive\(token, name\[1:-1\], arguments\)",
     ("ret", "render_directive_src s (removelast (tl name)) arguments content mp 0%nat")),
    (r"options = \{k: str\(v\) for k, v in token\.attrs\.items\(\)\}", ("skip",)),
    (r"if 'id' in options:\n    options\['name'\] = options\.pop\('id'\)", ("skip",)),
    (r"return self\.render_directive\(token, name, arguments, additional_options=options\)",
     ("ret", "render_directive_src s name arguments content mp 0%nat")),
    (r"if not name and self\.sphinx_env is not None:\n    name = [^\n]*", ("skip",)),
    (r"lineno_start = 1", ("skip",)),
    (r"number_lines = name in self\.md_config\.number_code_blocks", ("skip",)),
    (r"emphasize_lines = [^\n]*", ("skip",)),
    (r"if 'lineno-start' in token\.attrs:\n    with suppress\(ValueError\):\n        lineno_start = int\(token\.attrs\['lineno-start'\]\)\n"
     r"        number_lines = True", ("skip",)),
    (r"node = self\.create_highlighted_code_block\(token\.content, name, [^\n]*\)", ("skip",)),
    (r"self\.copy_attributes\(token, node, \('class', 'id'\)\)", ("skip",)),
    (r"self\.current_node\.append\(node\)",
     ("bind", "s", "extend_cur s [Node NLiteral (info ++ nl ++ content) (line_of mp) []]")),
]
RCF_RULES = SPLIT_RULES + [
    (r"prepended_lines = (\d+)", ("let", "prepended_lines", "{0}%nat", "prepended_lines")),
    (r"linear_token = token\.token\.copy\(\)", ("skip",)),
    (r"linear_token\.content = '\\n' \+ linear_token\.content", ("let", "content", "(nl ++ content)", "content")),
    (r"token\.token = linear_token", ("skip",)),
    (r"return self\.render_directive\(token, name\[1:-1\], arguments, prepended_lines=prepended_lines\)",
     ("ret", "render_directive_src s (removelast (tl name)) arguments content mp prepended_lines")),
    (r"container = nodes\.container\(is_div=True\)", ("skip",)),
    (r"self\.add_line_and_source_path\(container, token\)", ("skip",)),
    (r"self\.copy_attributes\(token, container, \('class', 'id'\)\)", ("skip",)),
    (r"if name:\n    container\['classes'\]\.append\(name\)", ("skip",)),
    (r"self\.nested_render_text\(token\.content, token_line\(token, 0\)\)",
     ("bind", "s", "nested_render_text_src s content (token_line_d mp 0) false None 0")),
]
RCF_WITH = [(r"self\.current_node_context\(container, append=True\)",
             "do s <- with_node s (Node NDiv name (line_of mp) []) (fun s =>\n{BODY});\n{K}")]

# ------------------------------------------------------------------ render_directive / run_directive
RD_RULES = [
    (r"position = token_line\(token\)", ("bind", "position", "token_line mp")),
    (r"nodes_list = self\.run_directive\(name, arguments, token\.content, position, additional_options=additional_options, "
     r"prepended_lines=prepended_lines\)",
     ("raw", "do __r <- run_directive_src s name arguments content position prepended_lines;\n"
             "let nodes_list := fst __r in\nlet s := snd __r in\n{K}")),
    (r"self\.current_node \+= nodes_list", ("bind", "s", "extend_cur s nodes_list")),
]


def _instance(m, k):
    off = m.group(1)
    if off == "parsed.body_offset - prepended_lines":
        o = "(p_off parsed - prepended_lines)%nat"
    elif off == "parsed.body_offset":
        o = "(p_off parsed)"
    else:
        raise Untranslatable(f"content_offset={off}")
    return ("let directive_instance := (fun s : st env =>\n"
            "  if is_kinclude kind then include_run env orc rec s parsed\n"
            "  else run_docutils_directive (mock_state_src position) kind name (p_args parsed) (fst __v)\n"
            f"         (p_optblock parsed) (p_body parsed) {o} position s) in\n" + k)


RUN_RULES = [
    (r"self\.document\.current_line = position", ("skip",)),
    (r"output: [^\n]* = directives\.directive\(name, self\.language_module_rst, self\.document\)",
     ("let", "output", "o_dir_lookup orc name")),
    (r"directive_class, messages = output", ("skip",)),
    (r"if not directive_class:\n    warn_node = self\.create_warning\('F', MystWarnings\.UNKNOWN_DIRECTIVE, line=position\)\n"
     r"    return \(\[warn_node\] if warn_node else \[\]\) \+ messages",
     ("raw", "match output with\n| None => Ok ([sysmsg name position], s)\n| Some (kind, directive_class) =>\n{K}\nend")),
    (r"if issubclass\(directive_class, Include\):\s+class MystInclude\(directive_class\):\n[^\n]*\n    directive_class = MystInclude",
     ("skip",)),
    (r"try:\n    parsed = parse_directive_text\(directive_class, first_line, content, line=position, "
     r"additional_options=additional_options\)\nexcept MarkupError as error:\n"
     r"    error = self\.reporter\.error\('F', line=position\)\n    return \[error\]",
     ("raw", "match parse_directive_text directive_class first_line content with\n"
             "| Raise _ => Ok ([sysmsg name position], s)\n| Ok parsed =>\n{K}\nend")),
    (r"for _warning in parsed\.warnings:\n    self\.create_warning\('F', _warning\.type, "
     r"line=_warning\.lineno if _warning\.lineno is not None else position, append_to=self\.current_node\)",
     ("raw", "let __v := o_opt_validate orc name (p_optblock parsed) in\n"
             "do s <- extend_cur s (directive_warnings parsed (snd __v) position);\n{K}")),
    (r"if issubclass\(directive_class, Include\):\n    directive_instance = MockIncludeDirective\(self, name=name, "
     r"klass=directive_class, arguments=parsed\.arguments, options=parsed\.options, body=parsed\.body, lineno=position\)\n"
     r"else:\n    state_machine = MockStateMachine\(self, position\)\n    state = MockState\(self, state_machine, position\)\n"
     r"    directive_instance = directive_class\(name=name, arguments=parsed\.arguments, options=parsed\.options, "
     r"content=StringList\(parsed\.body, self\.document\['source'\]\), lineno=position, "
     r"content_offset=([^,]*), block_text='\\n'\.join\(parsed\.body\), state=state, state_machine=state_machine\)",
     ("raw", _instance)),
    (r"try:\n    result = directive_instance\.run\(\)\nexcept DirectiveError as error:\n"
     r"    msg_node = self\.reporter\.system_message\(error\.level, error\.msg, line=position\)\n"
     r"    msg_node \+= nodes\.literal_block\(content, content\)\n    result = \[msg_node\]\n"
     r"except MockingError as exc:\n    error_msg = self\.reporter\.error\('F', nodes\.literal_block\(content, content\), line=position\)\n"
     r"    return \[error_msg\]",
     ("raw", "do __r <- directive_instance s;\nlet s := snd __r in\n"
             "let result := match fst __r with DNodes ns => ns | DError level msg => [directive_error msg content position] end in\n{K}")),
    (r"for i in range\(len\(result\)\):\n    assert [^\n]*\n"
     r"    if isinstance\(result\[i\], nodes\.Element\) and result\[i\]\.line is None:\n"
     r"        result\[i\]\.source, result\[i\]\.line = \(self\.document\['source'\], position\)",
     ("let", "result", "fill_lines position result")),
    (r"return result", ("ret", "Ok (result, s)")),
]

# ------------------------------------------------------------------ render_substitution
WARN_SUBST = (r"self\.create_warning\('F', MystWarnings\.SUBSTITUTION, line=position, append_to=self\.current_node\)")
RS_RULES = [
    (r"position = token_line\(token\)", ("bind", "position", "token_line mp")),
    (r"variable_context: [^\n]* = \{\*\*self\.md_config\.substitutions\}", ("skip",)),
    (r"if self\.sphinx_env is not None:\n    variable_context\['env'\] = self\.sphinx_env", ("skip",)),
    (r"env = jinja2\.Environment\(undefined=jinja2\.StrictUndefined\)", ("skip",)),
    (r"try:\n    rendered = env\.from_string\('F'\)\.render\(variable_context\)\nexcept Exception as error:\n    "
     + WARN_SUBST + r"\n    return",
     ("raw", "match o_jinja orc key with\n| None => extend_cur s [sysmsg key position]\n| Some rendered =>\n{K}\nend")),
    (r"ast = env\.parse\('F'\)", ("skip",)),
    (r"references = \{n\.name for n in ast\.find_all\(jinja2\.nodes\.Name\) if n\.name != 'env'\}",
     ("let", "references", "o_sub_names orc key")),
    (r"self\.document\.sub_references = getattr\(self\.document, 'sub_references', set\(\)\)", ("skip",)),
    (r"cyclic = references\.intersection\(self\.document\.sub_references\)",
     ("let", "cyclic", "filter (fun r => mem_str r (s_subrefs (shr s))) references")),
    (WARN_SUBST, ("bind", "s", "extend_cur s [sysmsg key position]")),
    (r"self\.document\.sub_references\.update\(references\)",
     ("state", "set_shr (set_subrefs (add_all references (s_subrefs (shr s))) (shr s)) s")),
    (r"self\.nested_render_text\(rendered, position, inline=True\)",
     ("bind", "s", "nested_render_text_src s rendered position true None 0")),
    (r"self\.nested_render_text\(rendered, position\)",
     ("bind", "s", "nested_render_text_src s rendered position false None 0")),
    (r"self\.document\.sub_references\.difference_update\(references\)",
     ("state", "set_shr (set_subrefs (remove_all references (s_subrefs (shr s))) (shr s)) s")),
]
RS_TESTS = [
    (r"cyclic", "(negb (is_nil cyclic))"),
    (r"inline and \(not REGEX_DIRECTIVE_START\.match\(rendered\)\)", "(inline && negb (o_is_directive_start orc rendered))"),
]

# ------------------------------------------------------------------ the tail of MockIncludeDirective.run
# try: include_log.append(key); ...; nested_render_text(...)  finally: include_log.pop(); ...
TAIL_RULES = [
    (r"include_log\.append\(include_key\)", ("state", "set_shr (set_incl (s_incl (shr s) ++ [path]) (shr s)) s")),
    (r"self\.renderer\.document\['source'\] = (?:str\(path\)|source)", ("skip",)),
    (r"self\.renderer\.reporter\.source = (?:str\(path\)|rsource)", ("skip",)),
    (r"self\.renderer\.reporter\.get_source_and_line = lambda li: \(str\(path\), li\)", ("skip",)),
    (r"root_dir = Path\(include_log\[0\]\[0\]\)\.parent", ("skip",)),
    (r"if 'relative-images' in self\.options:\n    self\.renderer\.md_env\['relative-images'\] = [^\n]*", ("skip",)),
    (r"if 'relative-docs' in self\.options:\n    self\.renderer\.md_env\['relative-docs'\] = [^\n]*", ("skip",)),
    (r"self\.renderer\.nested_render_text\(file_content, startline \+ 1, heading_offset=self\.options\.get\('heading-offset', 0\)\)",
     ("bind", "s", "nested_render_text_src s file_content (startline + 1) false None heading_offset")),
    (r"include_log\.pop\(\)", ("state", "set_shr (set_incl (removelast (s_incl (shr s))) (shr s)) s")),
    (r"self\.renderer\.md_env\.pop\('relative-(?:images|docs)', None\)", ("skip",)),
    (r"self\.renderer\.md_env\.update\(outer_relative\)", ("skip",)),
    (r"if line_func is not None:\n    self\.renderer\.reporter\.get_source_and_line = line_func\nelse:\n"
     r"    del self\.renderer\.reporter\.get_source_and_line", ("skip",)),
]


def gen_include_tail(mock) -> str:
    from gen.c06_walk import canonicalise_by_value
    from gen.c20_src import RUN_CANON
    run = canonicalise_by_value(find_method(mock, "MockIncludeDirective", "run"), RUN_CANON)
    tries = [x for x in run.body if isinstance(x, ast.Try) and x.finalbody and not x.handlers]
    if len(tries) != 1 or "nested_render_text" not in ast.unparse(tries[0]):
        raise Untranslatable("MockIncludeDirective.run: expected one top-level try/finally around nested_render_text")
    after = run.body[run.body.index(tries[0]) + 1:]
    if [ast.unparse(x) for x in after] != ["return []"]:
        raise Untranslatable("MockIncludeDirective.run: `return []` expected after the try/finally")
    w = Walker(TAIL_RULES, [])
    return ("(* MockIncludeDirective.run: the try/finally around nested_render_text - the include chain (md_env['include_log'])\n"
            "   is extended for the duration of the nested render and popped in `finally`; path = the resolved path *)\n"
            "Definition include_tail_src (s : st env) (path file_content : str) (startline heading_offset : N) : res (st env) :=\n"
            + w.block([tries[0]]) + ".\n\n")


PREAMBLE = """(* GENERATED by gen/c06_src.py from myst_parser/mdit_to_docutils/base.py and myst_parser/mocking.py - do not edit *)
From Coq Require Import List Arith NArith Bool.
From MV Require Import Base.PyStr Base.Res Nest.Lines Nest.Split Nest.Nest.
Import ListNotations.
Open Scope N_scope.

Definition is_some_o {A} (o : option A) : bool := match o with Some _ => true | None => false end.
Definition is_kinclude (k : dkind) : bool := match k with KInclude => true | _ => false end.

Section Src.
  Variable env : Type.
  Variable orc : oracles env.
  Variable rec : st env -> tok -> res (st env).
  (* configuration read by render_fence: commonmark_only, gfm_only, fence_as_directive *)
  Variable cfg_commonmark cfg_gfm : bool.
  Variable fence_as_directive : list str.

"""

STATIC_MID = """
(* MockState(renderer, state_machine, lineno): nested_parse is the translated one (match_titles=False is what the
   admonition classes pass); inline_text = MockInliner.parse into a temporary Element *)
Definition mock_state_src (lineno : N) : callbacks (st env) :=
  {| cb_nested_parse := fun block input_offset node s => nested_parse_src lineno block input_offset node false s;
     cb_inline_text := fun text ln s =>
       do r <- with_detached s (Node NElement [] None []) (fun s => nested_render_text_src s text ln true None 0);
       Ok (node_kids (fst r), snd r) |}.

(* directive_class(...).run() for the docutils classes: dispatch on the registered kind *)
Definition run_docutils_directive (ms : callbacks (st env)) (kind : dkind) (name : str) (args : list str)
    (attrs : str) (ob : option str) (body : list str) (off : nat) (position : N) (s : st env) : res (dout * st env) :=
  match kind with
  | KAdm titled => o_adm_run orc (st env) ms titled name args attrs body off position s
  | KInclude => Raise AssertionError
  | KOther => let '(ns, h) := o_other_directive orc name args ob body off position (shr s) in Ok (DNodes ns, set_shr h s)
  end.

"""

STATIC_END = """
(* the dispatch of _render_tokens / render_children on the token type, with the translated methods *)
Definition render_step_src (s : st env) (t : tok) : res (st env) :=
  match t with
  | TFence colon info content mp =>
      if colon then render_colon_fence_src s info content mp else render_fence_src s info content mp
  | TSubst inline key mp => render_substitution_src s inline key mp
  | _ => render_step env orc rec s t
  end.

End Src.

Fixpoint render_tok_src (env : Type) (orc : oracles env) (f : nat) (s : st env) (t : tok) {struct f} : res (st env) :=
  match f with
  | O => Raise OutOfFuel
  | S f' => render_step_src env orc (render_tok_src env orc f') false false [] s t
  end.
"""


# the locals of each method in order of first binding, under the names the RULES use (alpha-normalisation)
CANON = {
    "nested_render_text": ["tokens", "token", "_restore", "current_heading_offset", "current_level_to_section",
                           "current_root_node"],
    "nested_parse": ["sm_match_titles"],
    "run_directive": ["output", "directive_class", "messages", "warn_node", "MystInclude", "option_spec", "parsed", "error",
                      "_warning", "directive_instance", "state_machine", "state", "result", "msg_node", "exc", "error_msg", "i"],
    "render_directive": ["position", "nodes_list"],
    "render_fence": ["parts", "name", "arguments", "options", "k", "v", "lineno_start", "number_lines", "emphasize_lines",
                     "node"],
    "render_colon_fence": ["parts", "name", "arguments", "prepended_lines", "linear_token", "container"],
    "render_substitution": ["position", "variable_context", "env", "rendered", "error", "ast", "references", "n", "cyclic"],
}


def method(tree, cls, name, expect_params):
    fn = find_method(tree, cls, name, CANON[name])
    got = params(fn)
    if got != expect_params:
        raise Untranslatable(f"{cls}.{name} parameters {got} (expected {expect_params})")
    return fn


def generate(repo: Path) -> str:
    base = ast.parse((repo / "myst_parser/mdit_to_docutils/base.py").read_text(encoding="utf8"))
    mock = ast.parse((repo / "myst_parser/mocking.py").read_text(encoding="utf8"))
    out = [PREAMBLE]

    fn = method(base, "DocutilsRenderer", "nested_render_text",
                ["self", "text", "lineno", "inline", "temp_root_node", "heading_offset"])
    w = Walker(NRT_RULES, NRT_TESTS)
    out.append("(* DocutilsRenderer.nested_render_text *)\n"
               "Definition nested_render_text_src (s : st env) (text : str) (lineno : N) (inline : bool)\n"
               "    (temp_root_node : option loc) (heading_offset : N) : res (st env) :=\n" + w.block(list(fn.body)) + ".\n\n")

    fn = method(mock, "MockState", "nested_parse",
                ["self", "block", "input_offset", "node", "match_titles", "state_machine_class", "state_machine_kwargs"])
    w = Walker(NP_RULES, [], final="Ok (node, s)", with_rules=NP_WITH, inner_final="Ok s")
    out.append("(* MockState.nested_parse; lineno = self._lineno *)\n"
               "Definition nested_parse_src (lineno : N) (block : list str) (input_offset : nat) (node : Nest.node)\n"
               "    (match_titles : bool) (s : st env) : res (Nest.node * st env) :=\n" + w.block(list(fn.body)) + ".\n")
    out.append("\n" + gen_include_tail(mock))
    out.append(STATIC_MID)

    fn = method(base, "DocutilsRenderer", "run_directive",
                ["self", "name", "first_line", "content", "position", "additional_options", "prepended_lines"])
    w = Walker(RUN_RULES, [], final="Raise AssertionError")
    body = w.block(list(fn.body))
    out.append("(* DocutilsRenderer.run_directive *)\n"
               "Definition run_directive_src (s : st env) (name first_line content : str) (position : N)\n"
               "    (prepended_lines : nat) : res (list node * st env) :=\n" + body + ".\n\n")

    fn = method(base, "DocutilsRenderer", "render_directive",
                ["self", "token", "name", "arguments", "additional_options", "prepended_lines"])
    w = Walker(RD_RULES, [])
    out.append("(* DocutilsRenderer.render_directive; token = (content, map) *)\n"
               "Definition render_directive_src (s : st env) (name arguments content : str) (mp : omap)\n"
               "    (prepended_lines : nat) : res (st env) :=\n" + w.block(list(fn.body)) + ".\n\n")

    fn = method(base, "DocutilsRenderer", "render_fence", ["self", "token"])
    w = Walker(RF_RULES, FENCE_TESTS)
    out.append("(* DocutilsRenderer.render_fence; token = (info, content, map) *)\n"
               "Definition render_fence_src (s : st env) (info content : str) (mp : omap) : res (st env) :=\n"
               + w.block(list(fn.body)) + ".\n\n")

    fn = method(base, "DocutilsRenderer", "render_colon_fence", ["self", "token"])
    w = Walker(RCF_RULES, FENCE_TESTS, with_rules=RCF_WITH)
    out.append("(* DocutilsRenderer.render_colon_fence *)\n"
               "Definition render_colon_fence_src (s : st env) (info content : str) (mp : omap) : res (st env) :=\n"
               + w.block(list(fn.body)) + ".\n\n")

    fn = method(base, "DocutilsRenderer", "render_substitution", ["self", "token", "inline"])
    w = Walker(RS_RULES, RS_TESTS)
    out.append("(* DocutilsRenderer.render_substitution; token = (content = key, map) *)\n"
               "Definition render_substitution_src (s : st env) (inline : bool) (key : str) (mp : omap) : res (st env) :=\n"
               + w.block(list(fn.body)) + ".\n")
    out.append(STATIC_END)
    return "".join(out)
