"""Regenerate coq/Gen/FootSrc.v from myst_parser/mdit_to_docutils/transforms.py: SortFootnotes.apply,
UnreferencedFootnotesDetector.apply and CollectFootnotes.apply translated statement by statement
(gen/c09_pywalk.py) into Gallina over the C11 model types (coq/Refs/Foot.v, FootOps.v).

Domain mapping (TRUSTED, fail-closed - anything not listed raises Untranslatable):
  getattr(self.document, 'myst_footnote_sort' / 'myst_footnote_transition', True) -> the two boolean parameters
  (the per-document values that _render_finalise stores on the document node)
  SortFootnotes:   self.document.autofootnote_refs -> g_autofootnote_refs g   (rf records)
                   self.document.autofootnotes     -> g_autofootnotes g       (fn records)
                   node["refname"] -> r_label node ; "refname" in node -> rf_has_refname node
                   node["names"] -> fn_names node ; L[0] under a truthiness guard of L -> hd_str L
                   x in L -> mem_str x L ; L.index(x) under the guard `x in L` -> py_index x L ; len(L) -> length L
                   L.sort(key=f) on the registry -> set_autofootnotes g (isort f Nat.leb L)
  Detector/Collect (after docutils' Footnotes): self.document.footnotes -> s_manual s, .autofootnotes -> s_auto s,
                   .symbol_footnotes -> s_symbol s (= []) ; node["backrefs"] -> fo_backrefs node ;
                   node["names"] -> fo_names node ; node["dupnames"] -> fo_dupnames node
                   create_warning(self.document, MSG, wtype="ref", subtype="footnote", node=node) -> w ++ [warning]
                     with "Footnote [{}] ..".format(x) -> WUnref x false, "Footnote [#] .." -> WUnref (label of node) true,
                     "Footnote [*] .." -> WUnrefSymbol
                   footnote.children[0] -> the label node (fo_label_node), .astext() of it -> its text (fo_display)
                   self.document.children -> layout ; isinstance(c, nodes.footnote) -> is_foot c ;
                   nodes.transition(classes=["footnotes"]) -> LTrans ; transition.source = .. -> no model counterpart
                   self.document += transition -> layout ++ [transition] ; self.document += footnote -> layout ++ [LFoot label]
                   footnote.parent.remove(footnote) -> remove_foot footnote layout
                   try: return 0, int(label) / except ValueError: return 1, label -> match int_of label with Some n => KInt n | None => KStr label
                   sorted(L, key=f) -> isort f ckey_leb L
"""
from __future__ import annotations

import ast
from pathlib import Path

from gen.c09_pywalk import Env, Untranslatable, Walker, canonicalize, coq_str, find_method

DOC = "self.document"


def u(e):
    return ast.unparse(e)


class FootMap:
    """expression / effect hooks for one of the three functions"""

    def __init__(self, which):
        self.which = which      # "sort" | "detect" | "collect"

    # ---------------------------------------------------------------- expressions
    def expr(self, e, env, w):
        src = u(e)
        if isinstance(e, ast.Call) and isinstance(e.func, ast.Name) and e.func.id == "__truthy":
            return self.truthy(e.args[0], env, w), False
        if isinstance(e, ast.Call) and isinstance(e.func, ast.Name) and e.func.id == "__argtype":
            fname = e.args[0].value
            if fname == "_sort_key" and self.which == "sort":
                env.types["node"] = "fn"
                return "fn", False
            if fname == "_sort_key" and self.which == "collect":
                env.types["footnote"] = "pair"
                return "(str * fout)", False
            raise Untranslatable(f"local function {fname}")
        if isinstance(e, ast.Name):
            if e.id in env.types:
                return e.id, False
            raise Untranslatable(f"unknown name {e.id}")
        if isinstance(e, ast.IfExp):
            if u(e.test) in env.truthy:
                return w.expr(e.body, env)          # the test is known to hold here
            raise Untranslatable(f"conditional expression {src}")
        if isinstance(e, ast.List) and not e.elts:
            if self.which == "collect":
                w._last_type = "pairs"
                return "(@nil (str * fout))", False
        if isinstance(e, ast.Tuple) and len(e.elts) == 2:
            a, b = e.elts
            if self.which == "collect" and u(a) == "label.astext()" and isinstance(b, ast.Name):
                return f"({self.label_text(env)}, {w.pure(b, env)})", False
        if isinstance(e, ast.ListComp) and self.which == "sort":
            return self.listcomp(e, env, w), False
        if isinstance(e, ast.BinOp) and isinstance(e.op, ast.Add):
            return f"({w.pure(e.left, env)} ++ {w.pure(e.right, env)})", False
        # registries
        if self.which == "sort":
            if src == f"{DOC}.autofootnote_refs":
                return "(g_autofootnote_refs g)", False
            if src == f"{DOC}.autofootnotes":
                return "(g_autofootnotes g)", False
        else:
            if src == f"{DOC}.footnotes":
                return "(s_manual s)", False
            if src == f"{DOC}.autofootnotes":
                return "(s_auto s)", False
            if src == f"{DOC}.symbol_footnotes":
                return "(s_symbol s)", False
            if src == f"{DOC}.children" and self.which == "collect":
                return "layout", False
        # subscripts on nodes
        if isinstance(e, ast.Subscript):
            base, key = e.value, e.slice
            if isinstance(key, ast.Constant) and isinstance(key.value, str) and isinstance(base, ast.Name):
                ty = env.types.get(base.id)
                table = {("rf", "refname"): "r_label", ("fn", "names"): "fn_names",
                         ("fout", "backrefs"): "fo_backrefs", ("fout", "names"): "fo_names",
                         ("fout", "dupnames"): "fo_dupnames"}
                if (ty, key.value) in table:
                    return f"({table[(ty, key.value)]} {base.id})", False
                raise Untranslatable(f"attribute {src} of a {ty}")
            if isinstance(key, ast.Constant) and key.value == 0:
                if u(base) == "footnote.children" and self.which == "collect":
                    w._last_type = "labelnode"
                    return "(fo_label_node footnote)", False
                if u(base) not in env.truthy:
                    raise Untranslatable(f"{src}: no guard shows that {u(base)} is not empty")
                return f"(hd_str {w.pure(base, env)})", False
        if isinstance(e, ast.Compare) and len(e.ops) == 1 and isinstance(e.ops[0], ast.In):
            return f"(mem_str {w.pure(e.left, env)} {w.pure(e.comparators[0], env)})", False
        if isinstance(e, ast.Call):
            f = e.func
            if isinstance(f, ast.Attribute) and f.attr == "index" and len(e.args) == 1 and not e.keywords:
                guard = f"{u(e.args[0])} in {u(f.value)}"
                if guard not in env.truthy:
                    raise Untranslatable(f"{src}: no guard `{guard}`")
                return f"(py_index {w.pure(e.args[0], env)} {w.pure(f.value, env)})", False
            if isinstance(f, ast.Name) and f.id == "len" and len(e.args) == 1:
                return f"(length {w.pure(e.args[0], env)})", False
            if src == "nodes.transition(classes=['footnotes'])" and self.which == "collect":
                w._last_type = "ltop"
                return "LTrans", False
            if (isinstance(f, ast.Name) and f.id == "all" and len(e.args) == 1 and isinstance(e.args[0], ast.GeneratorExp)
                    and self.which == "collect"):
                g = e.args[0]
                if len(g.generators) != 1 or g.generators[0].ifs or not isinstance(g.generators[0].target, ast.Name):
                    raise Untranslatable("generator shape")
                x = g.generators[0].target.id
                e2 = env.copy()
                e2.types[x] = "ltop"
                return f"(forallb (fun {x} => {w.test(g.elt, e2)}) {w.pure(g.generators[0].iter, env)})", False
            if (isinstance(f, ast.Name) and f.id == "sorted" and len(e.args) == 1 and len(e.keywords) == 1
                    and e.keywords[0].arg == "key" and self.which == "collect"):
                return f"(isort {w.pure(e.keywords[0].value, env)} ckey_leb {w.pure(e.args[0], env)})", False
        raise Untranslatable(f"expression {src}")

    def label_text(self, env):
        if env.types.get("label") != "labelnode":
            raise Untranslatable("label.astext(): label is not the label node")
        return "(fo_display_of label)"

    def listcomp(self, e, env, w):
        if len(e.generators) != 1 or not isinstance(e.generators[0].target, ast.Name):
            raise Untranslatable("comprehension shape")
        g = e.generators[0]
        x = g.target.id
        seq = w.pure(g.iter, env)
        e2 = env.copy()
        e2.types[x] = "rf"
        flt = seq
        for c in g.ifs:
            flt = f"(filter (fun {x} => {w.test(c, e2)}) {flt})"
        return f"(map (fun {x} => {w.pure(e.elt, e2)}) {flt})"

    def truthy(self, t, env, w):
        src = u(t)
        # the per-document values _render_finalise stores on the document node (default: the option's default)
        if src == f"getattr({DOC}, 'myst_footnote_sort', True)":
            return "footnote_sort"
        if src == f"getattr({DOC}, 'myst_footnote_transition', True)":
            return "footnote_transition"
        if isinstance(t, ast.Compare) and len(t.ops) == 1 and isinstance(t.ops[0], ast.In):
            l, r = t.left, t.comparators[0]
            if isinstance(l, ast.Constant) and l.value == "refname" and isinstance(r, ast.Name) and env.types.get(r.id) == "rf":
                return f"(rf_has_refname {r.id})"
            return w.pure(t, env)
        if isinstance(t, ast.Call) and isinstance(t.func, ast.Name) and t.func.id == "isinstance" and len(t.args) == 2:
            if u(t.args[1]) == "nodes.footnote" and isinstance(t.args[0], ast.Name) and env.types.get(t.args[0].id) == "ltop":
                return f"(is_foot {t.args[0].id})"
            raise Untranslatable(f"isinstance test {src}")
        if isinstance(t, ast.Call) and isinstance(t.func, ast.Name) and t.func.id == "all":
            return w.pure(t, env)
        if isinstance(t, ast.Subscript) or (isinstance(t, ast.Name) and env.types.get(t.id) in ("pairs",)):
            return f"(nonempty_l {w.pure(t, env)})"       # truthiness of a list
        raise Untranslatable(f"truthiness of {src}")

    # ---------------------------------------------------------------- effects
    def effect(self, s, env, w):
        src = u(s)
        if self.which == "sort" and isinstance(s, ast.Expr) and isinstance(s.value, ast.Call):
            c = s.value
            if (u(c.func) == f"{DOC}.autofootnotes.sort" and not c.args and len(c.keywords) == 1 and c.keywords[0].arg == "key"):
                return [("g", f"set_autofootnotes g (isort {w.pure(c.keywords[0].value, env)} Nat.leb (g_autofootnotes g))", False)]
        if self.which == "detect" and isinstance(s, ast.Expr) and isinstance(s.value, ast.Call) and u(s.value.func) == "create_warning":
            c = s.value
            kw = {k.arg: k.value for k in c.keywords}
            if (len(c.args) != 2 or u(c.args[0]) != DOC or set(kw) != {"wtype", "subtype", "node"}
                    or u(kw["wtype"]) != "'ref'" or u(kw["subtype"]) != "'footnote'" or not isinstance(kw["node"], ast.Name)):
                raise Untranslatable(f"create_warning call {src[:120]}")
            node = kw["node"].id
            return [("w", f"(w ++ [{self.message(c.args[1], node, env, w)}])", False)]
        if self.which == "collect":
            if isinstance(s, ast.Expr) and isinstance(s.value, ast.Call) and u(s.value.func) == "footnotes.append" and len(s.value.args) == 1:
                return [("footnotes", f"(footnotes ++ [{w.pure(s.value.args[0], env)}])", False)]
            if src == "transition.source = self.document.source":
                return []                         # bookkeeping on the fresh node
            if src == "self.document += transition":
                if env.types.get("transition") != "ltop":
                    raise Untranslatable("transition is not the transition node")
                return [("layout", "(layout ++ [transition])", False)]
            if src == "self.document += footnote":
                return [("layout", "(layout ++ [LFoot (lbl_of footnote)])", False)]
            if src == "footnote.parent.remove(footnote)":
                return [("layout", "(remove_foot footnote layout)", False)]
        return None

    def message(self, m, node, env, w):
        if isinstance(m, ast.IfExp):
            if u(m.test) not in env.truthy:
                raise Untranslatable("conditional message without a guard")
            m = m.body
        if (isinstance(m, ast.Call) and isinstance(m.func, ast.Attribute) and m.func.attr == "format"
                and isinstance(m.func.value, ast.Constant) and m.func.value.value == "Footnote [{}] is not referenced."
                and len(m.args) == 1):
            return f"WUnref {w.pure(m.args[0], env)} false"
        if isinstance(m, ast.Constant) and m.value == "Footnote [#] is not referenced.":
            return f"WUnref (lbl_of {node}) true"
        if isinstance(m, ast.Constant) and m.value == "Footnote [*] is not referenced.":
            return "WUnrefSymbol"
        raise Untranslatable(f"warning message {u(m)[:80]}")

    def loop(self, s, env, w):
        """loops over registries: the element type"""
        src = u(s.iter)
        if self.which == "detect" and isinstance(s.target, ast.Name):
            env.types[s.target.id] = "fout"
            return None
        if self.which == "collect":
            if src == f"{DOC}.symbol_footnotes + {DOC}.footnotes + {DOC}.autofootnotes" and isinstance(s.target, ast.Name):
                env.types[s.target.id] = "fout"
                return None
            if isinstance(s.target, ast.Tuple) and u(s.target) == "(_, footnote)":
                env.types["footnote"] = "fout"
                return "'(_, footnote)", w.pure(s.iter, env)
        raise Untranslatable(f"loop over {src}")

    def loop_state(self, s, env):
        body = "\n".join(u(x) for x in s.body)
        out = []
        if "create_warning(" in body:
            out.append("w")
        if "footnotes.append(" in body:
            out.append("footnotes")
        if "self.document +=" in body or ".parent.remove(" in body:
            out.append("layout")
        return out


def try_key(s, env, w):
    """try: return 0, int(label)  except ValueError: return 1, label"""
    if not (isinstance(s, ast.Try) and len(s.body) == 1 and len(s.handlers) == 1 and not s.orelse and not s.finalbody):
        return None
    b, h = s.body[0], s.handlers[0]
    if not (isinstance(b, ast.Return) and isinstance(b.value, ast.Tuple) and len(b.value.elts) == 2
            and u(h.type) == "ValueError" and len(h.body) == 1 and isinstance(h.body[0], ast.Return)
            and isinstance(h.body[0].value, ast.Tuple) and len(h.body[0].value.elts) == 2):
        raise Untranslatable("try shape")
    (t0, v0), (t1, v1) = b.value.elts, h.body[0].value.elts
    tags = {0: "KInt", 1: "KStr"}
    if not (isinstance(t0, ast.Constant) and isinstance(t1, ast.Constant) and t0.value in tags and t1.value in tags):
        raise Untranslatable("key tuple tags")
    if not (isinstance(v0, ast.Call) and u(v0.func) == "int" and len(v0.args) == 1 and isinstance(v0.args[0], ast.Name)):
        raise Untranslatable("try body is not int(name)")
    x = v0.args[0].id
    ok = "KInt __n" if t0.value == 0 else "KStr_of_N __n"
    if t0.value != 0:
        raise Untranslatable("integer keys must carry tag 0")
    if not (isinstance(v1, ast.Name)):
        raise Untranslatable("except branch value")
    other = f"{tags[t1.value]} {v1.id}" if t1.value == 1 else None
    if other is None:
        raise Untranslatable("string keys must carry tag 1")
    return f"match int_of {x} with Some __n => {ok} | None => {other} end"


class FootWalker(Walker):
    """adds: the try/except key, tuple unpacking of the (label, footnote) pair"""

    def block(self, stmts, env, k):
        if stmts and isinstance(stmts[0], ast.Try):
            t = try_key(stmts[0], env, self)
            if stmts[1:]:
                raise Untranslatable("statements after try/return")
            return t
        if stmts and isinstance(stmts[0], ast.Assign) and u(stmts[0]) == "label, _ = footnote" and env.types.get("footnote") == "pair":
            e2 = env.copy()
            e2.types["label"] = "str"
            return f"let '(label, _) := footnote in\n{self.block(stmts[1:], e2, k)}"
        return super().block(stmts, env, k)

    def local_def(self, f, rest, env, k):
        args = [a.arg for a in f.args.args]
        if len(args) != 1:
            raise Untranslatable("local function arity")
        sub = FootWalker(self.expr_hook, None, False, self.skip_hook)
        sub.k_return = lambda env2, v: sub.pure(v, env2)
        e2 = env.copy()
        ty = self.expr_hook(ast.Call(func=ast.Name(id="__argtype", ctx=ast.Load()), args=[ast.Constant(f.name)], keywords=[]), e2, sub)[0]

        def off(_e):
            raise Untranslatable("local function falls off the end")
        body = sub.block(list(f.body), e2, off)
        env = env.copy()
        env.types[f.name] = "fun"
        return f"let {f.name} := (fun ({args[0]} : {ty}) =>\n{body}) in\n{self.block(rest, env, k)}"


def canon_rule_for(which):
    def rule(kind, src, arity):
        if which == "sort":
            if kind == "assign" and src.startswith("[") and "self.document.autofootnote_refs" in src:
                return ("ref_order",)
            if kind == "def":
                return ("_sort_key",)
            if kind == "arg" and arity == 1:
                return ("node",)
        if which == "detect":
            if kind == "for" and arity == 1:
                return ("node",)
        if which == "collect":
            if kind == "assign" and src == "[]":
                return ("footnotes",)
            if kind == "assign" and src == "footnote.children[0]":
                return ("label",)
            if kind == "assign" and src.startswith("nodes.transition("):
                return ("transition",)
            if kind == "assign" and src == "footnote" and arity == 2:
                return ("label", "_")
            if kind == "for" and arity == 1:
                return ("footnote",)
            if kind == "for" and arity == 2:
                return ("_", "footnote")
            if kind == "def":
                return ("_sort_key",)
            if kind == "arg" and arity == 1:
                return ("footnote",)
        if which == "render":
            if kind == "assign" and src == "token.meta['label']":
                return ("target",)
            if kind == "assign" and src.startswith("nodes.footnote_reference("):
                return ("refnode",)
            if kind == "assign" and src == "nodes.footnote()":
                return ("footnote",)
        return None
    return rule


def translate(fn, which):
    fn = canonicalize(fn, canon_rule_for(which))
    m = FootMap(which)
    w = FootWalker(m.expr, m.effect, False, None, m.loop)
    w.loop_state_hook = m.loop_state
    if [a.arg for a in fn.args.args] != ["self"] or fn.args.kwarg is None:
        raise Untranslatable(f"{which}: apply signature")
    if which == "sort":
        env = Env({"g": "regs"})
        w.k_return = lambda e, v: "g" if v is None else (_ for _ in ()).throw(Untranslatable("return value"))
        body = w.block(list(fn.body), env, lambda e: "g")
        return ("Definition sort_footnotes_src (footnote_sort : bool) (g : regs) : regs :=\n" + body + ".\n")
    if which == "detect":
        env = Env({"w": "warns"})
        w.k_return = lambda e, v: "set_warn s w"
        body = w.block(list(fn.body), env, lambda e: "set_warn s w")
        return ("Definition unreferenced_src (s : fstate) : fstate :=\nlet w := s_warn s in\n" + body + ".\n")
    env = Env({"layout": "layout"})
    w.k_return = lambda e, v: "set_layout s layout"
    body = w.block(list(fn.body), env, lambda e: "set_layout s layout")
    return ("Definition collect_footnotes_src (int_of : str -> option N) (footnote_sort footnote_transition : bool) "
            "(s : fstate) : fstate :=\nlet layout := s_layout s in\n" + body + ".\n")


# ---------------------------------------------------------------- base.py: the two footnote render methods

RENDER_DOC = """  base.py      token.meta["label"] -> the parameter target ; target.isdigit() -> isdigit target ;
               nodes.footnote_reference(..) -> new_ref g target (the next reference of the document) ; refnode["auto"] = 1 -> ref_set_auto ;
               refnode["refname"] = target -> ref_set_refname ; refnode += nodes.Text(target) / add_line_and_source_path -> nothing ;
               self.document.note_autofootnote_ref / note_footnote_ref -> the registry updates of FootOps ;
               self.current_node.append(refnode) -> append_ref ; nodes.footnote() -> new_fn body ; footnote["names"].append(target) -> fn_add_name ;
               footnote["auto"] = 1 -> fn_set_auto ; footnote += nodes.label("", target) -> nothing ; note_footnote / note_autofootnote /
               note_explicit_target -> registry updates ; any(target in fn["names"] or target in fn["dupnames"] for fn in (*footnotes, *autofootnotes))
               -> existsb over g_footnotes g ++ g_autofootnotes g ; self.create_warning(f"Duplicate ..{target}..", "footnote", wtype="ref", ..)
               -> add_warn g (WDup target) ; `with self.current_node_context(footnote, append=True): self.render_children(token)` -> the
               children are rendered by the caller (Foot.render_blk) ; return -> (g, false), end of the method -> (g, true)"""

RENDER_SKIP = {"self.add_line_and_source_path(refnode, token)", "self.add_line_and_source_path(footnote, token)",
               "refnode += nodes.Text(target)", "footnote += nodes.label('', target)", "target = token.meta['label']",
               "with self.current_node_context(footnote, append=True):\n    self.render_children(token)"}


class RenderMap:
    def expr(self, e, env, w):
        src = u(e)
        if isinstance(e, ast.Call) and isinstance(e.func, ast.Name) and e.func.id == "__truthy":
            t = e.args[0]
            ts = u(t)
            if ts == "target.isdigit()":
                return "(isdigit target)", False
            if (isinstance(t, ast.Call) and u(t.func) == "any" and len(t.args) == 1 and isinstance(t.args[0], ast.GeneratorExp)):
                g = t.args[0]
                if (len(g.generators) != 1 or g.generators[0].ifs or u(g.generators[0].target) != "footnote"
                        or u(g.generators[0].iter) != "(*self.document.footnotes, *self.document.autofootnotes)"):
                    raise Untranslatable("duplicate test: generator")
                e2 = env.copy()
                e2.types["footnote"] = "fn"
                return f"(existsb (fun footnote => {w.test(g.elt, e2)}) (g_footnotes g ++ g_autofootnotes g))", False
            if isinstance(t, ast.Compare) and len(t.ops) == 1 and isinstance(t.ops[0], ast.In) and u(t.left) == "target":
                r = t.comparators[0]
                if u(r) == "footnote['names']" and env.types.get("footnote") == "fn":
                    return "(mem_str target (fn_names footnote))", False
                if u(r) == "footnote['dupnames']" and env.types.get("footnote") == "fn":
                    return "(mem_str target (fn_dupnames footnote))", False
            raise Untranslatable(f"test {ts}")
        if src.startswith("nodes.footnote_reference(") and len(e.args) == 1:
            w._last_type = "rf"
            return "new_ref g target", False
        if src == "nodes.footnote()":
            w._last_type = "fn"
            return "new_fn body", False
        raise Untranslatable(f"expression {src}")

    def effect(self, s, env, w):
        src = u(s)
        table = {
            "refnode['auto'] = 1": [("refnode", "ref_set_auto refnode", False)],
            "self.document.note_autofootnote_ref(refnode)": [("g", "note_autofootnote_ref g refnode", False)],
            "refnode['refname'] = target": [("refnode", "ref_set_refname refnode target", False)],
            "self.document.note_footnote_ref(refnode)": [("g", "note_footnote_ref g refnode", False)],
            "self.current_node.append(refnode)": [("g", "append_ref g refnode", False)],
            "footnote['names'].append(target)": [("footnote", "fn_add_name footnote target", False)],
            "footnote['auto'] = 1": [("footnote", "fn_set_auto footnote", False)],
            "self.document.note_footnote(footnote)": [("g", "note_footnote g footnote", False)],
            "self.document.note_autofootnote(footnote)": [("g", "note_autofootnote g footnote", False)],
            "self.document.note_explicit_target(footnote, footnote)": [("g", "note_explicit_target g footnote", False)],
        }
        if src in table:
            return table[src]
        if isinstance(s, ast.Expr) and isinstance(s.value, ast.Call) and u(s.value.func) == "self.create_warning":
            c = s.value
            kw = {k.arg: u(k.value) for k in c.keywords}
            ok = (len(c.args) == 2 and isinstance(c.args[0], ast.JoinedStr)
                  and any(isinstance(v, ast.FormattedValue) and u(v.value) == "target" for v in c.args[0].values)
                  and any(isinstance(v, ast.Constant) and "Duplicate footnote definition" in str(v.value) for v in c.args[0].values)
                  and u(c.args[1]) == "'footnote'"
                  and kw == {"wtype": "'ref'", "line": "token_line(token)", "append_to": "self.current_node"})
            if not ok:
                raise Untranslatable(f"create_warning call {src[:140]}")
            return [("g", "add_warn g (WDup target)", False)]
        return None

    def skip(self, s):
        return u(s) in RENDER_SKIP


def translate_render(fn, which):
    fn = canonicalize(fn, canon_rule_for("render"))
    m = RenderMap()
    w = Walker(m.expr, m.effect, False, m.skip, None)
    if [a.arg for a in fn.args.args] != ["self", "token"]:
        raise Untranslatable(f"{fn.name} signature")
    env = Env({"g": "regs", "target": "str"})
    if which == "ref":
        w.k_return = lambda e, v: (_ for _ in ()).throw(Untranslatable("return in render_footnote_ref"))
        body = w.block(list(fn.body), env, lambda e: "g")
        return ("Definition render_footnote_ref_src (isdigit : str -> bool) (g : regs) (target : str) : regs :=\n" + body + ".\n")
    w.k_return = lambda e, v: "(g, false)" if v is None else (_ for _ in ()).throw(Untranslatable("return value"))
    body = w.block(list(fn.body), env, lambda e: "(g, true)")
    return ("Definition render_footnote_reference_src (isdigit : str -> bool) (g : regs) (target : str) (body : N) "
            ": regs * bool :=\n" + body + ".\n")


def find_renderer_method(tree, name):
    return find_method(tree, "DocutilsRenderer", name)


def scan_footnote_sites(repo: Path) -> dict:
    """Where does the package create footnote nodes / register them?  Symbol and anonymous footnotes can only come
    from docutils' own rST parser (eval-rst): MyST must not call note_symbol_footnote*, and must build footnote /
    footnote_reference nodes only in the two translated renderer methods (fail-closed)."""
    out = {"footnote_ctor": [], "footnote_ref_ctor": [], "symbol_calls": []}
    for p in sorted((repo / "myst_parser").rglob("*.py")):
        t = ast.parse(p.read_text())
        for fn in [n for n in ast.walk(t) if isinstance(n, ast.FunctionDef)]:
            for n in ast.walk(fn):
                if isinstance(n, ast.Call):
                    f = ast.unparse(n.func)
                    if f == "nodes.footnote":
                        out["footnote_ctor"].append(fn.name)
                    if f == "nodes.footnote_reference":
                        out["footnote_ref_ctor"].append(fn.name)
                if isinstance(n, ast.Attribute) and n.attr.startswith("note_symbol_footnote"):
                    out["symbol_calls"].append(fn.name)
    if sorted(set(out["footnote_ctor"])) != ["render_footnote_reference"] or sorted(set(out["footnote_ref_ctor"])) != ["render_footnote_ref"]:
        raise Untranslatable(f"footnote nodes are built outside the two renderer methods: {out}")
    if out["symbol_calls"]:
        raise Untranslatable(f"symbol footnotes are registered in {out['symbol_calls']}")
    return out


def generate(repo: Path) -> str:
    scan_footnote_sites(repo)
    tree = ast.parse((repo / "myst_parser/mdit_to_docutils/transforms.py").read_text())
    parts = [translate(find_method(tree, "SortFootnotes", "apply"), "sort"),
             translate(find_method(tree, "UnreferencedFootnotesDetector", "apply"), "detect"),
             translate(find_method(tree, "CollectFootnotes", "apply"), "collect")]
    btree = ast.parse((repo / "myst_parser/mdit_to_docutils/base.py").read_text())
    parts.append(translate_render(find_renderer_method(btree, "render_footnote_ref"), "ref"))
    parts.append(translate_render(find_renderer_method(btree, "render_footnote_reference"), "def"))
    return ("(* GENERATED by gen/c11_src.py from myst_parser/mdit_to_docutils/transforms.py and base.py - do not edit *)\n"
            "From Coq Require Import List NArith Bool.\n"
            "From MV Require Import Base.PyStr Base.Res Refs.RUtil Gen.Transforms Refs.Foot Refs.FootOps.\n"
            "Import ListNotations.\nOpen Scope N_scope.\n\n"
            "(* SortFootnotes.apply *)\n" + parts[0] + "\n(* UnreferencedFootnotesDetector.apply *)\n" + parts[1]
            + "\n(* CollectFootnotes.apply *)\n" + parts[2]
            + "\n(* DocutilsRenderer.render_footnote_ref (base.py) *)\n" + parts[3]
            + "\n(* DocutilsRenderer.render_footnote_reference (base.py) *)\n" + parts[4])


if __name__ == "__main__":
    import sys
    print(generate(Path(sys.argv[1] if len(sys.argv) > 1 else "/repo")))
