"""Regenerate coq/Gen/DocutilsFootSrc.v from the INSTALLED docutils (docutils/transforms/references.py, class
Footnotes: apply, number_footnotes, number_footnote_references, resolve_footnotes_and_citations,
resolve_references), statement by statement, over the log-based state of coq/Refs/DocutilsOps.v.

Domain mapping (TRUSTED, fail-closed; statements are matched by their exact text):
  self.document.autofootnotes / footnotes / autofootnote_refs / footnote_refs / nameids -> the registries in ds_regs ds ;
  self.document.citations / citation_refs -> empty (MyST creates no citations) ; self.document.autofootnote_start -> 1 ;
  str(n) -> show n ; d.get(k, []) and d[k] under the guard `k in d` -> refs_of d k ; L[i:] -> skipn i L ;
  node['names'] -> fn_names ; node['ids'][0] -> the footnote's name (ids are modelled by names) ;
  footnote.insert(0, nodes.label('', label)) -> set_label ; ref += nodes.Text(label) -> ref_add_text ; ref.delattr('refname') ->
  ref_del_refname ; ref['refid'] = x -> ref_set_refid ; X.add_backref(ref['ids'][0]) -> add_backref ; ref.resolved = 1 ->
  ref_set_resolved ; ref.resolved / ref.hasattr('refid') / ref.hasattr('refname') -> lookups in the logs ;
  self.autofootnote_labels -> ds_autolabels ; self.document.reporter.error('Too many autonumbered ..') -> add_error WTooMany ;
  ref.replace_self(prb) -> mark_problematic ; footnote['names'].append(label) + note_explicit_target -> name_anonymous ;
  assert .. / note_refid / set_id / note.resolved = 1 / building the problematic node -> nothing ;
  `while True: .. break` -> while_res with fuel label_fuel ds ; `for .. break` -> a fold with a stop flag ;
  try: x = L[i] except IndexError: H -> match nth_error L i with Some x => .. | None => H end ;
  self.symbolize_footnotes() -> nothing: MyST registers no symbol footnotes (C11_only_named_footnotes); the method is locked by
  the hash of its source (a changed docutils makes the generation fail)."""
from __future__ import annotations

import ast
import hashlib
from pathlib import Path

from gen.c09_pywalk import Env, Untranslatable, Walker

DOC = "self.document"
REGS = "(ds_regs ds)"
SYMBOLIZE_HASH = "af2516d5ffadc86b"

SKIP = {
    "assert len(footnote['ids']) == len(ref['ids']) == 1", "self.document.note_refid(ref)", "assert len(ref['ids']) == 1",
    "assert len(note['ids']) == 1", "note.resolved = 1", "msgid = self.document.set_id(msg)",
    "prb = nodes.problematic(ref.rawsource, ref.rawsource, refid=msgid)", "prbid = self.document.set_id(prb)",
    "msg.add_backref(prbid)", "footnote['names'].append(label)",
}

EFFECTS = {
    "footnote.insert(0, nodes.label('', label))": "set_label ds footnote label",
    "ref += nodes.Text(label)": "ref_add_text ds ref label",
    "ref.delattr('refname')": "ref_del_refname ds ref",
    "ref['refid'] = footnote['ids'][0]": "ref_set_refid ds ref (fn_id footnote)",
    "ref['refid'] = id": "ref_set_refid ds ref id",
    "footnote.add_backref(ref['ids'][0])": "add_backref ds footnote ref",
    "note.add_backref(ref['ids'][0])": "add_backref ds note ref",
    "ref.resolved = 1": "ref_set_resolved ds ref",
    "self.document.note_explicit_target(footnote, footnote)": "name_anonymous ds footnote label",
    "self.autofootnote_labels.append(label)": "add_autolabel ds label",
    "ref.replace_self(prb)": "mark_problematic ds ref",
    "self.autofootnote_labels = []": "reset_autolabels ds",
}


def u(e):
    return ast.unparse(e)


class DMap:
    def expr(self, e, env, w):
        src = u(e)
        if isinstance(e, ast.Call) and isinstance(e.func, ast.Name) and e.func.id == "__truthy":
            return self.truthy(e.args[0], env, w), False
        if isinstance(e, ast.Name):
            if e.id in env.types:
                return e.id, False
            raise Untranslatable(f"unknown name {e.id}")
        if isinstance(e, ast.Constant) and isinstance(e.value, int) and not isinstance(e.value, bool):
            return f"{e.value}%nat", False
        table = {
            "str(startnum)": "(show startnum)",
            f"{DOC}.autofootnotes": f"(g_autofootnotes {REGS})",
            f"{DOC}.footnotes": f"(g_footnotes {REGS})",
            f"{DOC}.citations": "(@nil fn)",
            f"{DOC}.autofootnote_refs": f"(g_autofootnote_refs {REGS})",
            f"{DOC}.autofootnote_refs[i:]": f"(skipn i (g_autofootnote_refs {REGS}))",
            f"{DOC}.footnote_refs.get(name, [])": f"(refs_of (g_footnote_refs {REGS}) name)",
            "footnote['names']": "(fn_names footnote)", "citation['names']": "(fn_names citation)",
            "note['ids'][0]": "(fn_id note)",
            f"{DOC}.autofootnote_start": "autofootnote_start",
        }
        if src in table:
            return table[src], False
        if src == f"{DOC}.footnote_refs[label]":
            if f"label in {DOC}.footnote_refs" not in env.truthy:
                raise Untranslatable("footnote_refs[label] without the membership guard")
            return f"(refs_of (g_footnote_refs {REGS}) label)", False
        if src == f"{DOC}.citation_refs[label]":
            return "(@nil rf)", False
        if src == f"{DOC}.nameids[label]":
            return "nameid_lookup ds label", True
        if src == f"{DOC}.ids[id]":
            return "foot_by_id ds id", True
        raise Untranslatable(f"expression {src}")

    def truthy(self, t, env, w):
        src = u(t)
        table = {
            f"label not in {DOC}.nameids": f"(negb (mem_str label (g_nameids {REGS})))",
            "footnote['names']": "(nonempty_l (fn_names footnote))",
            "footnote['dupnames']": "(nonempty_l (fn_dupnames footnote))",
            "ref.resolved": "(ref_resolved ds ref)",
            "ref.hasattr('refid')": "(ref_has_refid ds ref)",
            "ref.hasattr('refname')": "(ref_has_refname ds ref)",
            f"label in {DOC}.footnote_refs": f"(dmem (g_footnote_refs {REGS}) label)",
            f"label in {DOC}.citation_refs": "false",
        }
        if src in table:
            return table[src]
        raise Untranslatable(f"test {src}")

    def effect(self, s, env, w):
        src = u(s)
        if src in EFFECTS:
            return [("ds", EFFECTS[src], False)]
        if (isinstance(s, ast.Assign) and u(s.targets[0]) == "msg" and isinstance(s.value, ast.Call)
                and u(s.value.func) == f"{DOC}.reporter.error"):
            if "Too many autonumbered footnote references" not in u(s.value.args[0]):
                raise Untranslatable("reporter.error message")
            return [("ds", "add_error ds WTooMany", False)]
        if src == "id = note['ids'][0]":
            env.types["id"] = "str"
            return [("id", "(fn_id note)", False)]
        if src == f"startnum = {DOC}.autofootnote_start":
            env.types["startnum"] = "N"
            return [("startnum", "autofootnote_start", False)]
        if src == f"{DOC}.autofootnote_start = self.number_footnotes(startnum)":
            return [("__r", "number_footnotes_src ds startnum", True), ("ds", "(fst __r)", False)]
        if src == "self.number_footnote_references(startnum)":
            return [("ds", "number_footnote_references_src ds startnum", True)]
        if src == "self.symbolize_footnotes()":
            return []
        if src == "self.resolve_footnotes_and_citations()":
            return [("ds", "resolve_footnotes_and_citations_src ds", True)]
        if src in ("self.resolve_references(footnote, reflist)", "self.resolve_references(citation, reflist)"):
            who = "footnote" if "footnote" in src else "citation"
            return [("ds", f"resolve_references_src ds {who} reflist", True)]
        if src == f"reflist = {DOC}.footnote_refs[label]" or src == f"reflist = {DOC}.citation_refs[label]":
            env.types["reflist"] = "rfs"
            return [("reflist", w.pure(s.value, env), False)]
        if src == "startnum += 1":
            return [("startnum", "(startnum + 1)%N", False)]
        if src == "i += 1":
            return [("i", "(S i)", False)]
        if src == "i = 0":
            env.types["i"] = "nat"
            return [("i", "O", False)]
        if src == "label = str(startnum)":
            env.types["label"] = "str"
            return [("label", "(show startnum)", False)]
        return None

    def skip(self, s):
        return u(s) in SKIP

    def loop(self, s, env, w):
        if not isinstance(s.target, ast.Name):
            raise Untranslatable("loop target")
        x = s.target.id
        src = u(s.iter)
        ty = {"footnote": "fn", "citation": "fn", "name": "str", "label": "str", "ref": "rf"}.get(x)
        if ty is None:
            raise Untranslatable(f"loop variable {x}")
        env.types[x] = ty
        if src == "reflist":
            return x, "reflist"
        return x, w.pure(s.iter, env)


def own_level_has_break(stmts):
    for s in stmts:
        if isinstance(s, ast.Break):
            return True
        if isinstance(s, (ast.For, ast.While)):
            continue
        for f in ("body", "orelse", "handlers"):
            sub = getattr(s, f, None) or []
            flat = []
            for c in sub:
                flat += c.body if isinstance(c, ast.ExceptHandler) else [c]
            if own_level_has_break([c for c in flat if isinstance(c, ast.stmt)]):
                return True
    return False


class DWalker(Walker):
    """adds: while True/break, for ... break, try/except IndexError around a list index, return value"""
    state: list = ["ds"]
    k_break = None

    def loop_state(self, s, env):
        return list(self.state)

    def block(self, stmts, env, k):
        if not stmts:
            return k(env)
        s, rest = stmts[0], stmts[1:]
        if isinstance(s, ast.Break):
            if self.k_break is None:
                raise Untranslatable("break outside a loop")
            return self.k_break(env)
        if isinstance(s, ast.While):
            return self.while_stmt(s, rest, env, k)
        if isinstance(s, ast.Try):
            return self.try_stmt(s, rest, env, k)
        return super().block(stmts, env, k)

    def while_stmt(self, s, rest, env, k):
        if u(s.test) != "True" or s.orelse:
            raise Untranslatable("while shape")
        vs = ["label", "startnum"]                     # the variables the loop assigns
        tup = "(" + ", ".join(vs) + ")"
        e2 = env.copy()
        for v in vs:
            e2.types.setdefault(v, "?")
        saved = self.k_break
        self.k_break = lambda e: f"Ok ({tup}, true)"
        body = self.block(list(s.body), e2, lambda e: f"Ok ({tup}, false)")
        self.k_break = saved
        e3 = env.copy()
        e3.types["label"] = "str"
        init = "((@nil N), startnum)" if "label" not in env.types else tup
        return (f"do {tup} <- while_res (label_fuel ds) (fun '{tup} =>\n{body}) {init};\n{self.block(rest, e3, k)}")

    def try_stmt(self, s, rest, env, k):
        if not (len(s.body) == 1 and u(s.body[0]) == "label = self.autofootnote_labels[i]" and len(s.handlers) == 1
                and u(s.handlers[0].type) == "IndexError" and not s.orelse and not s.finalbody):
            raise Untranslatable("try shape")
        e_ok = env.copy()
        e_ok.types["label"] = "str"
        ok = self.block(rest, e_ok, k)
        bad = self.block(list(s.handlers[0].body), env.copy(), lambda e: (_ for _ in ()).throw(Untranslatable("handler falls through")))
        return f"match nth_error (ds_autolabels ds) i with\n| Some label =>\n({ok})\n| None =>\n({bad})\nend"

    def for_stmt(self, s, rest, env, k):
        if s.orelse:
            raise Untranslatable("for/else")
        pat, seq = self.loop_hook(s, env, self)
        st = self.loop_state(s, env)
        has_break = own_level_has_break(list(s.body))
        names = st + (["__brk"] if has_break else [])
        tup = names[0] if len(names) == 1 else "(" + ", ".join(names) + ")"
        tpat = names[0] if len(names) == 1 else "'(" + ", ".join(names) + ")"
        saved_b, saved_state = self.k_break, self.state
        if has_break:
            brk = "(" + ", ".join(st + ["true"]) + ")"
            self.k_break = lambda e: f"Ok {brk}"
        else:
            self.k_break = None
        e_body = env.copy()
        e_body.types[pat] = env.types.get(pat, "str")
        body = self.block(list(s.body), e_body, lambda e: f"Ok {tup}")
        if has_break:
            body = f"if __brk then Ok {tup} else\n({body})"
            init = "(" + ", ".join(st + ["false"]) + ")"
            after = "(" + ", ".join(st + ["__stopped"]) + ")"
        else:
            init = tup
            after = tup.lstrip("'")
        self.k_break, self.state = saved_b, saved_state
        tys = {"ds": "dstate", "startnum": "N", "i": "nat", "__brk": "bool"}
        sty = " * ".join(tys[n] for n in names)
        xty = {"fn": "fn", "rf": "rf", "str": "str"}[e_body.types.get(pat, env.types.get(pat, "str"))] if pat in e_body.types or pat in env.types else "str"
        dest = f"let {tpat} := __st in\n" if len(names) > 1 else ""
        binder = "__st" if len(names) > 1 else names[0]
        return (f"do {after} <- fold_res (fun ({binder} : {sty}) ({pat} : {xty}) =>\n{dest}{body}) {seq} {init};\n"
                f"{self.block(rest, env.copy(), k)}")


def method(cls: ast.ClassDef, name: str) -> ast.FunctionDef:
    for f in cls.body:
        if isinstance(f, ast.FunctionDef) and f.name == name:
            return f
    raise Untranslatable(f"Footnotes.{name} not found")


def translate(fn, coq_sig, env_types, state, ret):
    m = DMap()
    w = DWalker(m.expr, m.effect, True, m.skip, m.loop)
    w.state = state
    w.k_return = (lambda e, v: ret(w.pure(v, e))) if ret else (lambda e, v: (_ for _ in ()).throw(Untranslatable("return")))
    env = Env(env_types)
    end = (lambda e: (_ for _ in ()).throw(Untranslatable("falls off the end"))) if ret else (lambda e: "Ok ds")
    return coq_sig + " :=\n" + w.block(list(fn.body), env, end) + ".\n"


# ---------------------------------------------------------------- docutils/nodes.py: the registry methods MyST calls
NODES_EFFECTS = {
    # ids are modelled by names / reference indices: set_id has no counterpart ; note_refname feeds document.refnames,
    # which the footnote pipeline never reads
    "self.set_id(footnote)": None, "self.set_id(ref)": None, "self.note_refname(ref)": None,
    "self.autofootnotes.append(footnote)": "set_autofootnotes g (g_autofootnotes g ++ [footnote])",
    "self.footnotes.append(footnote)": "set_footnotes g (g_footnotes g ++ [footnote])",
    "self.autofootnote_refs.append(ref)": "set_autofootnote_refs g (g_autofootnote_refs g ++ [ref])",
    "self.footnote_refs.setdefault(ref['refname'], []).append(ref)": "set_footnote_refs g (dappend (g_footnote_refs g) (r_label ref) ref)",
}


def translate_note(cls, name, arg, ty):
    f = method(cls, name)
    if [a.arg for a in f.args.args] != ["self", arg]:
        raise Untranslatable(f"document.{name} signature")
    out = "g"
    lets = []
    for s in f.body:
        src = u(s)
        if src not in NODES_EFFECTS:
            raise Untranslatable(f"document.{name}: {src}")
        if NODES_EFFECTS[src] is not None:
            lets.append(f"let g := {NODES_EFFECTS[src]} in")
    return f"Definition {name}_doc (g : regs) ({arg} : {ty}) : regs :=\n" + "\n".join(lets + ["g"]) + ".\n"


def translate_set_name_id_map(cls):
    """for name in tuple(node['names']): if name in self.nameids: self.set_duplicate_name_id(..) else: self.nameids[name] = id;
    self.nametypes[name] = explicit   -- the duplicate branch (dupnames bookkeeping) is outside the footnote model: Raise"""
    f = method(cls, "set_name_id_map")
    body = [s for s in f.body if not (isinstance(s, ast.Expr) and isinstance(s.value, ast.Constant))]
    want = ("for name in tuple(node['names']):\n    if name in self.nameids:\n        self.set_duplicate_name_id(node, id, name, msgnode, explicit)\n"
            "    else:\n        self.nameids[name] = id\n        self.nametypes[name] = explicit")
    if len(body) != 1 or u(body[0]) != want:
        raise Untranslatable("document.set_name_id_map no longer has the translated shape")
    g = method(cls, "note_explicit_target")
    if [u(s) for s in g.body] != ["id = self.set_id(target, msgnode)", "self.set_name_id_map(target, id, msgnode, explicit=True)"]:
        raise Untranslatable("document.note_explicit_target no longer has the translated shape")
    return ("Definition set_name_id_map_doc (g : regs) (node : fn) : res regs :=\n"
            "do g <- fold_res (fun (g : regs) (name : str) =>\n"
            "if (mem_str name (g_nameids g)) then\n(Raise AssertionError)   (* set_duplicate_name_id: not modelled *)\nelse\n"
            "(let g := set_nameids g (g_nameids g ++ [name]) in\nOk g)) (fn_names node) g;\nOk g.\n\n"
            "Definition note_explicit_target_doc (g : regs) (target : fn) : res regs :=\nset_name_id_map_doc g target.\n")


def generate_nodes() -> str:
    from docutils import nodes as dn
    tree = ast.parse(Path(dn.__file__).read_text())
    cls = next((c for c in tree.body if isinstance(c, ast.ClassDef) and c.name == "document"), None)
    if cls is None:
        raise Untranslatable("class document not found in docutils.nodes")
    return "\n".join([translate_note(cls, "note_autofootnote", "footnote", "fn"),
                      translate_note(cls, "note_footnote", "footnote", "fn"),
                      translate_note(cls, "note_autofootnote_ref", "ref", "rf"),
                      translate_note(cls, "note_footnote_ref", "ref", "rf"),
                      translate_set_name_id_map(cls)])


def generate() -> str:
    import docutils
    from docutils.transforms import references
    path = Path(references.__file__)
    tree = ast.parse(path.read_text())
    cls = next((c for c in tree.body if isinstance(c, ast.ClassDef) and c.name == "Footnotes"), None)
    if cls is None:
        raise Untranslatable("class Footnotes not found in docutils.transforms.references")
    h = hashlib.sha256(ast.unparse(method(cls, "symbolize_footnotes")).encode()).hexdigest()[:16]
    if h != SYMBOLIZE_HASH:
        raise Untranslatable(f"docutils Footnotes.symbolize_footnotes changed (hash {h}); it is not translated, only locked")
    parts = []
    parts.append(translate(method(cls, "resolve_references"),
                           "Definition resolve_references_src (ds : dstate) (note : fn) (reflist : list rf) : res dstate",
                           {"ds": "dstate", "note": "fn", "reflist": "rfs"}, ["ds"], None))
    f = method(cls, "number_footnotes")
    m = DMap()
    w = DWalker(m.expr, m.effect, True, m.skip, m.loop)
    w.state = ["ds", "startnum"]
    w.k_return = lambda e, v: f"Ok (ds, {w.pure(v, e)})"

    def off(_e):
        raise Untranslatable("number_footnotes falls off the end")
    # inside the outer loop the nested loops only thread ds
    orig = w.for_stmt

    def for_stmt(s, rest, env, k):
        if u(s.iter) == f"{DOC}.autofootnotes":
            w.state = ["ds", "startnum"]
            out = orig(s, rest, env, k)
            return out
        saved = w.state
        w.state = ["ds"]
        out = orig(s, rest, env, k)
        w.state = saved
        return out
    w.for_stmt = for_stmt
    parts.append("Definition number_footnotes_src (ds : dstate) (startnum : N) : res (dstate * N) :=\n"
                 + w.block(list(f.body), Env({"ds": "dstate", "startnum": "N"}), off) + ".\n")
    f = method(cls, "number_footnote_references")
    m = DMap()
    w2 = DWalker(m.expr, m.effect, True, m.skip, m.loop)
    w2.k_return = lambda e, v: (_ for _ in ()).throw(Untranslatable("return"))
    orig2 = w2.for_stmt

    def for_stmt2(s, rest, env, k):
        saved = w2.state
        w2.state = ["ds", "i"] if u(s.iter) == f"{DOC}.autofootnote_refs" else ["ds"]
        out = orig2(s, rest, env, k)
        w2.state = saved
        return out
    w2.for_stmt = for_stmt2
    parts.append("Definition number_footnote_references_src (ds : dstate) (startnum : N) : res dstate :=\n"
                 + w2.block(list(f.body), Env({"ds": "dstate", "startnum": "N"}), lambda e: "Ok ds") + ".\n")
    parts.append(translate(method(cls, "resolve_footnotes_and_citations"),
                           "Definition resolve_footnotes_and_citations_src (ds : dstate) : res dstate",
                           {"ds": "dstate"}, ["ds"], None))
    parts.append(translate(method(cls, "apply"), "Definition footnotes_apply_src (ds : dstate) : res dstate",
                           {"ds": "dstate"}, ["ds"], None))
    return (f"(* GENERATED by gen/c11_docutils.py from {path} (docutils {docutils.__version__}) - do not edit *)\n"
            "From Coq Require Import List NArith Bool.\n"
            "From MV Require Import Base.PyStr Base.Res Refs.RUtil Gen.Transforms Refs.Foot Refs.FootOps Refs.DocutilsOps.\n"
            "Import ListNotations.\nOpen Scope N_scope.\n\n"
            + "\n".join(parts)
            + f"\n(* symbolize_footnotes is not translated: source hash {h} (locked) *)\n"
            + "\n(* ---- docutils/nodes.py : the registry methods of class document that MyST calls ---- *)\n" + generate_nodes())


if __name__ == "__main__":
    print(generate())
